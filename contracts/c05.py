"""C05 / C06: the entry rule of the parser never discards an unconsumed rest or a failed parse."""
from pv.contract import Contract
from contracts.common import base_registry, z, T


def registry():
    reg = base_registry(('Cell',))
    import z3
    from pv import sorts as S
    from pv.sorts import V, is_
    from pv.symexec import fresh, PyTuple, NotFormed
    ep_tok = z3.Function('entry_get_token', S.V, S.V)
    ep_rest = z3.Function('entry_get_rest', S.V, S.V)
    from pv.symspec import to_v
    reg.spec('entry_token', lambda e: ep_tok(to_v(e)), None, 'first component of EntryPointToken.get(expression, cell)')
    reg.spec('entry_rest', lambda e: ep_rest(to_v(e)), None, 'second component: the unconsumed token list')

    def placeholder(ex, st, args, kwargs, node):
        raise NotFormed('placeholder')
    reg.external('EntryPointToken', placeholder, 'only EntryPointToken.get is modelled')

    def ep_get(ex, st, args, kwargs, node):
        e = ex.need_term(args[0])
        tok, rest = ep_tok(e), ep_rest(e)
        st2 = st.add(z3.Or(is_('NoneV', tok), is_('Obj', tok)), is_('List', rest), S.ln(rest) >= 0)
        return [(st2, PyTuple([tok, rest]))]
    reg.external('EntryPointToken.get', ep_get,
                 'EntryPointToken.get(expression, cell) returns (token or None, list of unconsumed lexer tokens) '
                 '(consumed-prefix contract of CompositeBaseToken.get: bounded run-time contract, C05.monitor)')
    reg.external('CompositeBaseToken._get.cache_clear', lambda ex, st, args, kwargs, node: [(st, V.NoneV)],
                 'functools.lru_cache: cache_clear() only forgets cached results (K5: the cache is not observable)')
    reg.external('CompositeBaseToken', placeholder, 'only its cache_clear is referenced')
    reg.add(Contract(
        'AstBuilder.parse', 'repo:ast_builder.py:AstBuilder.parse', {'expression': 'list', 'in_cell': 'obj:Cell'},
        ensures={'whole_formula': 'result == entry_token(expression) and is_obj(result) and len(entry_rest(expression)) == 0'},
        raises={'E2PyclParserException': 'is_none(entry_token(expression)) or len(entry_rest(expression)) > 0'},
        notes='a formula is translated whole or rejected: the tree is returned only when the entry rule matched and no '
              'lexer token is left over; otherwise the library parser exception is raised'))
    return reg


def registry_get():
    """CompositeBaseToken.get: the ordered-choice parser consumes a prefix of the lexer tokens and drops nothing.

    Tokens are modelled as immutable values: a lexer token is any value with a class tcls(t) and width 1; a composite token
    is node(cls, parts) with width = sum of the widths of its parts and leaf(node, offset_j + p) = leaf(parts[j], p)."""
    import z3
    from pv import sorts as S
    from pv.sorts import V, is_, ln, at
    from pv.symexec import fresh, NotFormed, Static
    from pv.symstmt import register_class
    from pv.symspec import to_v, to_int
    reg = base_registry(('Cell',))
    register_class(reg, 'CompositeBaseToken', 'repo:tokens/composite_base_token.py:CompositeBaseToken')
    tcls = z3.Function('tok_class', S.V, S.I)
    width = z3.Function('tok_width', S.V, S.I)
    leaf = z3.Function('tok_leaf', S.V, S.I, S.V)
    node = z3.Function('tok_node', S.I, S.V, S.V)
    pw = z3.Function('parts_width', S.V, S.I, S.I)          # width of the first k parts of a list
    parts = z3.Function('tok_parts', S.V, S.V)
    TS = z3.Function('token_sets', S.I, S.V)
    is_lex = z3.Function('is_lexer_token', S.V, S.B)

    jof = z3.Function('part_of_position', S.V, S.I, S.I)     # index of the part that covers leaf position x

    def axioms():
        c, p, k, x = z3.Int('ax_c'), z3.Const('ax_p', S.V), z3.Int('ax_k'), z3.Int('ax_x')
        t = z3.Const('ax_t', S.V)
        return [
            z3.ForAll([p, k], z3.Implies(k <= 0, pw(p, k) == 0), patterns=[pw(p, k)]),
            z3.ForAll([p, k], z3.Implies(k > 0, pw(p, k) == pw(p, k - 1) + width(at(p, k - 1))), patterns=[pw(p, k)]),
            z3.ForAll([c, p], z3.And(tcls(node(c, p)) == c, parts(node(c, p)) == p, width(node(c, p)) == pw(p, ln(p)), z3.Not(is_lex(node(c, p))),
                                     z3.Not(is_('NoneV', node(c, p)))), patterns=[node(c, p)]),
            # definition of the leaves of a composite token: position x lies in part jof(p, x)
            z3.ForAll([c, p, x], leaf(node(c, p), x) == leaf(at(p, jof(p, x)), x - pw(p, jof(p, x))),
                      patterns=[leaf(node(c, p), x)]),
            # DECOMPOSITION lemma (LEMMA obligations C05.lemma.decomposition.*: induction on the number of parts)
            z3.ForAll([p, x], z3.Implies(z3.And(0 <= x, x < pw(p, ln(p))),
                                         z3.And(0 <= jof(p, x), jof(p, x) < ln(p), pw(p, jof(p, x)) <= x,
                                                x < pw(p, jof(p, x) + 1))), patterns=[jof(p, x)]),
            z3.ForAll([t], z3.Implies(is_lex(t), z3.And(width(t) == 1, leaf(t, 0) == t)), patterns=[is_lex(t)]),
            z3.ForAll([t], width(t) >= 0, patterns=[width(t)]),
        ]

    def append_prefix(new, old):
        # APPEND-PREFIX lemma (LEMMA obligations C05.lemma.append_prefix.*): pw depends only on the first k parts
        k = z3.Int('ap_k')
        return [z3.ForAll([k], z3.Implies(k <= ln(old), pw(new, k) == pw(old, k)), patterns=[pw(new, k)])]
    reg.append_lemmas.append(append_prefix)
    reg.lemma_symbols = {'pw': pw, 'width': width, 'jof': jof}
    reg.axioms.append(axioms)
    reg.spec('width', lambda t: width(to_v(t)), None, 'number of lexer tokens a token covers')
    reg.spec('leaf', lambda t, p: leaf(to_v(t), to_int(p)), None, 'the p-th lexer token under a token, left to right')
    reg.spec('pw', lambda p, k: pw(to_v(p), to_int(k)), None, 'lexer tokens covered by the first k parts')
    reg.spec('tcls', lambda t: tcls(to_v(t)), None, 'class of a token')
    reg.spec('parts', lambda t: parts(to_v(t)), None, 'the list of children of a composite token')
    reg.spec('is_lex', lambda t: is_lex(to_v(t)), None, 'the value is a lexer token')
    reg.spec('cid', lambda c: S.V.cid(to_v(c)), None, 'class id')
    reg.spec('is_cls', lambda c: is_('Cls', to_v(c)), None, 'a class value')
    reg.spec('token_sets', lambda c: TS(S.V.cid(to_v(c))), None, 'the token sets of a composite class')

    def get_token_sets(ex, st, args, kwargs, node_):
        c = ex.need_term(args[0])
        r = TS(V.cid(c))
        j, i = fresh('j', S.I), fresh('i', S.I)
        return [(st.add(is_('List', r),
                        z3.ForAll([j], z3.Implies(z3.And(0 <= j, j < ln(r)), is_('List', at(r, j))), patterns=[at(r, j)]),
                        z3.ForAll([j, i], z3.Implies(z3.And(0 <= j, j < ln(r), 0 <= i, i < ln(at(r, j))), is_('Cls', at(at(r, j), i))),
                                  patterns=[at(at(r, j), i)])), r)]
    reg.external('method:get_token_sets', get_token_sets, 'cls.get_token_sets(): the list of token sets (lists of classes) of the class')

    def klass(ex, st, args, kwargs, node_):
        o = ex.need_term(args[0])
        return [(st, V.Cls(tcls(o)))]
    reg.external('attr:__class__', klass, 'token.__class__: the class of a token value')

    def placeholder(ex, st, args, kwargs, node_):
        raise NotFormed('placeholder')
    reg.external('ControlConstructionCompositeBaseToken', placeholder, 'only referenced inside the abstracted set comprehension')
    reg.external('CompositeBaseToken', placeholder, 'class object')

    def subclasses(ex, st, args, kwargs, node_):
        L = V.List(fresh('subclasses', S.I))
        return [(st, L)]
    reg.external('CompositeBaseToken.subclasses', subclasses, 'CompositeBaseToken.subclasses(): some list of classes (membership unconstrained)')

    def construct_node(ex, st, args, kwargs, node_):
        c, parts = ex.need_term(args[0]), ex.need_term(args[1])
        return [(st, node(V.cid(c), parts))]
    reg.external('construct:cls', construct_node, 'cls(parts, in_cell): the composite token of class cls over these parts')

    EXPR = ('all(is_lex(expression[i]) and not is_none(expression[i]) for i in range(len(expression)))')
    SUFFIX = ('len({rest}) == len(expression) - {c} and all({rest}[q] == expression[{c} + q] for q in range(len({rest})))')
    post = ('(is_none(result[0]) and is_list(result[1]) and len(result[1]) == len(expression) and '
            'all(result[1][q] == expression[q] for q in range(len(expression)))) or '
            '(not is_none(result[0]) and width(result[0]) >= 1 and width(result[0]) <= len(expression) and '
            'is_list(result[1]) and ' + SUFFIX.format(rest='result[1]', c='width(result[0])') + ' and '
            'all(leaf(result[0], p) == expression[p] for p in range(width(result[0]))))')
    ENS = {'is_pair': 'is_tuple(result) and len(result) == 2',
           'token_class': 'implies(not is_none(result[0]), tcls(result[0]) == cid(cls))',
           'consumed_prefix': post,
           'shape_is_a_token_set': 'implies(not is_none(result[0]), tcls(result[0]) == cid(cls) and '
                                   'any(len(parts(result[0])) == len(token_sets(cls)[s]) and len(parts(result[0])) >= 1 and '
                                   'all(tcls(parts(result[0])[j]) == cid(token_sets(cls)[s][j]) for j in range(len(parts(result[0])))) '
                                   'for s in range(len(token_sets(cls)))))'}
    reg.add(Contract(
        'CompositeBaseToken.get', 'repo:tokens/composite_base_token.py:CompositeBaseToken.get',
        {'cls': 'cls', 'expression': 'list', 'in_cell': 'V'}, self_class='CompositeBaseToken',
        requires=[EXPR], ensures=dict(ENS), free_exceptions=['E2PyclParserException'], callees={'_get': 'CompositeBaseToken._get'},
        notes='the public entry: converts the list to a tuple and answers from CompositeBaseToken._get (memoised with '
              'functools.lru_cache, K5: a cached answer is an answer of the function); same contract'))
    reg.add(Contract(
        'CompositeBaseToken._get', 'repo:tokens/composite_base_token.py:CompositeBaseToken._get',
        {'cls': 'cls', 'expression': 'tuple', 'in_cell': 'V'}, self_class='CompositeBaseToken',
        requires=[EXPR], callees={'get': 'CompositeBaseToken.get'},
        ensures={'is_pair': 'is_tuple(result) and len(result) == 2',
                 'token_class': 'implies(not is_none(result[0]), tcls(result[0]) == cid(cls))',
                 'consumed_prefix': post,
                 'shape_is_a_token_set': 'implies(not is_none(result[0]), tcls(result[0]) == cid(cls) and '
                                         'any(len(parts(result[0])) == len(token_sets(cls)[s]) and len(parts(result[0])) >= 1 and '
                                         'all(tcls(parts(result[0])[j]) == cid(token_sets(cls)[s][j]) for j in range(len(parts(result[0])))) '
                                         'for s in range(len(token_sets(cls)))))'},
        free_exceptions=['E2PyclParserException'],
        invariants={
            0: {'flag': 'is_bool(control_construction_flag)'},
            1: {'part': 'is_list(new_expression_part) and len(new_expression_part) == k1 and is_list(_expression) and '
                        'is_bool(control_construction_flag) and is_list(tokens)',
                'consumed': 'pw(new_expression_part, k1) >= k1 and pw(new_expression_part, k1) <= len(expression) and ' +
                            SUFFIX.format(rest='_expression', c='pw(new_expression_part, k1)'),
                'classes': 'tokens == token_sets(cls)[k0] and all(tcls(new_expression_part[j]) == cid(tokens[j]) for j in range(k1))',
                'parts_nonempty': 'all(not is_none(new_expression_part[j]) and width(new_expression_part[j]) >= 1 for j in range(k1))',
                'leaves_in_order': 'all(all(leaf(new_expression_part[j], q) == expression[pw(new_expression_part, j) + q] '
                                   'for q in range(width(new_expression_part[j]))) for j in range(k1))'},
        },
        notes='either (None, the untouched expression) or (token, rest) where rest is exactly the suffix of the expression after '
              'the width(token) >= 1 lexer tokens that the token covers, and the leaves of the token are those tokens in order: '
              'nothing is dropped, duplicated or reordered. The recursive call uses this contract as induction hypothesis '
              '(partial correctness; termination: C05.Grammar.no_left_recursion).'))
    return reg
