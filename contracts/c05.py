"""C05 / C06: the entry rule of the parser never discards an unconsumed rest or a failed parse."""
from pv.contract import Contract
from contracts.common import base_registry, z, T


def registry():
    reg = base_registry(('Cell',))
    import z3
    from pv import sorts as S
    from pv.sorts import V, is_
    from pv.symexec import fresh, PyTuple, NotFormed
    ep_tok = z3.Function('entry_get_token', S.V, S.V)
    ep_rest = z3.Function('entry_get_rest', S.V, S.V)
    from pv.symspec import to_v
    reg.spec('entry_token', lambda e: ep_tok(to_v(e)), None, 'first component of EntryPointToken.get(expression, cell)')
    reg.spec('entry_rest', lambda e: ep_rest(to_v(e)), None, 'second component: the unconsumed token list')

    def placeholder(ex, st, args, kwargs, node):
        raise NotFormed('placeholder')
    reg.external('EntryPointToken', placeholder, 'only EntryPointToken.get is modelled')

    def ep_get(ex, st, args, kwargs, node):
        e = ex.need_term(args[0])
        tok, rest = ep_tok(e), ep_rest(e)
        st2 = st.add(z3.Or(is_('NoneV', tok), is_('Obj', tok)), is_('List', rest), S.ln(rest) >= 0)
        return [(st2, PyTuple([tok, rest]))]
    reg.external('EntryPointToken.get', ep_get,
                 'EntryPointToken.get(expression, cell) returns (token or None, list of unconsumed lexer tokens) '
                 '(consumed-prefix contract of CompositeBaseToken.get: bounded run-time contract, C05.monitor)')
    reg.add(Contract(
        'AstBuilder.parse', 'repo:ast_builder.py:AstBuilder.parse', {'expression': 'list', 'in_cell': 'obj:Cell'},
        ensures={'whole_formula': 'result == entry_token(expression) and is_obj(result) and len(entry_rest(expression)) == 0'},
        raises={'E2PyclParserException': 'is_none(entry_token(expression)) or len(entry_rest(expression)) > 0'},
        notes='a formula is translated whole or rejected: the tree is returned only when the entry rule matched and no '
              'lexer token is left over; otherwise the library parser exception is raised'))
    return reg
