"""C09 (and the gate clause of C19, the façade part of C06): Parser as a state machine.

The translation pipeline behind Parser._translate (Excel.parse, Excel.is_safe, Context, CellTranslator, build_class) is
ABSTRACTED here by assumed contracts: it is a function TR(path, entry title, entry column, entry row) of the workbook at
`path` and the entry triple, may fail (tr_fails / parse_fails, foreign or library exceptions) and the gate raises the
safety exception iff the workbook is unsafe.  That abstraction (determinism of the pipeline) is what the structural and
bounded parts of C09 check; what is PROVED here is the cache discipline of the façade: every public method keeps the class
invariant  "no change flag set  ==>  _translation is the translation of the current path / entry / safety setting"."""
from pv.contract import Contract
from contracts.common import base_registry, z, T


def _V():
    return T().V


def TR():
    z3, S = z(), T()
    return z3.Function('TR', S.V, S.V, S.V, S.V, S.V)


def unsafe():
    z3, S = z(), T()
    return z3.Function('wb_unsafe', S.V, S.B)


def parse_fails():
    z3, S = z(), T()
    return z3.Function('wb_parse_fails', S.V, S.B)


def tr_fails():
    z3, S = z(), T()
    return z3.Function('tr_fails', S.V, S.V, S.V, S.V, S.B)


def _tv(x):
    from pv.symspec import to_v
    return to_v(x)


def registry():
    reg = base_registry(('Cell', 'Parser'))
    reg.spec('TR', lambda p, t, c, r: TR()(_tv(p), _tv(t), _tv(c), _tv(r)), None,
             'the class text the pipeline produces for the workbook at path p and the entry triple (None, None, None = whole file)')
    reg.spec('unsafe', lambda p: unsafe()(_tv(p)), None, 'the workbook at p contains Python-like cells')
    reg.spec('parse_fails', lambda p: parse_fails()(_tv(p)), None, 'reading the workbook at p raises')
    reg.spec('tr_fails', lambda p, t, c, r: tr_fails()(_tv(p), _tv(t), _tv(c), _tv(r)), None, 'translating raises')
    reg.spec('et', lambda s_, e: _entry(s_, e, 'title'), None, 'entry title or None')
    _externals(reg)
    ET = 'ite(is_none(self._entrypoint_cell) , None, self._entrypoint_cell.title)'
    EC = 'ite(is_none(self._entrypoint_cell) , None, self._entrypoint_cell.column)'
    ER = 'ite(is_none(self._entrypoint_cell) , None, self._entrypoint_cell.row)'
    clean = ('(not Bv(self._excel_file_path_has_been_changed) and not Bv(self._entrypoint_cell_has_been_changed) and '
             'not Bv(self._safety_check_has_been_changed))')
    fresh_tr = f'self._translation == TR(self._excel_file_path, {ET}, {EC}, {ER})'
    INV = (f'implies({clean}, {fresh_tr} and truthy(self._excel_file_path) and '
           f'not (Bv(self._safety_check) and unsafe(self._excel_file_path)))')
    WF = ('is_bool(self._safety_check) and is_bool(self._safety_check_has_been_changed) and '
          'is_bool(self._entrypoint_cell_has_been_changed) and is_bool(self._excel_file_path_has_been_changed) and '
          '(is_none(self._entrypoint_cell) or allocated(self._entrypoint_cell)) and '
          '(is_none(self._excel_file_path) or is_str(self._excel_file_path))')
    FIELDS = ['_safety_check', '_safety_check_has_been_changed', '_translation', '_entrypoint_cell',
              '_entrypoint_cell_has_been_changed', '_excel_file_path', '_excel_file_path_has_been_changed',
              'g_path', 'g_t', 'g_c', 'g_r', 'wbpath', '_titles', '_sheets_size', 'g_written']
    P = {'self': 'obj:Parser'}
    common = dict(self_class='Parser', fields=FIELDS)
    mods = ['_safety_check', '_safety_check_has_been_changed', '_translation', '_entrypoint_cell',
            '_entrypoint_cell_has_been_changed', '_excel_file_path', '_excel_file_path_has_been_changed']
    for name, extra, post in (
            ('enable_safety_check', {}, {'setting': 'self._safety_check == True'}),
            ('disable_safety_check', {}, {'setting': 'self._safety_check == False'}),
            ('set_excel_file_path', {'excel_file_path': 'str'}, {'setting': 'self._excel_file_path == excel_file_path'}),
            ('set_entrypoint_cell', {'cell': 'obj:Cell'}, {'setting': 'self._entrypoint_cell == cell'})):
        reg.add(Contract(
            f'Parser.{name}', f'repo:utilities/parser.py:Parser.{name}', {**P, **extra}, requires=[WF, INV],
            ensures={**post, 'invariant': INV, 'wf': WF, 'returns_self': 'result == self',
                     'other_settings_kept': ' and '.join(
                         f'self.{f} == old(self.{f})' for f in ('_safety_check', '_excel_file_path', '_entrypoint_cell')
                         if f not in post['setting'])},
            modifies=mods, **common,
            notes='a setter either leaves the cached translation valid for the new settings or marks it stale'))
    tr_pre = [WF, INV]
    reg.add(Contract(
        'Parser._translate', 'repo:utilities/parser.py:Parser._translate', P, requires=tr_pre,
        ensures={'fresh': f'{fresh_tr} and {clean}', 'gate': 'not (Bv(self._safety_check) and unsafe(self._excel_file_path))',
                 'settings_kept': 'self._safety_check == old(self._safety_check) and '
                                  'self._excel_file_path == old(self._excel_file_path) and '
                                  'self._entrypoint_cell == old(self._entrypoint_cell)',
                 'invariant': INV, 'wf': WF, 'returns_self': 'result == self'},
        ensures_on_raise={'invariant': INV, 'wf': WF,
                          'settings_kept': 'self._safety_check == old(self._safety_check) and '
                                           'self._excel_file_path == old(self._excel_file_path) and '
                                           'self._entrypoint_cell == old(self._entrypoint_cell)'},
        raises={'E2PyclSafetyException': f'not {clean} and truthy(self._excel_file_path) and '
                                         'not parse_fails(self._excel_file_path) and Bv(self._safety_check) and '
                                         'unsafe(self._excel_file_path)'},
        free_exceptions=['E2PyclParserException', 'Exception'],
        modifies=mods, **common,
        notes='after _translate the cached text is the translation of the CURRENT path / entry / safety setting and all '
              'flags are clear; when it raises, the invariant still holds (a failed attempt never leaves a stale text '
              'marked fresh); the safety exception is raised iff the check is on and the workbook is unsafe (and a '
              'translation was needed)'))
    reg.add(Contract(
        'Parser.get_translation', 'repo:utilities/parser.py:Parser.get_translation', P, requires=tr_pre,
        ensures={'current': f'result == TR(self._excel_file_path, {ET}, {EC}, {ER})', 'invariant': INV},
        ensures_on_raise={'invariant': INV}, free_exceptions=['E2PyclParserException', 'Exception', 'E2PyclSafetyException'],
        modifies=mods, **common, notes='the returned text corresponds to the settings in force at the time of the call'))
    reg.add(Contract(
        'Parser.write_translation', 'repo:utilities/parser.py:Parser.write_translation', {**P, 'file_path': 'str'},
        requires=tr_pre,
        ensures={'written_is_returned': f'self.g_written == TR(self._excel_file_path, {ET}, {EC}, {ER})', 'invariant': INV},
        ensures_on_raise={'invariant': INV}, free_exceptions=['E2PyclParserException', 'Exception', 'E2PyclSafetyException'],
        modifies=mods + ['g_written'], **common, notes='the written file equals the returned text'))
    return reg


def _entry(s_, e, f):
    raise NotImplementedError


def _externals(reg):
    """Assumed contracts of the pipeline behind the façade (see module docstring)."""
    import z3
    from pv import sorts as S
    from pv.sorts import V, is_
    from pv.symexec import fresh, Flow, NotFormed, Static

    def placeholder(ex, st, args, kwargs, node):
        raise NotFormed('placeholder called')
    for nm in ('Excel', 'CellTranslator'):
        reg.external(nm, placeholder, f'{nm}: only its class methods are modelled')

    def alloc(ex, st):
        newid = fresh('oid', S.I)
        st2 = st.add(newid == st.maxid + 1)
        st2.maxid = newid
        return st2, V.Obj(newid)

    def excel_parse(ex, st, args, kwargs, node):
        path = ex.need_term(args[0])
        st2, o = alloc(ex, st)
        st2 = ex.heap_store(st2, 'wbpath', V.oid(o), path)
        return ex.cases(st, [(parse_fails()(path), lambda s: [Flow('exc', s, 'Exception')])]) + \
            ex.cases(st2, [(z3.Not(parse_fails()(path)), lambda s: [(s, o)])])
    reg.external('Excel.parse', excel_parse, 'Excel.parse(path): an Excel object for the workbook at path, or an exception '
                 '(decided by the path alone)')

    def is_safe(ex, st, args, kwargs, node):
        e = args[0]
        p = z3.Select(st.field('wbpath'), V.oid(e))
        return ex.cases(st, [(unsafe()(p), lambda s: [Flow('exc', s, 'E2PyclSafetyException')]),
                             (z3.Not(unsafe()(p)), lambda s: [(s, S.NONE)])])
    reg.external('method:is_safe', is_safe, 'excel.is_safe() raises E2PyclSafetyException iff the workbook is unsafe')

    def getter(ex, st, args, kwargs, node):
        return [(st, fresh('meta'))]
    reg.external('method:get_titles', getter, 'excel.get_titles(): some value')
    reg.external('method:get_sheets_size', getter, 'excel.get_sheets_size(): some value')

    def context_ctor(ex, st, args, kwargs, node):
        st2, o = alloc(ex, st)
        for f in ('g_path', 'g_t', 'g_c', 'g_r'):
            st2 = ex.heap_store(st2, f, V.oid(o), S.NONE)
        return [(st2, o)]
    reg.external('Context', context_ctor, 'Context(): a fresh translation context')

    def translate(ex, st, args, kwargs, node):
        cell, excel, ctx = args
        p = z3.Select(st.field('wbpath'), V.oid(excel))
        t, c, r = [z3.Select(st.field(f), V.oid(cell)) for f in ('title', 'column', 'row')]
        fails = tr_fails()(p, t, c, r)
        s2 = st
        for f, v in (('g_path', p), ('g_t', t), ('g_c', c), ('g_r', r)):
            s2 = ex.heap_store(s2, f, V.oid(ctx), v)
        return ex.cases(st, [(fails, lambda s: [Flow('exc', s, 'E2PyclParserException')])]) + \
            ex.cases(s2, [(z3.Not(fails), lambda s: [(s, S.NONE)])])
    reg.external('CellTranslator.translate', translate, 'CellTranslator.translate(entry, excel, context) registers the slice of '
                 'the entry cell (a function of workbook and entry triple) or raises')

    def translate_file(ex, st, args, kwargs, node):
        excel, ctx = args
        p = z3.Select(st.field('wbpath'), V.oid(excel))
        fails = tr_fails()(p, S.NONE, S.NONE, S.NONE)
        s2 = st
        for f, v in (('g_path', p), ('g_t', S.NONE), ('g_c', S.NONE), ('g_r', S.NONE)):
            s2 = ex.heap_store(s2, f, V.oid(ctx), v)
        return ex.cases(st, [(fails, lambda s: [Flow('exc', s, 'E2PyclParserException')])]) + \
            ex.cases(s2, [(z3.Not(fails), lambda s: [(s, S.NONE)])])
    reg.external('CellTranslator.translate_file', translate_file, 'CellTranslator.translate_file(excel, context): whole workbook')

    def build_class(ex, st, args, kwargs, node):
        ctx = args[0]
        vals = [z3.Select(st.field(f), V.oid(ctx)) for f in ('g_path', 'g_t', 'g_c', 'g_r')]
        return [(st, TR()(*vals))]
    reg.external('method:build_class', build_class, 'context.build_class(): the class text, a function of what was translated')

    def with_open(ex, st, n):
        # with open(p, 'w', ...) as f: f.write(e)  ->  ghost field g_written of self := e
        import ast
        if not (len(n.items) == 1 and isinstance(n.items[0].context_expr, ast.Call) and
                isinstance(n.items[0].context_expr.func, ast.Name) and n.items[0].context_expr.func.id == 'open' and
                len(n.body) == 1 and isinstance(n.body[0], ast.Expr) and isinstance(n.body[0].value, ast.Call) and
                isinstance(n.body[0].value.func, ast.Attribute) and n.body[0].value.func.attr == 'write' and
                len(n.body[0].value.args) == 1):
            raise NotFormed('with statement other than `with open(p, "w") as f: f.write(e)`')
        mode = n.items[0].context_expr.args[1] if len(n.items[0].context_expr.args) > 1 else None
        if not (isinstance(mode, ast.Constant) and mode.value == 'w'):
            raise NotFormed('file opened in a mode other than "w"')

        def k(s, v):
            me = s.env['self']
            return [Flow('fall', ex.heap_store(s, 'g_written', V.oid(me), ex.need_term(v)))]
        return ex.lift(ex.ev(n.body[0].value.args[0], st), k)
    reg.external('stmt:with', with_open, 'with open(path, "w") as f: f.write(text) makes `text` the content of the file (ghost g_written)')
