"""Contracts for selftest/engine_cases.py (engine self-test, not a property)."""
from pv.contract import Contract
from contracts.common import base_registry

T_ = 'verif:selftest/engine_cases.py:'


def registry():
    reg = base_registry(())
    reg.add(Contract('finally_counts', T_ + 'finally_counts', {'x': 'int'},
                     ensures={'exact': 'result == ite(I(x) > 0, 10, 101)'}))
    reg.add(Contract('finally_raises', T_ + 'finally_raises', {'d': 'dict', 'k': 'int'},
                     requires=['implies(has(d, k), is_int(get(d, k)))'],
                     ensures={'exact': 'has(d, k) and I(result) == I(get(d, k)) + 3'}, raises={'KeyError': 'not has(d, k)'}))
    reg.add(Contract('as_tuple', T_ + 'as_tuple', {'xs': 'list'}, requires=['len(xs) >= 1'],
                     ensures={'exact': 'is_tuple(result) and result[0] == len(xs) and result[1] == xs[0]'}))
    reg.add(Contract('store_then_sorted', T_ + 'store_then_sorted', {'a': 'int', 'b': 'int'},
                     ensures={'exact': 'is_tuple(result) and I(result[0]) == min(I(a), I(b)) and '
                                       'I(result[1]) == ite(I(a) == I(b), 1, 2)'}))
    reg.add(Contract('pop_one', T_ + 'pop_one', {'d': 'dict', 'k': 'int'},
                     ensures={'tuple': 'is_tuple(result) and len(result) == 3', 'was_there': 'has(old(d), k)',
                              'value': 'result[0] == get(old(d), k)', 'count': 'I(result[1]) == len(old(d)) - 1',
                              'gone': 'result[2] == False and not has(d, k)'},
                     raises={'KeyError': 'not has(d, k)'}))
    return reg


CANARIES = {
    'pop_one': ('count', 'I(result[1]) == len(old(d))'),
    'finally_counts': ('exact', 'result == ite(I(x) > 0, 10, 1)'),            # the finally block would be skipped
    'finally_raises': ('exact', 'has(d, k) and I(result) == I(get(d, k)) + 1'),
    'as_tuple': ('exact', 'is_tuple(result) and result[0] == len(xs) + 1'),
    'store_then_sorted': ('exact', 'is_tuple(result) and I(result[0]) == max(I(a), I(b)) and I(result[1]) == 2'),
}
