"""C03: the translation context (closure bookkeeping of the generated class)."""
from pv.contract import Contract
from contracts.common import base_registry, z, T
from contracts import c02


def registry():
    reg = base_registry(('Cell', 'Context'))
    uidreg = c02.registry_uid()
    reg.specfns['int_str'] = uidreg.specfns['int_str']
    from contracts.c04 import uid_str_z
    reg.spec('uid_str', lambda t, c, r: uid_str_z(t, c, r), None, 'uid text _<t>_<c>_<r>')
    reg.spec('ref_of', lambda u: _ref(u), None, "the reference text self._cell_preprocessor('<name>')")
    cellq = ('allocated(cell) and is_bool(cell._handled_identifiers) and Bv(cell._handled_identifiers) and '
             'is_int(cell.title) and is_int(cell.column) and is_int(cell.row)')
    U = 'uid_str(cell.title, cell.column, cell.row)'
    F = ['_cell_translations', '_sub_cell_translations', '_cells_in_translation', '_titles', '_sheets_size']
    reg.add(Contract(
        'Context.get_cell', 'repo:context.py:Context.get_cell', {'self': 'obj:Context', 'cell': 'obj:Cell'},
        self_class='Context', fields=F, inline=['uid'],
        requires=[cellq, 'is_dict(self._cell_translations)'],
        ensures={'reference_iff_registered': f'result == ite(has(self._cell_translations, {U}), ref_of({U}), None)',
                 'frame': 'self._cell_translations == old(self._cell_translations)'},
        notes='a reference to a cell is produced only for a cell that has a translation (a key of defs)'))
    reg.add(Contract(
        'Context.set_cell', 'repo:context.py:Context.set_cell', {'self': 'obj:Context', 'cell': 'obj:Cell', 'code': 'str'},
        self_class='Context', fields=F, inline=['uid'], callees={'get_cell': 'Context.get_cell'},
        requires=[cellq, 'is_dict(self._cell_translations)'],
        ensures={'registered': f'has(self._cell_translations, {U}) and get(self._cell_translations, {U}) == code',
                 'returns_reference': f'result == ref_of({U})',
                 'others_kept': f'implies(ghost_key() != Vv({U}), has(self._cell_translations, ghost_key()) == '
                                'has(old(self._cell_translations), ghost_key()) and '
                                'implies(has(old(self._cell_translations), ghost_key()), get(self._cell_translations, ghost_key()) == '
                                'get(old(self._cell_translations), ghost_key())))'},
        modifies=['_cell_translations'],
        notes='registering a cell adds exactly its uid -> code entry, keeps every other entry, and returns a reference '
              'that names the registered key'))
    import contracts.rt as rt
    reg.specfns['ghost_key'] = rt.registry().specfns['ghost_key']
    _translator(reg, cellq, U, F)
    return reg


def _translator(reg, cellq, U, F):
    """CellTranslator._set_cell_to_context over an ABSTRACT formula translator: translating a formula may register further
    cells (old entries kept), leaves the in-progress marker set as it found it, may raise."""
    import z3
    from pv import sorts as S
    from pv.sorts import V, is_
    from pv.symexec import fresh, Flow, NotFormed
    from pv.symspec import to_v
    from pv import symexpr as E
    reg.spec('py_repr', lambda v: z3.Function('py_repr', S.V, S.S)(to_v(v)), None, 'repr(value)')
    reg.spec('is_formula', lambda v: z3.And(is_('Str', to_v(v)), z3.PrefixOf(z3.StringVal('='), S.V.sval(to_v(v)))), None,
             'a text starting with "="')
    tr_fails = z3.Function('formula_translation_fails', S.V, S.B)

    def placeholder(ex, st, args, kwargs, node):
        raise NotFormed('placeholder')
    for nm in ('Lexer', 'AstBuilder', 'EntryPointTokenTranslator'):
        reg.external(nm, placeholder, f'{nm}: only the call below is modelled')

    def lexer_parse(ex, st, args, kwargs, node):
        return [(st, fresh('lexed'))]
    reg.external('Lexer.parse', lexer_parse, 'Lexer.parse(text, in_cell): some token list or an exception (free)')

    def ast_parse(ex, st, args, kwargs, node):
        v = ex.need_term(args[0])
        return [(st, fresh('tree')), Flow('exc', st, 'E2PyclParserException')]
    reg.external('AstBuilder.parse', ast_parse, 'AstBuilder.parse: a tree or the parser exception (contract: C05)')

    def ep_translate(ex, st, args, kwargs, node):
        tree, excel, ctx = args
        old_tr = z3.Select(st.field('_cell_translations'), V.oid(ctx))
        new_tr = V.Dict(fresh('did', S.I))
        k = fresh('k')
        s2 = ex.heap_store(st, '_cell_translations', V.oid(ctx), new_tr)
        s2 = s2.add(z3.ForAll([k], z3.Implies(S.dhas(old_tr, k), z3.And(S.dhas(new_tr, k), S.dget(new_tr, k) == S.dget(old_tr, k))),
                              patterns=[S.dhas(new_tr, k)]), S.dcount(new_tr) >= S.dcount(old_tr))
        code = fresh('code')
        return [(s2.add(is_('Str', code)), code), Flow('exc', s2, 'E2PyclParserException'), Flow('exc', s2, 'Exception')]
    reg.external('EntryPointTokenTranslator.translate', ep_translate,
                 'EntryPointTokenTranslator.translate(tree, excel, context): returns code text; may register further cells '
                 '(existing entries are kept) and leaves context._cells_in_translation as it found it (the recursion is '
                 'well-bracketed: this very contract, as induction hypothesis); may raise')

    def fill_cell(ex, st, args, kwargs, node):
        excel, cell = args
        s2 = st
        for f in ('title', 'column', 'row', 'value'):
            s2 = ex.heap_store(s2, f, V.oid(cell), fresh(f))
        s2 = ex.heap_store(s2, '_handled_identifiers', V.oid(cell), S.TRUE)
        o = V.oid(cell)
        s2 = s2.add(is_('Int', z3.Select(s2.field('title'), o)), is_('Int', z3.Select(s2.field('column'), o)),
                    is_('Int', z3.Select(s2.field('row'), o)))
        return [(s2, cell), Flow('exc', st, 'E2PyclParserException'), Flow('exc', st, 'E2PyclCellException')]
    reg.external('method:fill_cell', fill_cell, 'excel.fill_cell(cell): normalises the identifiers to integers and fills the value, or '
                 'raises a library exception (contract: C02 Excel.fill_cell / handle_cell)')
    marks_same = ('all(has(context._cells_in_translation, k) for k in keys(old(context._cells_in_translation))) and '
                  'all(has(old(context._cells_in_translation), k) for k in keys(context._cells_in_translation))')
    reg.add(Contract(
        'CellTranslator._set_cell_to_context', 'repo:translators/cell_translator.py:CellTranslator._set_cell_to_context',
        {'cell': 'obj:Cell', 'excel': 'V', 'context': 'obj:Context'}, self_class='CellTranslator',
        fields=F, inline=['uid', 'has_handled_identifiers'], callees={'get_cell': 'Context.get_cell', 'set_cell': 'Context.set_cell'},
        requires=['allocated(cell) and is_bool(cell._handled_identifiers) and cell != context and '
                  'implies(Bv(cell._handled_identifiers), is_int(cell.title) and is_int(cell.column) and is_int(cell.row))',
                  'is_dict(context._cell_translations) and is_dict(context._cells_in_translation)'],
        ensures={
            'registered': f'has(context._cell_translations, {U})',
            'existing_entries_kept': 'implies(has(old(context._cell_translations), ghost_key()), '
                                     'has(context._cell_translations, ghost_key()) and '
                                     'get(context._cell_translations, ghost_key()) == get(old(context._cell_translations), ghost_key()))',
            'constant_is_repr': f'implies(not has(old(context._cell_translations), {U}) and not is_formula(cell.value), '
                                f'get(context._cell_translations, {U}) == ite(is_none(cell.value), "self.EmptyCell()", py_repr(cell.value)))',
            'marker_restored': marks_same,
            'handled': 'Bv(cell._handled_identifiers) and is_int(cell.title) and is_int(cell.column) and is_int(cell.row)',
        },
        ensures_on_raise={'existing_entries_kept': 'implies(has(old(context._cell_translations), ghost_key()), '
                                                   'has(context._cell_translations, ghost_key()))'},
        free_exceptions=['E2PyclParserException', 'E2PyclCellException', 'Exception'],
        modifies=['_cell_translations', '_cells_in_translation', 'title', 'column', 'row', 'value', '_handled_identifiers'],
        notes='after translating a cell its uid is a key of the translation map (so every reference produced for it names a '
              'generated method), earlier entries are never removed or changed, a constant cell is emitted as repr(value) / '
              'EmptyCell(), and the in-progress marker set is left as found; a cell that is already in progress raises the '
              'library parser exception (cycle) before descending'))



def _ref(u):
    from pv.symspec import to_str
    z3 = z()
    return z3.Concat(z3.StringVal("self._cell_preprocessor('"), to_str(u), z3.StringVal("')"))
