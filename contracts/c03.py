"""C03: the translation context (closure bookkeeping of the generated class)."""
from pv.contract import Contract
from contracts.common import base_registry, z, T
from contracts import c02


def registry():
    reg = base_registry(('Cell', 'Context'))
    uidreg = c02.registry_uid()
    reg.specfns['int_str'] = uidreg.specfns['int_str']
    from contracts.c04 import uid_str_z
    reg.spec('uid_str', lambda t, c, r: uid_str_z(t, c, r), None, 'uid text _<t>_<c>_<r>')
    reg.spec('ref_of', lambda u: _ref(u), None, "the reference text self._cell_preprocessor('<name>')")
    cellq = ('allocated(cell) and is_bool(cell._handled_identifiers) and Bv(cell._handled_identifiers) and '
             'is_int(cell.title) and is_int(cell.column) and is_int(cell.row)')
    U = 'uid_str(cell.title, cell.column, cell.row)'
    F = ['_cell_translations', '_sub_cell_translations', '_cells_in_translation', '_titles', '_sheets_size']
    reg.add(Contract(
        'Context.get_cell', 'repo:context.py:Context.get_cell', {'self': 'obj:Context', 'cell': 'obj:Cell'},
        self_class='Context', fields=F, inline=['uid'],
        requires=[cellq, 'is_dict(self._cell_translations)'],
        ensures={'reference_iff_registered': f'result == ite(has(self._cell_translations, {U}), ref_of({U}), None)',
                 'frame': 'self._cell_translations == old(self._cell_translations)'},
        notes='a reference to a cell is produced only for a cell that has a translation (a key of defs)'))
    reg.add(Contract(
        'Context.set_cell', 'repo:context.py:Context.set_cell', {'self': 'obj:Context', 'cell': 'obj:Cell', 'code': 'str'},
        self_class='Context', fields=F, inline=['uid'], callees={'get_cell': 'Context.get_cell'},
        requires=[cellq, 'is_dict(self._cell_translations)'],
        ensures={'registered': f'has(self._cell_translations, {U}) and get(self._cell_translations, {U}) == code',
                 'returns_reference': f'result == ref_of({U})',
                 'others_kept': f'implies(ghost_key() != Vv({U}), has(self._cell_translations, ghost_key()) == '
                                'has(old(self._cell_translations), ghost_key()) and '
                                'implies(has(old(self._cell_translations), ghost_key()), get(self._cell_translations, ghost_key()) == '
                                'get(old(self._cell_translations), ghost_key())))'},
        modifies=['_cell_translations'],
        notes='registering a cell adds exactly its uid -> code entry, keeps every other entry, and returns a reference '
              'that names the registered key'))
    import contracts.rt as rt
    reg.specfns['ghost_key'] = rt.registry().specfns['ghost_key']
    return reg


def _ref(u):
    from pv.symspec import to_str
    z3 = z()
    return z3.Concat(z3.StringVal("self._cell_preprocessor('"), to_str(u), z3.StringVal("')"))
