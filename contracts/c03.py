"""C03: the translation context (closure bookkeeping of the generated class)."""
from pv.contract import Contract
from contracts.common import base_registry, z, T
from contracts import c02


def registry():
    reg = base_registry(('Cell', 'Context', 'CellTranslator'))
    uidreg = c02.registry_uid()
    reg.specfns['int_str'] = uidreg.specfns['int_str']
    from contracts.c04 import uid_str_z
    reg.spec('uid_str', lambda t, c, r: uid_str_z(t, c, r), None, 'uid text _<t>_<c>_<r>')
    reg.spec('ref_of', lambda u: _ref(u), None, "the reference text self._cell_preprocessor('<name>')")
    cellq = ('allocated(cell) and is_bool(cell._handled_identifiers) and Bv(cell._handled_identifiers) and '
             'is_int(cell.title) and is_int(cell.column) and is_int(cell.row)')
    U = 'uid_str(cell.title, cell.column, cell.row)'
    F = ['_cell_translations', '_sub_cell_translations', '_cells_in_translation', '_titles', '_sheets_size']
    reg.add(Contract(
        'Context.get_cell', 'repo:context.py:Context.get_cell', {'self': 'obj:Context', 'cell': 'obj:Cell'},
        self_class='Context', fields=F, inline=['uid'],
        requires=[cellq, 'is_dict(self._cell_translations)'],
        ensures={'reference_iff_registered': f'result == ite(has(self._cell_translations, {U}), ref_of({U}), None)',
                 'frame': 'self._cell_translations == old(self._cell_translations)'},
        notes='a reference to a cell is produced only for a cell that has a translation (a key of defs)'))
    reg.add(Contract(
        'Context.set_cell', 'repo:context.py:Context.set_cell', {'self': 'obj:Context', 'cell': 'obj:Cell', 'code': 'str'},
        self_class='Context', fields=F, inline=['uid'], callees={'get_cell': 'Context.get_cell'},
        requires=[cellq, 'is_dict(self._cell_translations)'],
        ensures={'registered': f'is_dict(self._cell_translations) and has(self._cell_translations, {U}) and '
                               f'get(self._cell_translations, {U}) == code',
                 'every_existing_entry_kept': 'all(has(self._cell_translations, k) for k in keys(old(self._cell_translations)))',
                 'returns_reference': f'result == ref_of({U})',
                 'others_kept': f'implies(ghost_key() != Vv({U}), has(self._cell_translations, ghost_key()) == '
                                'has(old(self._cell_translations), ghost_key()) and '
                                'implies(has(old(self._cell_translations), ghost_key()), get(self._cell_translations, ghost_key()) == '
                                'get(old(self._cell_translations), ghost_key())))'},
        modifies=['_cell_translations'],
        notes='registering a cell adds exactly its uid -> code entry, keeps every other entry, and returns a reference '
              'that names the registered key'))
    import contracts.rt as rt
    reg.specfns['ghost_key'] = rt.registry().specfns['ghost_key']
    _translator(reg, cellq, U, F)
    return reg


def _translator(reg, cellq, U, F):
    """CellTranslator._set_cell_to_context over an ABSTRACT formula translator: translating a formula may register further
    cells (old entries kept), leaves the in-progress marker set as it found it, may raise."""
    import z3
    from pv import sorts as S
    from pv.sorts import V, is_
    from pv.symexec import fresh, Flow, NotFormed
    from pv.symspec import to_v
    from pv import symexpr as E
    reg.spec('py_repr', lambda v: z3.Function('py_repr', S.V, S.S)(to_v(v)), None, 'repr(value)')
    reg.spec('is_formula', lambda v: z3.And(is_('Str', to_v(v)), z3.PrefixOf(z3.StringVal('='), S.V.sval(to_v(v)))), None,
             'a text starting with "="')
    tr_fails = z3.Function('formula_translation_fails', S.V, S.B)

    def placeholder(ex, st, args, kwargs, node):
        raise NotFormed('placeholder')
    for nm in ('Lexer', 'AstBuilder', 'EntryPointTokenTranslator'):
        reg.external(nm, placeholder, f'{nm}: only the call below is modelled')

    def lexer_parse(ex, st, args, kwargs, node):
        return [(st, fresh('lexed'))]
    reg.external('Lexer.parse', lexer_parse, 'Lexer.parse(text, in_cell): some token list or an exception (free)')

    def ast_parse(ex, st, args, kwargs, node):
        v = ex.need_term(args[0])
        return [(st, fresh('tree')), Flow('exc', st, 'E2PyclParserException')]
    reg.external('AstBuilder.parse', ast_parse, 'AstBuilder.parse: a tree or the parser exception (contract: C05)')

    def ep_translate(ex, st, args, kwargs, node):
        tree, excel, ctx = args
        old_tr = z3.Select(st.field('_cell_translations'), V.oid(ctx))
        new_tr = V.Dict(fresh('did', S.I))
        k = fresh('k')
        s2 = ex.heap_store(st, '_cell_translations', V.oid(ctx), new_tr)
        s2 = s2.add(z3.ForAll([k], z3.Implies(S.dhas(old_tr, k), z3.And(S.dhas(new_tr, k), S.dget(new_tr, k) == S.dget(old_tr, k))),
                              patterns=[S.dhas(new_tr, k)]), S.dcount(new_tr) >= S.dcount(old_tr))
        code = fresh('code')
        return [(s2.add(is_('Str', code)), code), Flow('exc', s2, 'E2PyclParserException'), Flow('exc', s2, 'Exception')]
    reg.external('EntryPointTokenTranslator.translate', ep_translate,
                 'EntryPointTokenTranslator.translate(tree, excel, context): returns code text; may register further cells '
                 '(existing entries are kept) and leaves context._cells_in_translation as it found it (the recursion is '
                 'well-bracketed: this very contract, as induction hypothesis); may raise')

    def fill_cell(ex, st, args, kwargs, node):
        excel, cell = args
        s2 = st
        for f in ('title', 'column', 'row', 'value'):
            s2 = ex.heap_store(s2, f, V.oid(cell), fresh(f))
        s2 = ex.heap_store(s2, '_handled_identifiers', V.oid(cell), S.TRUE)
        o = V.oid(cell)
        s2 = s2.add(is_('Int', z3.Select(s2.field('title'), o)), is_('Int', z3.Select(s2.field('column'), o)),
                    is_('Int', z3.Select(s2.field('row'), o)))
        return [(s2, cell), Flow('exc', st, 'E2PyclParserException'), Flow('exc', st, 'E2PyclCellException')]
    reg.external('method:fill_cell', fill_cell, 'excel.fill_cell(cell): normalises the identifiers to integers and fills the value, or '
                 'raises a library exception (contract: C02 Excel.fill_cell / handle_cell)')
    marks_same = ('all(has(context._cells_in_translation, k) for k in keys(old(context._cells_in_translation))) and '
                  'all(has(old(context._cells_in_translation), k) for k in keys(context._cells_in_translation))')
    reg.add(Contract(
        'CellTranslator._set_cell_to_context', 'repo:translators/cell_translator.py:CellTranslator._set_cell_to_context',
        {'cls': 'cls', 'cell': 'obj:Cell', 'excel': 'V', 'context': 'obj:Context'}, self_class='CellTranslator',
        fields=F, inline=['uid', 'has_handled_identifiers'], callees={'get_cell': 'Context.get_cell', 'set_cell': 'Context.set_cell'},
        requires=['allocated(cell) and is_bool(cell._handled_identifiers) and cell != context and '
                  'implies(Bv(cell._handled_identifiers), is_int(cell.title) and is_int(cell.column) and is_int(cell.row))',
                  'is_dict(context._cell_translations) and is_dict(context._cells_in_translation)'],
        ensures={
            'registered': f'has(context._cell_translations, {U})',
            'existing_entries_kept': 'implies(has(old(context._cell_translations), ghost_key()), '
                                     'has(context._cell_translations, ghost_key()) and '
                                     'get(context._cell_translations, ghost_key()) == get(old(context._cell_translations), ghost_key()))',
            'constant_is_repr': f'implies(not has(old(context._cell_translations), {U}) and not is_formula(cell.value), '
                                f'get(context._cell_translations, {U}) == ite(is_none(cell.value), "self.EmptyCell()", py_repr(cell.value)))',
            'marker_restored': marks_same,
            'handled': 'is_bool(cell._handled_identifiers) and Bv(cell._handled_identifiers) and is_int(cell.title) and '
                       'is_int(cell.column) and is_int(cell.row)',
            'context_kept': 'is_dict(context._cell_translations) and is_dict(context._cells_in_translation)',
            'every_existing_entry_kept': 'all(has(context._cell_translations, k) for k in keys(old(context._cell_translations)))',
            'returns_its_arguments': 'is_tuple(result) and len(result) == 3 and result[0] == cell and result[1] == excel and '
                                     'result[2] == context',
            'other_cells_kept': 'unchanged_except("title", "old", cell) and unchanged_except("column", "old", cell) and '
                                'unchanged_except("row", "old", cell) and unchanged_except("_handled_identifiers", "old", cell)',
        },
        ensures_on_raise={'existing_entries_kept': 'implies(has(old(context._cell_translations), ghost_key()), '
                                                   'has(context._cell_translations, ghost_key()))'},
        free_exceptions=['E2PyclParserException', 'E2PyclCellException', 'Exception'],
        modifies=['_cell_translations', '_cells_in_translation', 'title', 'column', 'row', 'value', '_handled_identifiers'],
        notes='after translating a cell its uid is a key of the translation map (so every reference produced for it names a '
              'generated method), earlier entries are never removed or changed, a constant cell is emitted as repr(value) / '
              'EmptyCell(), and the in-progress marker set is left as found; a cell that is already in progress raises the '
              'library parser exception (cycle) before descending'))

    CELLPRE = ('allocated(cell) and is_bool(cell._handled_identifiers) and cell != context and '
               'implies(Bv(cell._handled_identifiers), is_int(cell.title) and is_int(cell.column) and is_int(cell.row))')
    reg.add(Contract(
        'CellTranslator.translate', 'repo:translators/cell_translator.py:CellTranslator.translate',
        {'cls': 'cls', 'cell': 'obj:Cell', 'excel': 'V', 'context': 'obj:Context'}, self_class='CellTranslator',
        fields=F, inline=['uid', 'has_handled_identifiers'],
        callees={'get_cell': 'Context.get_cell', '_set_cell_to_context': 'CellTranslator._set_cell_to_context'},
        requires=[CELLPRE, 'is_dict(context._cell_translations) and is_dict(context._cells_in_translation)'],
        ensures={
            'reference_to_a_registered_cell': f'has(context._cell_translations, {U}) and result == ref_of({U})',
            'existing_entries_kept': 'implies(has(old(context._cell_translations), ghost_key()), '
                                     'has(context._cell_translations, ghost_key()) and '
                                     'get(context._cell_translations, ghost_key()) == get(old(context._cell_translations), ghost_key()))',
        },
        free_exceptions=['E2PyclParserException', 'E2PyclCellException', 'Exception'],
        modifies=['_cell_translations', '_cells_in_translation', 'title', 'column', 'row', 'value', '_handled_identifiers'],
        notes='the text a translator receives for a referenced cell names a key of the translation map: the reference and the '
              'generated member always come together (closure of the slice, one step)'))

    def get_cells(ex, st, args, kwargs, node):
        import z3
        from pv import sorts as S
        from pv.sorts import V, is_, ln, at
        from pv.symexec import fresh
        L = z3.Function('c03_cells_of', S.V, S.V)(ex.need_term(args[0]))     # the list excel.get_cells() returns (named for the contract)
        i = fresh('i', S.I)
        new_max = fresh('maxid', S.I)
        hid = st.field('_handled_identifiers')
        facts = [is_('List', L), ln(L) >= 0, new_max == st.maxid + ln(L),
                 # freshly allocated Cell objects (one per position of the workbook), already filled and handled
                 z3.ForAll([i], z3.Implies(z3.And(0 <= i, i < ln(L)), z3.And(
                     is_('Obj', at(L, i)), V.oid(at(L, i)) == st.maxid + 1 + i,
                     is_('Bool', z3.Select(hid, V.oid(at(L, i)))), V.bval(z3.Select(hid, V.oid(at(L, i)))),
                     is_('Int', z3.Select(st.field('title'), V.oid(at(L, i)))), is_('Int', z3.Select(st.field('column'), V.oid(at(L, i)))),
                     is_('Int', z3.Select(st.field('row'), V.oid(at(L, i)))))), patterns=[at(L, i)])]
        st2 = st.add(*facts)
        st2.maxid = new_max
        return [(st2, L)]
    def _cells_of(e):
        import z3
        from pv import sorts as S
        from pv.symspec import to_v
        return z3.Function('c03_cells_of', S.V, S.V)(to_v(e))
    reg.spec('cells_of', _cells_of, None, 'the list of cells that excel.get_cells() returns')
    reg.external('method:get_cells', get_cells,
                 'excel.get_cells(): a list of freshly created, filled Cell objects with integer coordinates (assumed here; proved as '
                 'contract Excel.get_cells in contracts/c02.py, obligations C02.Excel.get_cells.*)')
    reg.add(Contract(
        'CellTranslator.translate_file', 'repo:translators/cell_translator.py:CellTranslator.translate_file',
        {'cls': 'cls', 'excel': 'V', 'context': 'obj:Context'}, self_class='CellTranslator',
        fields=F, inline=['uid', 'has_handled_identifiers'], callees={'_set_cell_to_context': 'CellTranslator._set_cell_to_context'},
        requires=['is_dict(context._cell_translations) and is_dict(context._cells_in_translation)'],
        ensures={
            'every_cell_registered': 'all(has(context._cell_translations, uid_str(cells_of(excel)[j].title, cells_of(excel)[j].column, '
                                     'cells_of(excel)[j].row)) for j in range(len(cells_of(excel))))',
            'existing_entries_kept': 'implies(has(old(context._cell_translations), ghost_key()), '
                                     'has(context._cell_translations, ghost_key()) and '
                                     'get(context._cell_translations, ghost_key()) == get(old(context._cell_translations), ghost_key()))',
        },
        invariants={0: {
            'the_list': 'seq0 == cells_of(excel)',
            'context_kept': 'is_dict(context._cell_translations) and is_dict(context._cells_in_translation) and allocated(context)',
            'cells_kept': 'all(allocated(seq0[j]) and seq0[j] != context and is_bool(seq0[j]._handled_identifiers) and '
                          'Bv(seq0[j]._handled_identifiers) and is_int(seq0[j].title) and is_int(seq0[j].column) and '
                          'is_int(seq0[j].row) for j in range(len(seq0)))',
            'every_cell_so_far_registered': 'all(has(context._cell_translations, uid_str(seq0[j].title, seq0[j].column, seq0[j].row)) '
                                            'for j in range(k0))',
            'existing_entries_kept': 'implies(has(old(context._cell_translations), ghost_key()), '
                                     'has(context._cell_translations, ghost_key()) and '
                                     'get(context._cell_translations, ghost_key()) == get(old(context._cell_translations), ghost_key()))'}},
        free_exceptions=['E2PyclParserException', 'E2PyclCellException', 'Exception'],
        modifies=['_cell_translations', '_cells_in_translation', 'title', 'column', 'row', 'value', '_handled_identifiers'],
        notes='whole-file translation: after the loop every cell that Excel.get_cells lists has an entry in the translation map '
              '(loop invariant every_cell_so_far_registered; the final state of the invariant is the claim), and entries that '
              'existed before are kept'))


def _ref(u):
    from pv.symspec import to_str
    z3 = z()
    return z3.Concat(z3.StringVal("self._cell_preprocessor('"), to_str(u), z3.StringVal("')"))
