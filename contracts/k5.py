"""K5: assumed contracts of library functions the runtime helpers call (datetime, calendar, dateutil.relativedelta).
Each is an *assumption* (listed in every evidence file that uses it) with a conformance check against the real
library in props/k5conf.py.  Dates are (proleptic Gregorian ordinal, second of day); closed forms in pv.sorts."""
import z3

from pv import sorts as T
from pv.sorts import V, is_
from pv.symexec import fresh, PyTuple

rd_months = z3.Function('rd_months', T.I, T.I)      # months of a relativedelta value (V.Other(xid))
rd_tag = z3.Function('rd_tag', T.I, T.B)            # xid denotes a relativedelta




def add_months(ex, st, a, k):
    """datetime + relativedelta(months=k): (y, m) moved by k months, day clamped to the target month's length."""
    st, y, m, d = ex.ymd_of(st, z3.simplify(V.tord(a)))
    idx = y * 12 + (m - 1) + k
    y2, m2 = fresh('y2', T.I), fresh('m2', T.I)
    st = st.add(idx == y2 * 12 + (m2 - 1), 1 <= m2, m2 <= 12)
    d2 = z3.If(d <= T.dim(y2, m2), d, T.dim(y2, m2))
    ok = z3.And(1 <= y2, y2 <= 9999)
    o2 = fresh('ord', T.I)

    def mk(s):
        s = s.add(o2 == T.ymd_to_ord(y2, m2, d2), *T.built_from_fields(o2, y2, m2, d2))
        return [(s, V.DateTime(o2, V.tsec(a)))]
    return ex.cases(st, [(ok, mk), (z3.Not(ok), lambda s: ex.exc(s, 'ValueError'))])


def install(reg):
    def dt_ctor(ex, st, args, kwargs, node):
        vals = list(args) + [T.vint(0)] * (6 - len(args))
        for v in vals:
            ex.need_term(v)
        y, m, d, hh, mi, ss = [T.int_of(v) for v in vals[:6]]
        ints = z3.And([T.is_intlike(v) for v in vals[:6]])
        ok = z3.And(ints, T.valid_ymd(y, m, d), 0 <= hh, hh < 24, 0 <= mi, mi < 60, 0 <= ss, ss < 60)
        o = fresh('ord', T.I)

        def mk(s):
            s = s.add(o == T.ymd_to_ord(y, m, d), *T.built_from_fields(o, y, m, d))
            return [(s, V.DateTime(o, hh * 3600 + mi * 60 + ss))]
        return ex.cases(st, [
            (ok, mk),
            (z3.And(ints, z3.Not(ok)), lambda s: ex.exc(s, 'ValueError')),
            (z3.Not(ints), lambda s: ex.exc(s, 'TypeError'))])
    reg.external('datetime.datetime', dt_ctor,
                 'datetime.datetime(y, m, d[, h, mi, s]) is the instant with proleptic Gregorian ordinal ord(y,m,d) and '
                 'second-of-day 3600h+60mi+s for valid fields, ValueError otherwise (microseconds not modelled)')

    def td_ctor(ex, st, args, kwargs, node):
        days = kwargs.get('days', args[0] if args else T.vint(0))
        days = ex.need_term(days)
        if set(kwargs) - {'days'} or len(args) > 1:
            from pv.symexec import NotFormed
            raise NotFormed('timedelta with fields other than days')
        return ex.cases(st, [(T.is_intlike(days), lambda s: [(s, V.TimeDelta(T.int_of(days), z3.IntVal(0)))]),
                             (z3.Not(T.is_intlike(days)), lambda s: ex._not_modelled(s, 'timedelta(days=<non-int>)'))])
    reg.external('datetime.timedelta', td_ctor, 'datetime.timedelta(days=n) is n whole days')

    def rd_ctor(ex, st, args, kwargs, node):
        from pv.symexec import NotFormed
        if args or set(kwargs) != {'months'}:
            raise NotFormed('relativedelta with fields other than months')
        k = ex.need_term(kwargs['months'])
        x = fresh('rd', T.I)

        def mk(s):
            return [(s.add(rd_months(x) == T.int_of(k), rd_tag(x)), V.Other(x))]
        return ex.cases(st, [(T.is_intlike(k), mk),
                             (z3.Not(T.is_intlike(k)), lambda s: ex._not_modelled(s, 'relativedelta(months=<non-int>)'))])
    reg.external('mod:relativedelta', rd_ctor,
                 'dateutil.relativedelta(months=k) added to a datetime moves (year, month) by k months and clamps the '
                 'day to the length of the target month; ValueError when the year leaves 1..9999')

    def monthrange(ex, st, args, kwargs, node):
        y, m = [ex.need_term(a) for a in args]
        ok = z3.And(T.is_intlike(y), T.is_intlike(m), 1 <= T.int_of(m), T.int_of(m) <= 12)
        wd = fresh('wd', T.I)

        def mk(s):
            s2, tup = ex.new_list(s.add(0 <= wd, wd <= 6), [V.Int(wd), V.Int(T.dim(T.int_of(y), T.int_of(m)))], tuple_=True)
            return [(s2, tup)]
        return ex.cases(st, [(ok, mk), (z3.Not(ok), lambda s: ex.exc(s, 'ValueError'))])
    reg.external('calendar.monthrange', monthrange,
                 'calendar.monthrange(y, m)[1] is the number of days of month m of year y (Gregorian leap rule)')

    def isleap(ex, st, args, kwargs, node):
        y = ex.need_term(args[0])
        return ex.cases(st, [(T.is_intlike(y), lambda s: [(s, V.Bool(T.leap(T.int_of(y))))]),
                             (z3.Not(T.is_intlike(y)), lambda s: ex.exc(s, 'TypeError'))])
    reg.external('calendar.isleap', isleap, 'calendar.isleap(y) is the Gregorian leap-year rule')
    reg.k5.append('datetime arithmetic: a + timedelta(days=n) adds n to the ordinal; (a - b).days is the floor of the '
                  'difference in days; .weekday() == (ordinal + 6) mod 7; .date() keeps the ordinal; '
                  '.year/.month/.day invert ord(y,m,d)')
    reg.binop_hooks = getattr(reg, 'binop_hooks', [])
    reg.binop_hooks.append(_rd_add)


def _rd_add(ex, st, op, a, b):
    """a + relativedelta / a - relativedelta; returns None when not applicable."""
    import ast
    if not isinstance(op, (ast.Add, ast.Sub)):
        return None
    sign = 1 if isinstance(op, ast.Add) else -1
    cond = z3.And(is_('DateTime', a), is_('Other', b), rd_tag(V.xid(b)))
    from pv.symexec import feasible
    if not feasible(st, cond):
        return None
    return cond, (lambda s: add_months(ex, s, a, sign * rd_months(V.xid(b))))
