"""C01: ExpressionTokenTranslator._group regroups the right-nested operand chain by the precedence of the Excel operators.

The grammar reads `a - b * c - d` as a chain (operand, operator, rest).  `_group` turns the chain into a tree.  Proved here
(K1, for every chain): the tree keeps every operand and operator of the chain in order (nothing dropped, duplicated or
reordered) and is the precedence tree - at every operation the left subtree's root is not weaker than the operation, the
right subtree's root is strictly stronger (so operators of one level group from the left, stronger levels bind tighter).
By L-OPG this determines the tree.

Model: tokens and trees are immutable values.  A token t has a class tcls(t), parts(t) (= t.value) and, for operator
carriers, operator_of(t) (= t.operator).  `_Operand(signs, token, brackets)` is leaf(signs, token, brackets) and
`_Operation(operator, left, right)` is opn(operator, left, right).  chain(t) is the sequence (z3 Seq) of operand and operator
tokens of the chain that starts at the expression token t; seq(tree) the in-order sequence of a tree.  The well-formedness of
the chain (wfe) is what CompositeBaseToken.get guarantees for an ExpressionToken (C05 shape_is_a_token_set) given the nine
token sets of ExpressionToken (K2 obligation C01.Grammar.expression_token_sets).  What is NOT covered: the signs collected
for a leaf (bounded monitor), the text emitted for the tree (K-S table + PARAM)."""
from pv.contract import Contract
from contracts.common import base_registry, z, T

EXPR, OPERAND, ONELEFT, SIGN, OPERATOR, BSTART, BFINISH, NT_OPERAND, NT_OPERATION, PCT = range(101, 111)


def registry():
    reg = base_registry(())
    import z3
    from pv import sorts as S
    from pv.sorts import V, is_, ln, at
    from pv.symexec import fresh, NotFormed
    from pv.symspec import to_v, to_int, to_bool
    I, B = S.I, S.B
    # Sequences of tokens in "continuation" form: every sequence-valued notion takes the rest that follows it, so that
    # concatenation is composition and no associativity reasoning is needed (z3's sequence theory tried to solve the word
    # equations that two decompositions of one chain imply and did not return; a free monoid with an associativity axiom made
    # unrelated obligations unstable).  SQ is an uninterpreted sort with NIL and cons; real lists are a model.
    SQ = z3.DeclareSort('c01_Seq')
    NIL = z3.Const('c01_nil', SQ)
    cons = z3.Function('c01_cons', S.V, SQ, SQ)
    seqk = z3.Function('c01_tree_seq', S.V, SQ, SQ)        # in-order sequence of a tree, followed by the rest
    chaink = z3.Function('c01_chain', S.V, SQ, SQ)         # chain of an expression token, followed by the rest
    pseqk = z3.Function('c01_waiting_seq', S.V, SQ, SQ)    # the waiting entries in the order of their levels, followed by the rest
    tailk = z3.Function('c01_tail', S.V, S.V, SQ, SQ)      # nothing, or the operator and the rest of the chain, followed by the rest

    tcls = z3.Function('c01_tok_class', S.V, I)
    parts = z3.Function('c01_tok_parts', S.V, S.V)
    opof = z3.Function('c01_operator_of', S.V, S.V)
    lvl = z3.Function('c01_level', S.V, I)
    leaf4 = z3.Function('c01_leaf', S.V, S.V, S.V, S.V, S.V)
    opn = z3.Function('c01_opn', S.V, S.V, S.V, S.V)
    rl = z3.Function('c01_root_level', S.V, I)
    wf = z3.Function('c01_wf_tree', S.V, B)
    wfe = z3.Function('c01_wf_expression', S.V, B)

    def cls_(i):
        return V.Cls(z3.IntVal(i))
    reg.constants = {'OneOperandArithmeticOperatorToken': cls_(SIGN), 'BracketStartToken': cls_(BSTART),
                     'PercentOperatorToken': cls_(PCT), '_Operand': cls_(NT_OPERAND), '_Operation': cls_(NT_OPERATION)}

    def axioms():
        s, t, b, o, l, r = [z3.Const(n, S.V) for n in ('c01_s', 'c01_t', 'c01_b', 'c01_o', 'c01_l', 'c01_r')]
        q = z3.Const('c01_q', SQ)
        pc_ = z3.Const('c01_pc', S.V)
        p = parts(t)

        def pc(i):
            return tcls(at(p, i))
        operand0 = z3.Or(pc(0) == OPERAND, pc(0) == ONELEFT)

        def is_operator(i):
            oo = opof(at(p, i))
            return z3.And(pc(i) == OPERATOR, is_('Obj', oo), 0 <= lvl(oo), lvl(oo) <= 3)
        f_single = z3.And(ln(p) == 1, operand0)
        f_sign = z3.And(ln(p) == 2, pc(0) == SIGN, wfe(at(p, 1)))
        f_chain = z3.And(ln(p) == 3, operand0, is_operator(1), wfe(at(p, 2)))
        f_br = z3.And(ln(p) == 3, pc(0) == BSTART, wfe(at(p, 1)), pc(2) == BFINISH)
        f_brchain = z3.And(ln(p) == 5, pc(0) == BSTART, wfe(at(p, 1)), pc(2) == BFINISH, is_operator(3), wfe(at(p, 4)))
        f_brpct = z3.And(ln(p) == 4, pc(0) == BSTART, wfe(at(p, 1)), pc(2) == BFINISH, pc(3) == PCT)
        f_brpctchain = z3.And(ln(p) == 6, pc(0) == BSTART, wfe(at(p, 1)), pc(2) == BFINISH, pc(3) == PCT, is_operator(4), wfe(at(p, 5)))
        return [
            # trees
            z3.ForAll([s, t, b, pc_], z3.And(rl(leaf4(s, t, b, pc_)) == 4, wf(leaf4(s, t, b, pc_))), patterns=[leaf4(s, t, b, pc_)]),
            z3.ForAll([s, t, b, pc_, q], seqk(leaf4(s, t, b, pc_), q) == cons(t, q), patterns=[seqk(leaf4(s, t, b, pc_), q)]),
            z3.ForAll([o, l, r, q], seqk(opn(o, l, r), q) == seqk(l, cons(o, seqk(r, q))), patterns=[seqk(opn(o, l, r), q)]),
            z3.ForAll([o, l, r], z3.And(rl(opn(o, l, r)) == lvl(o),
                                        wf(opn(o, l, r)) == z3.And(wf(l), wf(r), 0 <= lvl(o), lvl(o) <= 3, rl(l) >= lvl(o), rl(r) > lvl(o))),
                      patterns=[opn(o, l, r)]),
            # a well-formed expression token: an object of one of the nine shapes, with the chain it denotes
            z3.ForAll([t], z3.Implies(wfe(t), z3.And(
                is_('Obj', t), tcls(t) == EXPR, is_('List', p), z3.Or(f_single, f_sign, f_chain, f_br, f_brchain, f_brpct, f_brpctchain),
                z3.BoolVal(True))),
                      patterns=[wfe(t)]),
            # the chain an expression token denotes (unfolded where the chain of the token is mentioned)
            z3.ForAll([t, q], z3.Implies(wfe(t), z3.And(
                z3.Implies(f_single, chaink(t, q) == cons(at(p, 0), q)),
                z3.Implies(f_sign, chaink(t, q) == chaink(at(p, 1), q)),
                z3.Implies(f_chain, chaink(t, q) == cons(at(p, 0), cons(opof(at(p, 1)), chaink(at(p, 2), q)))),
                z3.Implies(f_br, chaink(t, q) == cons(at(p, 1), q)),
                z3.Implies(f_brchain, chaink(t, q) == cons(at(p, 1), cons(opof(at(p, 3)), chaink(at(p, 4), q)))),
                z3.Implies(f_brpct, chaink(t, q) == cons(at(p, 1), q)),
                z3.Implies(f_brpctchain, chaink(t, q) == cons(at(p, 1), cons(opof(at(p, 4)), chaink(at(p, 5), q)))))),
                      patterns=[chaink(t, q)]),
        ]
    reg.axioms.append(axioms)

    # ---- the code's view of tokens and trees
    reg.external('attr:value', lambda ex, st, args, kw, node: [(st, parts(ex.need_term(args[0])))], 'token.value: the parts of a token')
    reg.external('attr:operator', lambda ex, st, args, kw, node: [(st, opof(ex.need_term(args[0])))],
                 'x.operator: the operator token an operator / sign carrier holds')
    pcount = z3.Function('c01_percent_count', S.V, I)
    reg.external('attr:count', lambda ex, st, args, kw, node: [(st, V.Int(pcount(ex.need_term(args[0]))))],
                 'x.count: the number of percent signs a PercentOperatorToken holds')
    reg.external('attr:__class__', lambda ex, st, args, kw, node: [(st, V.Cls(tcls(ex.need_term(args[0]))))], 'token.__class__')

    def construct(ex, st, args, kwargs, node):
        c = ex.need_term(args[0])
        a = [ex.need_term(x) for x in args[1:]]
        k = z3.simplify(V.cid(c))
        if z3.is_int_value(k) and k.as_long() == NT_OPERAND and len(a) == 4:
            return [(st, leaf4(a[0], a[1], a[2], a[3]))]
        if z3.is_int_value(k) and k.as_long() == NT_OPERATION and len(a) == 3:
            return [(st, opn(a[0], a[1], a[2]))]
        raise NotFormed('constructor of an unknown class value')
    reg.external('construct:cls', construct, '_Operand(signs, token, brackets) / _Operation(operator, left, right): immutable values')

    def level_of(ex, st, args, kwargs, node):
        o = ex.need_term(args[-1])
        return [(st.add(0 <= lvl(o), lvl(o) <= 3) if False else st, V.Int(lvl(o)))]
    reg.external('method:_level', level_of,
                 'cls._level(operator): the level of the operator token (0 comparison, 1 ampersand, 2 + -, 3 * /), a function of '
                 'the class of the token - K2 obligation C01.Level.table (all eleven operator classes, exhaustive)')

    # ---- specification vocabulary
    # the sequence the waiting entries denote, in the order of their levels: defined by recursion on the strongest waiting
    # level - pseq(no entries) = empty, pseq(d) = pseq(d without its strongest level m) ++ seq(left tree of m) ++ [operator of m].
    # The defining equations are supplied as instances where the code creates, extends (at a level above all waiting ones)
    # or pops (the strongest level of) the dictionary; the end-to-end claim does not depend on what pseq is otherwise.
    some_key = z3.Function('c01_some_key', S.V, S.V)

    def pseq_axioms():
        p, q = z3.Const('c01_pp', S.V), z3.Const('c01_pq', SQ)
        return [z3.ForAll([p, q], z3.Or(S.dhas(p, some_key(p)), pseqk(p, q) == q), patterns=[pseqk(p, q)])]
    reg.axioms.append(pseq_axioms)

    def dict_lemma(kind, new, old, key):
        q = z3.Const('c01_lq', SQ)
        if kind == 'new':
            return [z3.ForAll([q], pseqk(new, q) == q, patterns=[pseqk(new, q)])]
        k = fresh('c01_dk')
        if kind == 'pop':
            e = S.dget(old, key)
            top = z3.ForAll([k], z3.Implies(S.dhas(old, k), V.ival(k) <= V.ival(key)), patterns=[S.dhas(old, k)])
            return [z3.Implies(z3.And(S.dhas(old, key), top),
                               z3.ForAll([q], pseqk(old, q) == pseqk(new, seqk(at(e, 0), cons(at(e, 1), q))), patterns=[pseqk(old, q)]))]
        e = S.dget(new, key)
        above = z3.ForAll([k], z3.Implies(S.dhas(old, k), V.ival(k) < V.ival(key)), patterns=[S.dhas(old, k)])
        return [z3.Implies(above, z3.ForAll([q], pseqk(new, q) == pseqk(old, seqk(at(e, 0), cons(at(e, 1), q))),
                                            patterns=[pseqk(new, q)]))]
    reg.dict_lemmas = [dict_lemma]

    def entries_ok(p):
        k = z3.Const('c01_k', S.V)
        e = S.dget(p, k)
        return z3.ForAll([k], z3.Implies(S.dhas(p, k), z3.And(
            is_('Int', k), -1 <= V.ival(k), V.ival(k) <= 3, is_('Tuple', e), ln(e) == 2, wf(at(e, 0)), rl(at(e, 0)) >= V.ival(k),
            z3.Implies(V.ival(k) >= 0, z3.And(lvl(at(e, 1)) == V.ival(k), z3.Not(is_('NoneV', at(e, 1))))))), patterns=[S.dhas(p, k)])

    def none(x):
        return is_('NoneV', x)
    MINUS1 = V.Int(z3.IntVal(-1))

    reg.spec('c01_entries', lambda p: z3.And(is_('Dict', to_v(p)), entries_ok(to_v(p))), None,
             'every waiting entry (level -> (left tree, operator)) holds a precedence tree whose root is not weaker than the level, '
             'and the operator of that level')
    reg.spec('c01_wfe', lambda t: wfe(to_v(t)), None, 'the token is a well-formed expression token (one of the nine shapes)')
    reg.spec('c01_wf', lambda t: wf(to_v(t)), None, 'precedence tree: left root >= operation, right root > operation, everywhere')
    reg.spec('c01_inorder', lambda tree, t0: seqk(to_v(tree), NIL) == chaink(to_v(t0), NIL), None,
             'the in-order sequence of the tree is the chain of operands and operators of the expression token')
    reg.spec('c01_no_final', lambda p: z3.Not(S.dhas(to_v(p), MINUS1)), None, 'no entry waits for the end of the chain yet')
    reg.spec('c01_prefix', lambda p, t, t0: pseqk(to_v(p), chaink(to_v(t), NIL)) == chaink(to_v(t0), NIL), None,
             'the waiting entries in the order of their levels, followed by the rest of the chain, are the whole chain')

    def tail_axioms():
        o, t, q = z3.Const('c01_to', S.V), z3.Const('c01_tt', S.V), z3.Const('c01_tq', SQ)
        return [z3.ForAll([o, t, q], z3.And(z3.Implies(none(o), tailk(o, t, q) == q),
                                            z3.Implies(z3.Not(none(o)), tailk(o, t, q) == cons(o, chaink(t, q)))),
                          patterns=[tailk(o, t, q)])]
    reg.axioms.append(tail_axioms)
    reg.spec('c01_mid', lambda p, tree, operator, token, t0:
             pseqk(to_v(p), seqk(to_v(tree), tailk(to_v(operator), to_v(token), NIL))) == chaink(to_v(t0), NIL), None,
             'waiting entries, the current tree, the current operator and the rest of the chain are the whole chain')
    reg.spec('c01_link', lambda operator, token, level: z3.And(
        none(to_v(operator)) == none(to_v(token)),
        z3.Implies(none(to_v(operator)), to_int(level) == -1),
        z3.Implies(z3.Not(none(to_v(operator))), z3.And(wfe(to_v(token)), lvl(to_v(operator)) == to_int(level), to_int(level) >= 0,
                                                        to_int(level) <= 3))), None,
             'the operator that follows the current operand, its level and the rest of the chain belong together')
    reg.spec('c01_rl', lambda t: rl(to_v(t)), None, 'level of the root of a tree (4 for an operand)')

    def remaining(p, L, k2, level):
        p, L, k2, level = to_v(p), to_v(L), to_int(k2), to_int(level)
        k, i, j = z3.Const('c01_rk', S.V), z3.Int('c01_ri'), z3.Int('c01_rj')
        return z3.And(
            # the keys still waiting are found in the sorted list; the strong ones not before the current position
            z3.ForAll([k], z3.Implies(S.dhas(p, k), z3.And(0 <= S.sorted_pos(L, k), S.sorted_pos(L, k) < ln(L),
                                                             at(L, S.sorted_pos(L, k)) == k,
                                                             z3.Implies(V.ival(k) >= level, S.sorted_pos(L, k) >= k2))),
                      patterns=[S.dhas(p, k)]),
            # which elements of the list still wait: those not yet visited and the visited weak ones
            z3.ForAll([i], z3.Implies(z3.And(0 <= i, i < ln(L)),
                                      z3.And(is_('Int', at(L, i)), z3.Or([at(L, i) == V.Int(z3.IntVal(c)) for c in (-1, 0, 1, 2, 3)]),
                                             S.dhas(p, at(L, i)) == z3.Or(i >= k2, V.ival(at(L, i)) < level))), patterns=[at(L, i)]),
            z3.ForAll([i, j], z3.Implies(z3.And(0 <= i, i < j, j < ln(L)), V.ival(at(L, i)) > V.ival(at(L, j))),
                      patterns=[z3.MultiPattern(at(L, i), at(L, j))]))
    reg.spec('c01_remaining', remaining, None, 'bookkeeping of the descending pass over the waiting levels')

    def stronger(p, tree, level):
        p, tree, level = to_v(p), to_v(tree), to_int(level)
        k = z3.Const('c01_sk', S.V)
        return z3.ForAll([k], z3.Implies(z3.And(S.dhas(p, k), V.ival(k) >= level), rl(tree) > V.ival(k)), patterns=[S.dhas(p, k)])
    def below_head(p, L, k2, level):
        p, L, k2, level = to_v(p), to_v(L), to_int(k2), to_int(level)
        k = z3.Const('c01_bk', S.V)
        return z3.ForAll([k], z3.Implies(z3.And(S.dhas(p, k), V.ival(k) >= level),
                                         z3.And(k2 < ln(L), V.ival(k) <= V.ival(at(L, k2)))), patterns=[S.dhas(p, k)])
    reg.spec('c01_below_head', below_head, None, 'every waiting level that is still to be closed is at most the level at the current position')
    reg.spec('c01_stronger', stronger, None, 'the current tree is stronger than every waiting level that is still to be closed')

    reg.add(Contract(
        'ExpressionTokenTranslator._group', 'repo:translators/expression_token_translator.py:ExpressionTokenTranslator._group',
        {'cls': 'cls', 'token': 'V'},
        requires=['c01_wfe(token)'],
        ensures={'precedence_tree': 'c01_wf(result)', 'keeps_the_chain_in_order': 'c01_inorder(result, old(token))'},
        invariants={
            0: {'entries': 'c01_entries(pending)',
                'done_or_prefix': 'ite(is_none(token), c01_wf(tree) and c01_inorder(tree, old(token)), '
                                  'c01_wfe(token) and c01_no_final(pending) and c01_prefix(pending, token, old(token)))'},
            1: {'signs': 'is_list(signs)',
                'entries': 'c01_entries(pending)',
                'prefix': 'c01_wfe(token) and c01_no_final(pending) and c01_prefix(pending, token, old(token))'},
            2: {'entries': 'c01_entries(pending) and c01_no_final(pending)',
                'tree': 'c01_wf(tree) and c01_rl(tree) >= I(level) and I(level) >= -1 and I(level) <= 3',
                'link': 'c01_link(operator, token, level)',
                'remaining': 'c01_remaining(pending, seq2, k2, level)',
                'stronger': 'c01_stronger(pending, tree, level)',
                'below_head': 'c01_below_head(pending, seq2, k2, level)',
                'whole_chain': 'c01_mid(pending, tree, operator, token, old(token))'},
        },
        notes='the result is the precedence tree of the chain and keeps its operands and operators in order'))
    return reg
