"""Contracts for the reference-resolution chain (C02, shared with C08/C14/C18): handle_cell, Cell.uid,
Excel._fill_cell / fill_cell / _get_*_range / _get_matrix / get_matrix / get_range / get_similar_second."""
from pv.contract import Contract
from contracts.common import base_registry, z, T

MOD = 'contracts.c02'


def _toI(x):
    from pv.symspec import to_int
    return to_int(x)


def _toV(x):
    from pv.symspec import to_v
    return to_v(x)


# ---------------------------------------------------------------- spec functions
def wf_data_z(d):
    z3, S = z(), T()
    d = _toV(d)
    t, r = z3.Int('wf_t'), z3.Int('wf_r')
    return z3.And(
        S.is_('List', d), S.ln(d) >= 0,
        z3.ForAll([t], z3.Implies(z3.And(0 <= t, t < S.ln(d)), z3.And(S.is_('List', S.at(d, t)), S.ln(S.at(d, t)) >= 0)),
                  patterns=[S.at(d, t)]),
        z3.ForAll([t, r], z3.Implies(z3.And(0 <= t, t < S.ln(d), 0 <= r, r < S.ln(S.at(d, t))),
                                     z3.And(S.is_('List', S.at(S.at(d, t), r)), S.ln(S.at(S.at(d, t), r)) >= 0)),
                  patterns=[S.at(S.at(d, t), r)]))


def wf_data_py(d):
    return isinstance(d, list) and all(isinstance(s, list) and all(isinstance(r, list) for r in s) for s in d)


def lookup_z(d, t, r, c):
    z3, S = z(), T()
    d, t, r, c = _toV(d), _toI(t), _toI(r), _toI(c)
    sheet = S.at(d, t)
    row = S.at(sheet, r)
    return z3.If(z3.And(0 <= t, t < S.ln(d), 0 <= r, r < S.ln(sheet), 0 <= c, c < S.ln(row)), S.at(row, c), S.NONE)


def lookup_py(d, t, r, c):
    return d[t][r][c] if 0 <= t < len(d) and 0 <= r < len(d[t]) and 0 <= c < len(d[t][r]) else None


def colnum_fn():
    z3, S = z(), T()
    return z3.Function('colnum', S.S, S.I)


def colnum_z(s):
    from pv.symspec import to_str
    return colnum_fn()(to_str(s))


def colnum_py(s):
    n = 0
    for ch in s:
        n = n * 26 + (ord(ch) - 64)
    return n


def is_colname_z(s):
    from pv.symspec import to_str
    z3 = z()
    s = to_str(s)
    return z3.And(z3.InRe(s, z3.Plus(z3.Range('A', 'Z'))), z3.Length(s) <= 3, colnum_fn()(s) >= 1, colnum_fn()(s) <= 18278)


def is_colname_py(s):
    return isinstance(s, str) and 1 <= len(s) <= 3 and all('A' <= ch <= 'Z' for ch in s)


def is_digits_z(s):
    from pv.symspec import to_str
    z3 = z()
    return z3.InRe(to_str(s), z3.Plus(z3.Range('0', '9')))


def str_to_int_z(s):
    from pv.symspec import to_str
    return z().StrToInt(to_str(s))


def registry():
    reg = base_registry(('Cell', 'Excel'))
    reg.spec('wf_data', wf_data_z, wf_data_py, 'workbook data is a list of sheets, each a list of rows, each a list')
    reg.spec('lookup', lookup_z, lookup_py, 'stored value at (sheet, row, column) or None outside the stored rows')
    reg.spec('colnum', colnum_z, colnum_py, 'bijective base-26 number of a column name (K2: equals '
             'openpyxl.utils.column_index_from_string on its whole domain A..ZZZ)')
    reg.spec('is_colname', is_colname_z, is_colname_py, '1-3 upper-case letters')
    reg.spec('is_digits', is_digits_z, lambda s: isinstance(s, str) and s.isascii() and s.isdigit(), 'ASCII digits')
    reg.spec('str_to_int', str_to_int_z, int, 'decimal value of a digit string')
    _externals(reg)

    cell_ok = ('is_bool(cell._handled_identifiers) and implies(not Bv(cell._handled_identifiers), '
               '(is_int(cell.title) or is_str(cell.title)) and '
               '(is_int(cell.column) or (is_str(cell.column) and is_colname(cell.column))) and '
               '(is_none(cell.row) or is_int(cell.row) or (is_str(cell.row) and (S(cell.row) == "" or is_digits(cell.row)))) and '
               'implies(is_str(cell.title) and has(titles, cell.title), is_int(get(titles, cell.title))))')
    reg.add(Contract(
        'handle_cell', 'repo:handle_cell.py:handle_cell', {'cell': 'obj:Cell', 'titles': 'dict'},
        requires=[cell_ok],
        ensures={
            'idempotent': 'implies(Bv(old(cell._handled_identifiers)), cell.title == old(cell.title) and '
                          'cell.column == old(cell.column) and cell.row == old(cell.row))',
            'title': 'implies(not Bv(old(cell._handled_identifiers)), cell.title == '
                     'ite(is_str(old(cell.title)), get(titles, old(cell.title)), old(cell.title)))',
            'column': 'implies(not Bv(old(cell._handled_identifiers)), cell.column == '
                      'ite(is_str(old(cell.column)), colnum(old(cell.column)) - 1, old(cell.column)))',
            'row': 'implies(not Bv(old(cell._handled_identifiers)), cell.row == '
                   'ite(is_str(old(cell.row)), ite(S(old(cell.row)) == "", None, str_to_int(old(cell.row)) - 1), '
                   'old(cell.row)))',
            'flag': 'cell._handled_identifiers == True',
            'value_kept': 'cell.value == old(cell.value)',
            'frame': 'unchanged_except("title", "old", cell) and unchanged_except("column", "old", cell) and '
                     'unchanged_except("row", "old", cell) and unchanged_except("_handled_identifiers", "old", cell) '
                     'and unchanged("value", "old")',
            'result': 'is_none(result)',
        },
        raises={'E2PyclCellException': 'not Bv(cell._handled_identifiers) and ((is_str(cell.title) and not has(titles, cell.title)) or '
                                       '(is_str(cell.row) and S(cell.row) != "" and str_to_int(cell.row) < 1))'},
        modifies=['title', 'column', 'row', '_handled_identifiers'],
        notes='never resolved to some other sheet: a string title is looked up in titles or the library cell exception; '
              'row numbers start at 1'))

    ints = 'is_int(cell.title) and is_int(cell.column) and is_int(cell.row) and is_bool(cell._handled_identifiers)'
    reg.add(Contract(
        'Excel._fill_cell', 'repo:excel.py:Excel._fill_cell', {'self': 'obj:Excel', 'cell': 'obj:Cell'},
        self_class='Excel', fields=['_data', '_titles'],
        requires=['wf_data(self._data)', ints],
        ensures={
            'value': 'cell.value == lookup(self._data, cell.title, cell.row, cell.column)',
            'result': 'result == cell',
            'frame': 'unchanged_except("value", "old", cell) and unchanged("title", "old") and '
                     'unchanged("column", "old") and unchanged("row", "old") and '
                     'unchanged("_handled_identifiers", "old") and unchanged("_data", "old")',
        },
        modifies=['value'],
        notes='no IndexError for any integers, negative or huge'))

    mat_pre = ['wf_data(self._data)',
               'is_int(first.title) and is_int(first.column) and is_int(first.row)',
               'is_int(second.title) and is_int(second.column) and is_int(second.row)',
               'first != second']
    reg.add(Contract(
        'Excel._get_matrix', 'repo:excel.py:Excel._get_matrix',
        {'self': 'obj:Excel', 'first': 'obj:Cell', 'second': 'obj:Cell'}, self_class='Excel',
        fields=['_data', '_titles'], requires=mat_pre,
        ensures={
            'rows': 'is_list(result) and len(result) == max(0, I(second.row) - I(first.row) + 1)',
            'cols': 'all(is_list(result[i]) and len(result[i]) == max(0, I(second.column) - I(first.column) + 1) '
                    'for i in range(len(result)))',
            'cells': 'all(all(is_obj(result[i][j]) and result[i][j].title == first.title and '
                     'result[i][j].column == I(first.column) + j and result[i][j].row == I(first.row) + i and '
                     'result[i][j].value == lookup(self._data, first.title, I(first.row) + i, I(first.column) + j) '
                     'for j in range(len(result[i]))) for i in range(len(result)))',
            'fresh': 'all(all(fresh_since(result[i][j], "old") for j in range(len(result[i]))) '
                     'for i in range(len(result)))',
            'frame': 'unchanged("value", "old") and unchanged("title", "old") and unchanged("column", "old") and '
                     'unchanged("row", "old") and unchanged("_data", "old")',
        },
        raises={'E2PyclParserException': 'first.title != second.title'},
        invariants={
            0: {'shape': 'is_list(result) and len(result) == k0 - I(first.row)',
                'cols': 'all(is_list(result[i]) and len(result[i]) == max(0, I(second.column) - I(first.column) + 1) '
                        'for i in range(len(result)))',
                'cells': 'all(all(is_obj(result[i][j]) and result[i][j].title == first.title and '
                         'result[i][j].column == I(first.column) + j and result[i][j].row == I(first.row) + i and '
                         'result[i][j].value == lookup(self._data, first.title, I(first.row) + i, I(first.column) + j) '
                         'and fresh_since(result[i][j], "old") '
                         'for j in range(len(result[i]))) for i in range(len(result)))',
                'frame': 'unchanged("value", "old") and unchanged("title", "old") and unchanged("column", "old") and '
                         'unchanged("row", "old") and unchanged("_data", "old") and '
                         'unchanged("_handled_identifiers", "old")'},
            1: {'shape': 'is_list(row_data) and len(row_data) == k1 - I(first.column)',
                'outer': 'is_list(result) and len(result) == k0 - I(first.row) and k0 == row and is_int(row)',
                'cols': 'all(is_list(result[i]) and len(result[i]) == max(0, I(second.column) - I(first.column) + 1) '
                        'for i in range(len(result)))',
                'cells': 'all(all(is_obj(result[i][j]) and result[i][j].title == first.title and '
                         'result[i][j].column == I(first.column) + j and result[i][j].row == I(first.row) + i and '
                         'result[i][j].value == lookup(self._data, first.title, I(first.row) + i, I(first.column) + j) '
                         'and fresh_since(result[i][j], "old") '
                         'for j in range(len(result[i]))) for i in range(len(result)))',
                'rowcells': 'all(is_obj(row_data[j]) and row_data[j].title == first.title and '
                            'row_data[j].column == I(first.column) + j and row_data[j].row == row and '
                            'row_data[j].value == lookup(self._data, first.title, row, I(first.column) + j) and '
                            'fresh_since(row_data[j], "old") for j in range(len(row_data)))',
                'frame': 'unchanged("value", "old") and unchanged("title", "old") and unchanged("column", "old") and '
                         'unchanged("row", "old") and unchanged("_data", "old") and '
                         'unchanged("_handled_identifiers", "old")'},
        },
        modifies=['value', 'title', 'column', 'row', '_handled_identifiers']))

    cell_is = ('is_obj(result[{i}]) and result[{i}].title == first.title and result[{i}].column == {col} and '
               'result[{i}].row == {row} and result[{i}].value == lookup(self._data, first.title, {row}, {col}) and '
               'fresh_since(result[{i}], "old")')
    frame = ('unchanged("value", "old") and unchanged("title", "old") and unchanged("column", "old") and '
             'unchanged("row", "old") and unchanged("_data", "old") and unchanged("_handled_identifiers", "old")')
    # ------------------------------------------------------------ vertical range (rows of one column / whole column)
    reg.add(Contract(
        'Excel._get_vertical_range', 'repo:excel.py:Excel._get_vertical_range',
        {'self': 'obj:Excel', 'first': 'obj:Cell', 'second': 'obj:Cell'}, self_class='Excel', fields=['_data', '_titles'],
        requires=['wf_data(self._data)', 'is_int(first.title) and is_int(first.column) and is_int(second.column)',
                  '(is_none(first.row) and 0 <= I(first.title) and I(first.title) < len(self._data)) or '
                  '(is_int(first.row) and is_int(second.row))', 'first != second'],
        ensures={
            'rows_in_order': 'is_list(result) and len(result) == ite(is_none(first.row), len(self._data[I(first.title)]), '
                             'max(0, I(second.row) - I(first.row) + 1))',
            'cells': 'all(' + cell_is.format(i='i', col='I(first.column)', row='ite(is_none(first.row), 0, I(first.row)) + i') +
                     ' for i in range(len(result)))',
            'frame': frame,
        },
        invariants={0: {
            'shape': 'is_list(result) and len(result) == k0 - ite(is_none(first.row), 0, I(first.row)) and '
                     'start_row == ite(is_none(first.row), 0, first.row)',
            'cells': 'all(' + cell_is.format(i='i', col='I(first.column)', row='ite(is_none(first.row), 0, I(first.row)) + i') +
                     ' for i in range(len(result)))',
            'frame': frame}},
        modifies=['value', 'title', 'column', 'row', '_handled_identifiers'],
        notes='rows first.row..second.row of one column, or all stored rows when the row is absent (A:A), in order'))
    reg.add(Contract(
        'Excel._get_horizontal_range', 'repo:excel.py:Excel._get_horizontal_range',
        {'self': 'obj:Excel', 'first': 'obj:Cell', 'second': 'obj:Cell'}, self_class='Excel', fields=['_data', '_titles'],
        requires=['wf_data(self._data)', 'is_int(first.title) and is_int(first.column) and is_int(second.column) and '
                  'is_int(first.row)', 'first != second'],
        ensures={
            'columns_in_order': 'is_list(result) and len(result) == max(0, I(second.column) - I(first.column) + 1)',
            'cells': 'all(' + cell_is.format(i='i', col='I(first.column) + i', row='I(first.row)') + ' for i in range(len(result)))',
            'frame': frame,
        },
        invariants={0: {
            'shape': 'is_list(result) and len(result) == k0 - I(first.column)',
            'cells': 'all(' + cell_is.format(i='i', col='I(first.column) + i', row='I(first.row)') + ' for i in range(len(result)))',
            'frame': frame}},
        modifies=['value', 'title', 'column', 'row', '_handled_identifiers'],
        notes='columns first.column..second.column of one row, in order'))
    # ------------------------------------------------------------ get_similar_second (SUMIF target geometry)
    hd = 'Bv({c}._handled_identifiers) and is_int({c}.title) and is_int({c}.column) and (is_int({c}.row) or is_none({c}.row))'
    reg.add(Contract(
        'Excel.get_similar_second', 'repo:excel.py:Excel.get_similar_second',
        {'self': 'obj:Excel', 'base': 'obj:Cell', 'first': 'obj:Cell', 'second': 'obj:Cell'}, self_class='Excel',
        fields=['_data', '_titles'], inline=['handle_cell'],
        requires=[hd.format(c='base'), hd.format(c='first'), hd.format(c='second'), 'is_dict(self._titles)',
                  'iff(is_none(first.row), is_none(second.row)) and iff(is_none(first.row), is_none(base.row))'],
        ensures={
            'same_geometry': 'is_obj(result) and result.title == base.title and '
                             'I(result.column) - I(base.column) == I(second.column) - I(first.column) and '
                             'ite(is_none(first.row), is_none(result.row), '
                             'I(result.row) - I(base.row) == I(second.row) - I(first.row))',
        },
        modifies=['value', 'title', 'column', 'row', '_handled_identifiers'],
        notes='the derived corner has the same offset from base as second has from first (SUMIF target = geometry of the '
              'criteria range)'))
    # ------------------------------------------------------------ fill_cell
    reg.add(Contract(
        'Excel.fill_cell', 'repo:excel.py:Excel.fill_cell', {'self': 'obj:Excel', 'cell': 'obj:Cell'}, self_class='Excel',
        fields=['_data', '_titles'], inline=['handle_cell'],
        requires=['wf_data(self._data)', 'is_dict(self._titles)',
                  'is_bool(cell._handled_identifiers) and Bv(cell._handled_identifiers) and is_int(cell.title) and is_int(cell.column) and (is_int(cell.row) or is_none(cell.row))'],
        ensures={'value': 'cell.value == lookup(self._data, cell.title, cell.row, cell.column)', 'result': 'result == cell'},
        raises={'E2PyclParserException': 'is_none(cell.row)'},
        modifies=['value'],
        notes='a single cell needs a row; its value is the stored value at (sheet, row, column) or blank'))

    # ------------------------------------------------------------ get_cells
    def _gconst(name):
        def f():
            return z().Int('c02_ghost_' + name)
        return f
    for nm in ('t', 'r', 'c'):
        reg.spec('g' + nm, _gconst(nm), None, 'an arbitrary but fixed sheet / row / column index (ghost constant)')
    elem = ('is_obj({x}) and fresh_since({x}, "old") and is_int({x}.title) and is_int({x}.column) and is_int({x}.row) and '
            'is_bool({x}._handled_identifiers) and Bv({x}._handled_identifiers) and '
            '0 <= I({x}.title) and I({x}.title) < len(self._data) and 0 <= I({x}.row) and I({x}.row) < len(self._data[I({x}.title)]) and '
            '0 <= I({x}.column) and I({x}.column) < len(self._data[I({x}.title)][I({x}.row)]) and '
            '{x}.value == lookup(self._data, {x}.title, {x}.row, {x}.column)')
    valid = ('0 <= gt() and gt() < len(self._data) and 0 <= gr() and gr() < len(self._data[gt()]) and 0 <= gc() and '
             'gc() < len(self._data[gt()][gr()])')
    found = 'any(I(cells[i].title) == gt() and I(cells[i].row) == gr() and I(cells[i].column) == gc() for i in range(len(cells)))'
    frame = ('unchanged("_data", "old") and unchanged("_titles", "old")')
    reg.add(Contract(
        'Excel.get_cells', 'repo:excel.py:Excel.get_cells', {'self': 'obj:Excel'}, self_class='Excel',
        fields=['_data', '_titles'], inline=['fill_cell'], callees={'handle_cell': 'handle_cell', '_fill_cell': 'Excel._fill_cell'},
        requires=['wf_data(self._data)', 'is_dict(self._titles)'],
        ensures={
            'cells': 'is_list(result) and all(' + elem.format(x='result[i]') + ' for i in range(len(result)))',
            'every_position_listed': f'implies({valid}, ' + found.replace('cells', 'result') + ')',
        },
        invariants={
            0: {'cells': 'is_list(cells) and all(' + elem.format(x='cells[i]') + ' for i in range(len(cells)))',
                'frame': frame,
                'listed': f'implies({valid} and gt() < k0, {found})'},
            1: {'cells': 'is_list(cells) and all(' + elem.format(x='cells[i]') + ' for i in range(len(cells)))',
                'frame': frame,
                'outer': 'is_int(title_number) and I(title_number) == k0 and title == self._data[k0] and 0 <= k0 and k0 < len(self._data)',
                'listed': f'implies({valid} and (gt() < k0 or (gt() == k0 and gr() < k1)), {found})'},
            2: {'cells': 'is_list(cells) and all(' + elem.format(x='cells[i]') + ' for i in range(len(cells)))',
                'frame': frame,
                'outer': 'is_int(title_number) and I(title_number) == k0 and title == self._data[k0] and 0 <= k0 and k0 < len(self._data) and '
                         'is_int(row_number) and I(row_number) == k1 and row == title[k1] and 0 <= k1 and k1 < len(title)',
                'listed': f'implies({valid} and (gt() < k0 or (gt() == k0 and (gr() < k1 or (gr() == k1 and gc() < k2)))), {found})'},
        },
        modifies=['value', 'title', 'column', 'row', '_handled_identifiers'],
        notes='Excel.get_cells lists a freshly created, filled cell for every stored position of the workbook (every_position_listed '
              'is stated for an arbitrary fixed position) and nothing else: each listed cell lies inside the stored data and '
              'carries the stored value'))

    hd2 = ('is_bool({c}._handled_identifiers) and Bv({c}._handled_identifiers) and is_int({c}.title) and is_int({c}.column)')
    # ------------------------------------------------------------ get_matrix / get_range (dispatch)
    reg.add(Contract(
        'Excel.get_matrix/rect', 'repo:excel.py:Excel.get_matrix',
        {'self': 'obj:Excel', 'first': 'obj:Cell', 'second': 'obj:Cell'}, self_class='Excel', fields=['_data', '_titles'],
        inline=['handle_cell'],
        requires=['wf_data(self._data)', 'is_dict(self._titles)', hd2.format(c='first'), hd2.format(c='second'),
                  'is_int(first.row) and is_int(second.row)', 'first != second'],
        ensures={
            'rows': 'is_list(result) and len(result) == max(0, I(second.row) - I(first.row) + 1)',
            'row_major': 'all(is_list(result[i]) and len(result[i]) == max(0, I(second.column) - I(first.column) + 1) and '
                         'all(is_obj(result[i][j]) and result[i][j].title == first.title and '
                         'result[i][j].column == I(first.column) + j and result[i][j].row == I(first.row) + i and '
                         'result[i][j].value == lookup(self._data, first.title, I(first.row) + i, I(first.column) + j) '
                         'for j in range(len(result[i]))) for i in range(len(result)))',
        },
        raises={'E2PyclParserException': 'I(first.row) < 0 or I(second.row) < 0 or first.title != second.title'},
        modifies=['value', 'title', 'column', 'row', '_handled_identifiers'],
        notes='a rectangular area evaluates to exactly its cells, row-major, blank where nothing is stored; areas across '
              'sheets and negative rows are rejected'))
    reg.add(Contract(
        'Excel.get_matrix/column', 'repo:excel.py:Excel.get_matrix',
        {'self': 'obj:Excel', 'first': 'obj:Cell', 'second': 'obj:Cell'}, self_class='Excel', fields=['_data', '_titles'],
        inline=['handle_cell'],
        requires=['wf_data(self._data)', 'is_dict(self._titles)', hd2.format(c='first'), hd2.format(c='second'),
                  'is_none(first.row) and is_none(second.row) and first.column == second.column',
                  '0 <= I(first.title) and I(first.title) < len(self._data)', 'first != second'],
        ensures={
            'one_row_per_stored_row': 'is_list(result) and len(result) == len(self._data[I(first.title)])',
            'cells': 'all(is_list(result[i]) and len(result[i]) == 1 and is_obj(result[i][0]) and '
                     'result[i][0].title == first.title and result[i][0].column == first.column and result[i][0].row == i and '
                     'result[i][0].value == lookup(self._data, first.title, i, first.column) for i in range(len(result)))',
        },
        modifies=['value', 'title', 'column', 'row', '_handled_identifiers'],
        notes='a whole-column reference A:A evaluates to every stored row of that column, top to bottom (A:C areas: '
              'generator + zip, outside the subset, bounded monitor)'))
    reg.add(Contract(
        'Excel.get_range', 'repo:excel.py:Excel.get_range',
        {'self': 'obj:Excel', 'first': 'obj:Cell', 'second': 'obj:Cell'}, self_class='Excel', fields=['_data', '_titles'],
        inline=['handle_cell'],
        requires=['wf_data(self._data)', 'is_dict(self._titles)', hd2.format(c='first'), hd2.format(c='second'),
                  'is_int(first.row) and is_int(second.row)', 'first != second'],
        ensures={
            'vertical': 'implies(first.column == second.column, is_list(result) and '
                        'len(result) == max(0, I(second.row) - I(first.row) + 1) and '
                        'all(is_obj(result[i]) and result[i].title == first.title and result[i].column == first.column and '
                        'result[i].row == I(first.row) + i and '
                        'result[i].value == lookup(self._data, first.title, I(first.row) + i, first.column) for i in range(len(result))))',
            'horizontal': 'implies(first.column != second.column, is_list(result) and '
                          'len(result) == max(0, I(second.column) - I(first.column) + 1) and '
                          'all(is_obj(result[i]) and result[i].title == first.title and result[i].row == first.row and '
                          'result[i].column == I(first.column) + i and '
                          'result[i].value == lookup(self._data, first.title, first.row, I(first.column) + i) for i in range(len(result))))',
        },
        raises={'E2PyclParserException': 'first.title != second.title or (first.column != second.column and first.row != second.row)'},
        modifies=['value', 'title', 'column', 'row', '_handled_identifiers'],
        notes='a one-dimensional range is the cells of its column (or row) in order; crooked or cross-sheet ranges are rejected'))
    return reg


def _externals(reg):
    def col_index(ex, st, args, kwargs, node):
        import z3
        from pv import sorts as S
        s = args[0]
        ok = z3.And(S.is_('Str', s), is_colname_z(S.V.sval(s)))
        return ex.cases(st, [(ok, lambda s2: [(s2, S.V.Int(colnum_fn()(S.V.sval(s))))]),
                             (z3.Not(ok), lambda s2: ex.exc(s2, 'ValueError'))])
    reg.external('fn:column_index_from_string', col_index,
                 'openpyxl.utils.column_index_from_string(s) == colnum(s) for 1-3 upper-case letters, ValueError '
                 'otherwise (K2-checked on all 18 278 names every run)')


def registry_uid():
    """Cell.uid and its injectivity (string theory; separate registry so that string queries do not slow the others)."""
    reg = base_registry(('Cell',))
    reg.spec('int_str', lambda i: _int_to_str(_toI(i)), str, 'decimal text of an integer (str(int))')
    reg.add(Contract(
        'Cell.uid', 'repo:cell.py:Cell.uid', {'self': 'obj:Cell'}, self_class='Cell',
        requires=['is_bool(self._handled_identifiers)', 'is_int(self.title) and is_int(self.column) and (is_int(self.row) or is_none(self.row))'],
        ensures={'format': 'is_str(result) and S(result) == "_" + int_str(self.title) + "_" + int_str(self.column) + "_" + '
                           'ite(is_none(self.row), "any", int_str(self.row))'},
        raises={'E2PyclCellException': 'not Bv(self._handled_identifiers) and is_none(self.row)'},
        notes='the generated method name of a cell is _<sheet>_<column>_<row|any> in decimal'))
    return reg


def _int_to_str(i):
    return T().int_str(i)
