"""Contracts for the reference-resolution chain (C02, shared with C08/C14/C18): handle_cell, Cell.uid,
Excel._fill_cell / fill_cell / _get_*_range / _get_matrix / get_matrix / get_range / get_similar_second."""
from pv.contract import Contract
from contracts.common import base_registry, z, T

MOD = 'contracts.c02'


def _toI(x):
    from pv.symspec import to_int
    return to_int(x)


def _toV(x):
    from pv.symspec import to_v
    return to_v(x)


# ---------------------------------------------------------------- spec functions
def wf_data_z(d):
    z3, S = z(), T()
    d = _toV(d)
    t, r = z3.Int('wf_t'), z3.Int('wf_r')
    return z3.And(
        S.is_('List', d), S.ln(d) >= 0,
        z3.ForAll([t], z3.Implies(z3.And(0 <= t, t < S.ln(d)), z3.And(S.is_('List', S.at(d, t)), S.ln(S.at(d, t)) >= 0)),
                  patterns=[S.at(d, t)]),
        z3.ForAll([t, r], z3.Implies(z3.And(0 <= t, t < S.ln(d), 0 <= r, r < S.ln(S.at(d, t))),
                                     z3.And(S.is_('List', S.at(S.at(d, t), r)), S.ln(S.at(S.at(d, t), r)) >= 0)),
                  patterns=[S.at(S.at(d, t), r)]))


def wf_data_py(d):
    return isinstance(d, list) and all(isinstance(s, list) and all(isinstance(r, list) for r in s) for s in d)


def lookup_z(d, t, r, c):
    z3, S = z(), T()
    d, t, r, c = _toV(d), _toI(t), _toI(r), _toI(c)
    sheet = S.at(d, t)
    row = S.at(sheet, r)
    return z3.If(z3.And(0 <= t, t < S.ln(d), 0 <= r, r < S.ln(sheet), 0 <= c, c < S.ln(row)), S.at(row, c), S.NONE)


def lookup_py(d, t, r, c):
    return d[t][r][c] if 0 <= t < len(d) and 0 <= r < len(d[t]) and 0 <= c < len(d[t][r]) else None


def colnum_fn():
    z3, S = z(), T()
    return z3.Function('colnum', S.S, S.I)


def colnum_z(s):
    from pv.symspec import to_str
    return colnum_fn()(to_str(s))


def colnum_py(s):
    n = 0
    for ch in s:
        n = n * 26 + (ord(ch) - 64)
    return n


def is_colname_z(s):
    from pv.symspec import to_str
    z3 = z()
    s = to_str(s)
    return z3.And(z3.InRe(s, z3.Plus(z3.Range('A', 'Z'))), z3.Length(s) <= 3, colnum_fn()(s) >= 1, colnum_fn()(s) <= 18278)


def is_colname_py(s):
    return isinstance(s, str) and 1 <= len(s) <= 3 and all('A' <= ch <= 'Z' for ch in s)


def is_digits_z(s):
    from pv.symspec import to_str
    z3 = z()
    return z3.InRe(to_str(s), z3.Plus(z3.Range('0', '9')))


def str_to_int_z(s):
    from pv.symspec import to_str
    return z().StrToInt(to_str(s))


def registry():
    reg = base_registry(('Cell', 'Excel'))
    reg.spec('wf_data', wf_data_z, wf_data_py, 'workbook data is a list of sheets, each a list of rows, each a list')
    reg.spec('lookup', lookup_z, lookup_py, 'stored value at (sheet, row, column) or None outside the stored rows')
    reg.spec('colnum', colnum_z, colnum_py, 'bijective base-26 number of a column name (K2: equals '
             'openpyxl.utils.column_index_from_string on its whole domain A..ZZZ)')
    reg.spec('is_colname', is_colname_z, is_colname_py, '1-3 upper-case letters')
    reg.spec('is_digits', is_digits_z, lambda s: isinstance(s, str) and s.isascii() and s.isdigit(), 'ASCII digits')
    reg.spec('str_to_int', str_to_int_z, int, 'decimal value of a digit string')
    _externals(reg)

    cell_ok = ('is_bool(cell._handled_identifiers) and implies(not Bv(cell._handled_identifiers), '
               '(is_int(cell.title) or is_str(cell.title)) and '
               '(is_int(cell.column) or (is_str(cell.column) and is_colname(cell.column))) and '
               '(is_none(cell.row) or is_int(cell.row) or (is_str(cell.row) and (S(cell.row) == "" or is_digits(cell.row)))))')
    reg.add(Contract(
        'handle_cell', 'repo:handle_cell.py:handle_cell', {'cell': 'obj:Cell', 'titles': 'dict'},
        requires=[cell_ok],
        ensures={
            'idempotent': 'implies(Bv(old(cell._handled_identifiers)), cell.title == old(cell.title) and '
                          'cell.column == old(cell.column) and cell.row == old(cell.row))',
            'title': 'implies(not Bv(old(cell._handled_identifiers)), cell.title == '
                     'ite(is_str(old(cell.title)), get(titles, old(cell.title)), old(cell.title)))',
            'column': 'implies(not Bv(old(cell._handled_identifiers)), cell.column == '
                      'ite(is_str(old(cell.column)), colnum(old(cell.column)) - 1, old(cell.column)))',
            'row': 'implies(not Bv(old(cell._handled_identifiers)), cell.row == '
                   'ite(is_str(old(cell.row)), ite(S(old(cell.row)) == "", None, str_to_int(old(cell.row)) - 1), '
                   'old(cell.row)))',
            'flag': 'cell._handled_identifiers == True',
            'value_kept': 'cell.value == old(cell.value)',
            'frame': 'unchanged_except("title", "old", cell) and unchanged_except("column", "old", cell) and '
                     'unchanged_except("row", "old", cell) and unchanged_except("_handled_identifiers", "old", cell) '
                     'and unchanged("value", "old")',
            'result': 'is_none(result)',
        },
        raises={'KeyError': 'not Bv(cell._handled_identifiers) and is_str(cell.title) and not has(titles, cell.title)'},
        modifies=['title', 'column', 'row', '_handled_identifiers'],
        notes='never resolved to some other sheet: a string title is looked up in titles or KeyError'))

    ints = 'is_int(cell.title) and is_int(cell.column) and is_int(cell.row) and is_bool(cell._handled_identifiers)'
    reg.add(Contract(
        'Excel._fill_cell', 'repo:excel.py:Excel._fill_cell', {'self': 'obj:Excel', 'cell': 'obj:Cell'},
        self_class='Excel', fields=['_data', '_titles'],
        requires=['wf_data(self._data)', ints],
        ensures={
            'value': 'cell.value == lookup(self._data, cell.title, cell.row, cell.column)',
            'result': 'result == cell',
            'frame': 'unchanged_except("value", "old", cell) and unchanged("title", "old") and '
                     'unchanged("column", "old") and unchanged("row", "old") and '
                     'unchanged("_handled_identifiers", "old") and unchanged("_data", "old")',
        },
        modifies=['value'],
        notes='no IndexError for any integers, negative or huge'))

    mat_pre = ['wf_data(self._data)',
               'is_int(first.title) and is_int(first.column) and is_int(first.row)',
               'is_int(second.title) and is_int(second.column) and is_int(second.row)',
               'first != second']
    reg.add(Contract(
        'Excel._get_matrix', 'repo:excel.py:Excel._get_matrix',
        {'self': 'obj:Excel', 'first': 'obj:Cell', 'second': 'obj:Cell'}, self_class='Excel',
        fields=['_data', '_titles'], requires=mat_pre,
        ensures={
            'rows': 'is_list(result) and len(result) == max(0, I(second.row) - I(first.row) + 1)',
            'cols': 'all(is_list(result[i]) and len(result[i]) == max(0, I(second.column) - I(first.column) + 1) '
                    'for i in range(len(result)))',
            'cells': 'all(all(is_obj(result[i][j]) and result[i][j].title == first.title and '
                     'result[i][j].column == I(first.column) + j and result[i][j].row == I(first.row) + i and '
                     'result[i][j].value == lookup(self._data, first.title, I(first.row) + i, I(first.column) + j) '
                     'for j in range(len(result[i]))) for i in range(len(result)))',
            'fresh': 'all(all(fresh_since(result[i][j], "old") for j in range(len(result[i]))) '
                     'for i in range(len(result)))',
            'frame': 'unchanged("value", "old") and unchanged("title", "old") and unchanged("column", "old") and '
                     'unchanged("row", "old") and unchanged("_data", "old")',
        },
        raises={'E2PyclParserException': 'first.title != second.title'},
        invariants={
            0: {'shape': 'is_list(result) and len(result) == k0 - I(first.row)',
                'cols': 'all(is_list(result[i]) and len(result[i]) == max(0, I(second.column) - I(first.column) + 1) '
                        'for i in range(len(result)))',
                'cells': 'all(all(is_obj(result[i][j]) and result[i][j].title == first.title and '
                         'result[i][j].column == I(first.column) + j and result[i][j].row == I(first.row) + i and '
                         'result[i][j].value == lookup(self._data, first.title, I(first.row) + i, I(first.column) + j) '
                         'and fresh_since(result[i][j], "old") '
                         'for j in range(len(result[i]))) for i in range(len(result)))',
                'frame': 'unchanged("value", "old") and unchanged("title", "old") and unchanged("column", "old") and '
                         'unchanged("row", "old") and unchanged("_data", "old") and '
                         'unchanged("_handled_identifiers", "old")'},
            1: {'shape': 'is_list(row_data) and len(row_data) == k1 - I(first.column)',
                'outer': 'is_list(result) and len(result) == k0 - I(first.row) and k0 == row and is_int(row)',
                'cols': 'all(is_list(result[i]) and len(result[i]) == max(0, I(second.column) - I(first.column) + 1) '
                        'for i in range(len(result)))',
                'cells': 'all(all(is_obj(result[i][j]) and result[i][j].title == first.title and '
                         'result[i][j].column == I(first.column) + j and result[i][j].row == I(first.row) + i and '
                         'result[i][j].value == lookup(self._data, first.title, I(first.row) + i, I(first.column) + j) '
                         'and fresh_since(result[i][j], "old") '
                         'for j in range(len(result[i]))) for i in range(len(result)))',
                'rowcells': 'all(is_obj(row_data[j]) and row_data[j].title == first.title and '
                            'row_data[j].column == I(first.column) + j and row_data[j].row == row and '
                            'row_data[j].value == lookup(self._data, first.title, row, I(first.column) + j) and '
                            'fresh_since(row_data[j], "old") for j in range(len(row_data)))',
                'frame': 'unchanged("value", "old") and unchanged("title", "old") and unchanged("column", "old") and '
                         'unchanged("row", "old") and unchanged("_data", "old") and '
                         'unchanged("_handled_identifiers", "old")'},
        },
        modifies=['value', 'title', 'column', 'row', '_handled_identifiers']))
    return reg


def _externals(reg):
    def col_index(ex, st, args, kwargs, node):
        import z3
        from pv import sorts as S
        s = args[0]
        ok = z3.And(S.is_('Str', s), is_colname_z(S.V.sval(s)))
        return ex.cases(st, [(ok, lambda s2: [(s2, S.V.Int(colnum_fn()(S.V.sval(s))))]),
                             (z3.Not(ok), lambda s2: ex.exc(s2, 'ValueError'))])
    reg.external('fn:column_index_from_string', col_index,
                 'openpyxl.utils.column_index_from_string(s) == colnum(s) for 1-3 upper-case letters, ValueError '
                 'otherwise (K2-checked on all 18 278 names every run)')
