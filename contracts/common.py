"""Shared pieces of the contract modules: class registration, external (K5) models, common spec functions.

z3 is imported lazily so that the native side (no z3) can import contract modules for replay."""
from pv.contract import Contract, Registry


def z():
    import z3
    return z3


def T():
    from pv import sorts
    return sorts


def base_registry(classes=('Cell',)):
    reg = Registry()
    try:
        from pv.symstmt import register_class
    except ImportError:      # native side: no z3, no class tables needed
        return reg
    table = {'Cell': 'repo:cell.py:Cell', 'Excel': 'repo:excel.py:Excel', 'Context': 'repo:context.py:Context',
             'Executor': 'repo:utilities/executor.py:Executor', 'Parser': 'repo:utilities/parser.py:Parser',
             'ExcelInPython': 'runtime:', 'EmptyCell': 'runtime:EmptyCell',
             'CellTranslator': 'repo:translators/cell_translator.py:CellTranslator'}
    for c in classes:
        if c == 'ExcelInPython':
            from pv import source
            import ast
            info = {'fields': {}, 'methods': {}, 'props': {}, 'static': set(), 'classm': set(), 'target': 'runtime:',
                    'nested': {}}
            for name, node in source.class_members('runtime').items():
                if isinstance(node, ast.FunctionDef):
                    info['methods'][name] = node
                    decos = {d.id for d in node.decorator_list if isinstance(d, ast.Name)}
                    if 'staticmethod' in decos:
                        info['static'].add(name)
                else:
                    info['nested'][name] = node
            reg.classes['ExcelInPython'] = info
        else:
            register_class(reg, c, table[c])
    return reg
