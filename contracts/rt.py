"""Contracts for the emitted runtime helpers (the text the real Context().build_class() renders): logical
functions (C13), lookup (C14), text slicing (C17), comparisons (C10), folds (C11), conditional folds (C12),
dates (C15), overrides (C04).  Targets are `runtime:<helper>`; C20 proves the abstract copy identical."""
from pv.contract import Contract
from contracts.common import base_registry, z, T

MOD = 'contracts.rt'
ERRS = ['#NUM!', '#DIV/0!', '#N/A', '#NAME?', '#NULL!', '#REF!', '#VALUE!']


def _toV(x):
    from pv.symspec import to_v
    return to_v(x)


def is_err_z(x):
    z3, S = z(), T()
    x = _toV(x)
    return z3.And(S.is_('Str', x), z3.Or([S.V.sval(x) == z3.StringVal(e) for e in ERRS]))


def is_err_py(x):
    return type(x) is str and x in ERRS


def substr_z(s, a, n):
    from pv.symspec import to_str, to_int
    return z().SubString(to_str(s), to_int(a), to_int(n))


SELF = {'self': 'obj:ExcelInPython'}


def registry():
    reg = base_registry(('ExcelInPython', 'EmptyCell'))
    reg.spec('is_err', is_err_z, is_err_py, 'one of the seven Excel error values (as the property lists them)')
    reg.spec('substr', substr_z, lambda s, a, n: s[a:a + n] if n > 0 else '', 'n characters of s from 0-based offset a (SMT-LIB str.substr)')
    try:
        from contracts import k5
        k5.install(reg)
    except ImportError:      # native side (no z3): externals are not needed for replay
        pass
    logical(reg)
    text(reg)
    compare(reg)
    lookup(reg)
    lookup2(reg)
    reg.spec('vgate', vgate_z, vgate_py, vgate_z.__doc__)
    reg.spec('pyeq', pyeq_z, lambda a, b: a == b, pyeq_z.__doc__)
    lookup3(reg)
    return reg


def logical(reg):
    # ---------------------------------------------------------------- _find_error_in_list
    reg.add(Contract(
        '_find_error_in_list', 'runtime:_find_error_in_list', {**SELF, 'flatten_list': 'list'},
        self_class='ExcelInPython',
        ensures={
            'none_iff_no_error': 'iff(is_none(result), all(not is_err(flatten_list[i]) for i in range(len(flatten_list))))',
            'first_error': 'implies(not is_none(result), any(flatten_list[i] == result and is_err(flatten_list[i]) and '
                           'all(not is_err(flatten_list[j]) for j in range(i)) for i in range(len(flatten_list))))',
            'truthy_when_found': 'implies(not is_none(result), is_err(result))',
        },
        invariants={0: {'prefix_clean': 'all(not is_err(flatten_list[i]) for i in range(k0))'}},
        notes='the error list is the literal in the function; is_err is the list the property names'))

    # ---------------------------------------------------------------- _ifs
    reg.add(Contract(
        '_ifs', 'runtime:_ifs', {**SELF, 'flatten_list': 'list'}, self_class='ExcelInPython',
        requires=['len(flatten_list) % 2 == 0',
                  'all(not is_err(flatten_list[i]) for i in range(len(flatten_list)))'],
        ensures={
            'first_true_pair': 'any(p % 2 == 0 and truthy(flatten_list[p]) and result == flatten_list[p + 1] and '
                               'all(implies(q % 2 == 0, not truthy(flatten_list[q])) for q in range(p)) '
                               'for p in range(len(flatten_list))) or '
                               '(all(implies(q % 2 == 0, not truthy(flatten_list[q])) for q in range(len(flatten_list))) '
                               'and result == "#N/A")',
        },
        invariants={0: {'even': 'is_int(index) and I(index) % 2 == 0 and I(index) >= 0',
                        'none_true_before': 'all(implies(q % 2 == 0, not truthy(flatten_list[q])) for q in range(I(index)))'}},
        notes='value paired with the first true condition, #N/A when none is true'))


def text(reg):
    # text: str, counts: int  (the operand kinds the property names)
    reg.add(Contract(
        '_left', 'runtime:_left', {**SELF, 'text': 'str', 'num_chars': 'int'}, self_class='ExcelInPython',
        ensures={
            'negative': 'implies(I(num_chars) < 0, result == "#ERROR!")',
            'empty_text': 'implies(I(num_chars) >= 0 and slen(text) == 0, is_empty(result))',
            'first_n': 'implies(I(num_chars) >= 0 and slen(text) > 0, is_str(result) and '
                       'S(result) == substr(text, 0, min(I(num_chars), slen(text))))',
        }, notes='first n characters, shorter at the end'))
    reg.add(Contract(
        '_right', 'runtime:_right', {**SELF, 'text': 'str', 'num_chars': 'int'}, self_class='ExcelInPython',
        ensures={
            'negative': 'implies(I(num_chars) < 0, result == "#ERROR!")',
            'empty_text': 'implies(I(num_chars) >= 0 and slen(text) == 0, is_empty(result))',
            'last_n': 'implies(I(num_chars) >= 0 and slen(text) > 0, is_str(result) and '
                      'S(result) == substr(text, slen(text) - min(I(num_chars), slen(text)), min(I(num_chars), slen(text))))',
        }, notes='last n characters, shorter at the start'))
    reg.add(Contract(
        '_mid', 'runtime:_mid', {**SELF, 'text': 'str', 'start_num': 'int', 'num_chars': 'int'},
        self_class='ExcelInPython',
        ensures={
            'start_below_1': 'implies(I(start_num) < 1, result == "#NUM!")',
            'negative_count': 'implies(I(start_num) >= 1 and I(num_chars) < 0, result == "#VALUE!")',
            'beyond_end': 'implies(I(start_num) >= 1 and I(num_chars) >= 0 and I(start_num) > slen(text), is_empty(result))',
            'n_from_k': 'implies(I(start_num) >= 1 and I(num_chars) >= 0 and I(start_num) <= slen(text), is_str(result) and '
                        'S(result) == substr(text, I(start_num) - 1, min(I(num_chars), slen(text) - I(start_num) + 1)))',
        }, notes='n characters from 1-based position k, shorter at the end'))


# ------------------------------------------------------------------------------------------------ C10
def opres_z(op, lt, eq):
    """result of Excel/Python comparison operator `op` given that left<right is `lt` and left==right is `eq`"""
    from pv.symspec import to_str, to_bool
    z3 = z()
    op, lt, eq = to_str(op), to_bool(lt), to_bool(eq)
    return z3.If(op == '<', lt, z3.If(op == '<=', z3.Or(lt, eq), z3.If(op == '>', z3.And(z3.Not(lt), z3.Not(eq)),
           z3.If(op == '>=', z3.Not(lt), z3.If(op == '==', eq, z3.Not(eq))))))


def opres_py(op, lt, eq):
    return {'<': lt, '<=': lt or eq, '>': not lt and not eq, '>=': not lt, '==': eq, '!=': not eq}[op]


def is_op_z(op):
    from pv.symspec import to_v
    z3, S = z(), T()
    op = to_v(op)
    return z3.And(S.is_('Str', op), z3.Or([S.V.sval(op) == o for o in ('<', '<=', '>', '>=', '==', '!=')]))


def dkey_z(x):
    return T().dt_key(_toV(x))


def dkey_py(x):
    import datetime
    if isinstance(x, datetime.datetime):
        return x.toordinal() * 86400 + x.hour * 3600 + x.minute * 60 + x.second
    return x.toordinal() * 86400


def is_dateish_z(x):
    z3, S = z(), T()
    x = _toV(x)
    return z3.Or(S.is_('Date', x), S.is_('DateTime', x))


def numtext_z(x):
    """text that int() or float() accepts (the runtime compares such texts as numbers)"""
    from pv import symexpr as E
    z3, S = z(), T()
    x = _toV(x)
    s = S.V.sval(x)
    return z3.And(S.is_('Str', x), z3.Or(z3.InRe(s, E.INT_RE), E.py_float_ok(s)))


def numtext_py(x):
    if type(x) is not str:
        return False
    try:
        float(x)
        return True
    except ValueError:
        try:
            int(x)
            return True
        except ValueError:
            return False


def comparable_z(a, b):
    """Python defines an ordering between the two values (or one of them is a blank cell, whose methods answer)"""
    z3, S = z(), T()
    a, b = _toV(a), _toV(b)
    return z3.Or(S.is_('Empty', a), S.is_('Empty', b), z3.And(S.is_num(a), S.is_num(b)),
                 z3.And(S.is_('Str', a), S.is_('Str', b)), z3.And(S.is_('DateTime', a), S.is_('DateTime', b)),
                 z3.And(S.is_('Date', a), S.is_('Date', b)))


def comparable_py(a, b):
    import datetime
    def k(x):
        if type(x).__name__ in ('EmptyCell', 'EmptyStandIn'):
            return 'e'
        if isinstance(x, (int, float)):
            return 'n'
        if isinstance(x, str):
            return 's'
        if isinstance(x, datetime.datetime):
            return 'dt'
        if isinstance(x, datetime.date):
            return 'd'
        return repr(type(x))
    return 'e' in (k(a), k(b)) or (k(a) == k(b) and k(a) in ('n', 's', 'dt', 'd'))


def compare(reg):
    reg.spec('comparable', comparable_z, comparable_py, comparable_z.__doc__)
    reg.spec('opres', opres_z, opres_py, opres_z.__doc__)
    reg.spec('is_op', is_op_z, lambda op: op in ('<', '<=', '>', '>=', '==', '!='), 'one of the six operator spellings')
    reg.spec('dkey', dkey_z, dkey_py, '86400*ordinal + second of day of a date / date-time (a date is its midnight)')
    reg.spec('is_dateish', is_dateish_z, lambda x: type(x).__name__ in ('date', 'datetime'), 'date or date-time')
    reg.spec('numtext', numtext_z, numtext_py, numtext_z.__doc__)
    reg.add(Contract(
        '_by_operator', 'runtime:_by_operator',
        {**SELF, 'operator': 'str', 'left_operand': 'scalar', 'right_operand': 'scalar'}, self_class='ExcelInPython',
        ensures={
            'numbers': 'implies(is_num(left_operand) and is_num(right_operand) and not is_empty(left_operand) and '
                       'not is_empty(right_operand), result == opres(operator, '
                       'R(left_operand) < R(right_operand), R(left_operand) == R(right_operand)))',
            'texts': 'implies(is_str(left_operand) and is_str(right_operand), result == opres(operator, '
                     'S(left_operand) < S(right_operand), S(left_operand) == S(right_operand)))',
            'datetimes': 'implies(is_datetime(left_operand) and is_datetime(right_operand), result == opres(operator, '
                         'dkey(left_operand) < dkey(right_operand), dkey(left_operand) == dkey(right_operand)))',
            'blank_vs_text': 'implies(is_empty(left_operand) and is_str(right_operand), '
                             'result == opres(operator, S(right_operand) != "", S(right_operand) == ""))',
            'text_vs_blank': 'implies(is_str(left_operand) and is_empty(right_operand), '
                             'result == opres(operator, False, S(left_operand) == ""))',
            'blank_vs_date': 'implies(is_empty(left_operand) and is_dateish(right_operand), result == opres(operator, True, False))',
            'date_vs_blank': 'implies(is_dateish(left_operand) and is_empty(right_operand), result == opres(operator, False, False))',
            'blank_vs_blank': 'implies(is_empty(left_operand) and is_empty(right_operand), result == opres(operator, False, True))',
        },
        raises={'ExcelInPythonException': 'not is_op(operator)',
                'TypeError': 'is_op(operator) and S(operator) != "==" and S(operator) != "!=" and '
                             'not comparable(left_operand, right_operand)'},
        notes='the six spellings map to the Python operator of the same meaning; any other spelling raises; the blank '
              'clauses are proved from the extracted EmptyCell methods'))

    pre = ['is_op(operator)',
           # A-REAL: float(int) is exact (|i| <= 2**53); beyond it CPython rounds and the claim is not made
           'implies(is_int(left_operand), -9007199254740992 <= I(left_operand) and I(left_operand) <= 9007199254740992)',
           'implies(is_int(right_operand), -9007199254740992 <= I(right_operand) and I(right_operand) <= 9007199254740992)']
    post = {
        'numeric_exact': 'implies(is_num(left_operand) and is_num(right_operand), result == opres(operator, '
                         'R(left_operand) < R(right_operand), R(left_operand) == R(right_operand)))',
        'texts_lexicographic': 'implies(is_str(left_operand) and is_str(right_operand) and not numtext(left_operand) '
                               'and not numtext(right_operand), result == opres(operator, '
                               'S(left_operand) < S(right_operand), S(left_operand) == S(right_operand)))',
        'dates_by_instant': 'implies(is_dateish(left_operand) and is_dateish(right_operand), result == opres(operator, '
                            'dkey(left_operand) < dkey(right_operand), dkey(left_operand) == dkey(right_operand)))',
        'blank_vs_text': 'implies(is_empty(left_operand) and is_str(right_operand) and not numtext(right_operand), '
                         'result == opres(operator, S(right_operand) != "", S(right_operand) == ""))',
        'text_vs_blank': 'implies(is_str(left_operand) and not numtext(left_operand) and is_empty(right_operand), '
                         'result == opres(operator, False, S(left_operand) == ""))',
        'blank_vs_date': 'implies(is_empty(left_operand) and is_dateish(right_operand), result == opres(operator, True, False))',
        'date_vs_blank': 'implies(is_dateish(left_operand) and is_empty(right_operand), result == opres(operator, False, False))',
    }
    # one contract per kind of left operand: the same function, the same clauses, smaller path sets (run in parallel)
    for kind, sort in (('num', 'int|float|bool|empty'), ('text', 'str'), ('date', 'date|datetime')):
        reg.add(Contract(
            f'_compare/{kind}', 'runtime:_compare',
            {**SELF, 'operator': 'str', 'left_operand': sort, 'right_operand': 'int|float|bool|empty|str|date|datetime'},
            self_class='ExcelInPython', requires=pre, ensures=post,
            notes='C10: exact numeric comparison, lawful same-kind comparison, blank clauses, date == its midnight '
                  f'(left operand: {sort})'))


# ------------------------------------------------------------------------------------------------ C14
def lookup(reg):
    rect = ('len(matrix_list) >= 1 and all(is_list(matrix_list[i]) and len(matrix_list[i]) == len(matrix_list[0]) '
            'for i in range(len(matrix_list))) and len(matrix_list[0]) >= 1 and '
            'all(all(not is_list(matrix_list[i][j]) and not is_tuple(matrix_list[i][j]) for j in range(len(matrix_list[i]))) '
            'for i in range(len(matrix_list)))')
    reg.add(Contract(
        '_index', 'runtime:_index',
        {**SELF, 'matrix_list': 'list', 'row_number': 'int', 'column_number': 'int', 'area_number': 'int'},
        self_class='ExcelInPython',
        requires=[rect, 'I(row_number) >= 1 and I(column_number) >= 1 and I(area_number) == 1'],
        ensures={
            'element': 'implies(I(row_number) <= len(matrix_list) and I(column_number) <= len(matrix_list[0]), '
                       'result == matrix_list[I(row_number) - 1][I(column_number) - 1])',
            'ref_error_outside': 'implies(I(row_number) > len(matrix_list) or I(column_number) > len(matrix_list[0]), '
                                 'result == "#REF!")',
        },
        notes='INDEX(area, r, c) is the element at row r, column c (1-based) of a rectangular area, #REF! outside it'))


def _lower(s):
    return T().str_lower(s)


def gate_z(x, v):
    """row key x takes part in a lookup of v: not blank and of the kind of v (numbers of either type are one kind)"""
    z3, S = z(), T()
    x, v = _toV(x), _toV(v)
    numv = z3.Or(S.is_('Int', v), S.is_('Float', v))
    return z3.And(z3.Not(S.is_('Empty', x)),
                  z3.If(numv, z3.Or(S.is_('Int', x), S.is_('Float', x), S.is_('Bool', x)),
                        z3.If(S.is_('Str', v), S.is_('Str', x), z3.BoolVal(False))))


def gate_py(x, v):
    if type(x).__name__ in ('EmptyCell', 'EmptyStandIn'):
        return False
    if type(v) in (int, float):
        return isinstance(x, (int, float))
    return type(v) is str and isinstance(x, str)


def eqk_z(x, v):
    """key x equals lookup value v: numbers numerically, texts case-insensitively"""
    z3, S = z(), T()
    x, v = _toV(x), _toV(v)
    return z3.If(S.is_('Str', x), _lower(S.V.sval(x)) == _lower(S.V.sval(v)), S.real_of(x) == S.real_of(v))


def lek_z(x, v):
    """key x is not greater than v (numbers numerically, texts case-insensitively by code point)"""
    z3, S = z(), T()
    x, v = _toV(x), _toV(v)
    return z3.If(S.is_('Str', x), _lower(S.V.sval(x)) <= _lower(S.V.sval(v)), S.real_of(x) <= S.real_of(v))


def gek_z(x, v):
    z3, S = z(), T()
    x, v = _toV(x), _toV(v)
    return z3.If(S.is_('Str', x), _lower(S.V.sval(v)) <= _lower(S.V.sval(x)), S.real_of(x) >= S.real_of(v))


def _k(f):
    def g(x, v):
        if isinstance(x, str):
            return f(x.lower(), v.lower())
        return f(x, v)
    return g


def lookup2(reg):
    reg.spec('gate', gate_z, gate_py, gate_z.__doc__)
    reg.spec('eqk', eqk_z, _k(lambda a, b: a == b), eqk_z.__doc__)
    reg.spec('lek', lek_z, _k(lambda a, b: a <= b), lek_z.__doc__)
    reg.spec('gek', gek_z, _k(lambda a, b: a >= b), 'key x is not smaller than v')
    rows = ('all(is_list(lookup_array[i]) and len(lookup_array[i]) >= 1 and (is_int(lookup_array[i][0]) or '
            'is_float(lookup_array[i][0]) or is_str(lookup_array[i][0]) or is_bool(lookup_array[i][0]) or '
            'is_empty(lookup_array[i][0])) for i in range(len(lookup_array)))')
    asc = ('all(all(implies(i <= j and gate(lookup_array[i][0], lookup_value) and gate(lookup_array[j][0], lookup_value), '
           'lek(lookup_array[i][0], lookup_array[j][0])) for j in range(len(lookup_array))) for i in range(len(lookup_array)))')
    G = 'gate(lookup_array[{i}][0], lookup_value)'
    reg.add(Contract(
        '_match/exact', 'runtime:_match',
        {**SELF, 'lookup_value': 'int|float|str', 'lookup_array': 'list', 'match_type': 'int'}, self_class='ExcelInPython',
        requires=[rows, 'I(match_type) == 0'],
        ensures={
            'first_equal_row': 'any(' + G.format(i='p') + ' and eqk(lookup_array[p][0], lookup_value) and result == p + 1 and '
                               'all(not (' + G.format(i='q') + ' and eqk(lookup_array[q][0], lookup_value)) for q in range(p)) '
                               'for p in range(len(lookup_array))) or '
                               '(result == "#N/A" and all(not (' + G.format(i='q') + ' and eqk(lookup_array[q][0], lookup_value)) '
                               'for q in range(len(lookup_array))))',
        },
        invariants={0: {'none_before': 'all(not (' + G.format(i='q') + ' and eqk(lookup_array[q][0], lookup_value)) for q in range(k0))'}},
        notes='exact MATCH: 1-based position of the first row whose key equals the value, else #N/A'))
    # text lookup values: z3's string ordering makes the early-return query time out (transitivity of str.<= under
    # quantifiers); the text case of approximate MATCH is covered by the bounded monitor only (stated in evidence)
    for kind, vsort in (('num', 'int|float'),):
      reg.add(Contract(
        f'_match/approx/{kind}', 'runtime:_match',
        {**SELF, 'lookup_value': vsort, 'lookup_array': 'list', 'match_type': 'int'}, self_class='ExcelInPython',
        requires=[rows, 'I(match_type) > 0', asc],
        ensures={
            'last_row_not_greater': 'any(' + G.format(i='p') + ' and lek(lookup_array[p][0], lookup_value) and result == p + 1 and '
                                    'all(implies(q > p and ' + G.format(i='q') + ', not lek(lookup_array[q][0], lookup_value)) '
                                    'for q in range(len(lookup_array))) for p in range(len(lookup_array))) or '
                                    '(result == "#N/A" and all(implies(' + G.format(i='q') + ', not lek(lookup_array[q][0], lookup_value)) '
                                    'for q in range(len(lookup_array))))',
        },
        invariants={1: {
            'last': 'last_valid_index == "#N/A" or (is_int(last_valid_index) and 1 <= I(last_valid_index) and '
                    'I(last_valid_index) <= k1 and gate(lookup_array[I(last_valid_index) - 1][0], lookup_value) and '
                    'lek(lookup_array[I(last_valid_index) - 1][0], lookup_value))',
            'all_gated_le': 'all(implies(' + G.format(i='q') + ', lek(lookup_array[q][0], lookup_value)) for q in range(k1))',
            'last_is_last': 'all(implies(' + G.format(i='q') + ', is_int(last_valid_index) and q + 1 <= I(last_valid_index)) for q in range(k1))',
        }},
        notes='approximate MATCH on ascending keys: the last row whose key is not greater than the value, including the '
              'last row when the value exceeds every key'))


def lookup3(reg):
    # ---------------------------------------------------------------- _xmatch: dispatch on search_mode
    rows = ('all(is_list(lookup_array[i]) and len(lookup_array[i]) >= 1 and (is_int(lookup_array[i][0]) or '
            'is_float(lookup_array[i][0]) or is_str(lookup_array[i][0]) or is_bool(lookup_array[i][0]) or '
            'is_empty(lookup_array[i][0])) for i in range(len(lookup_array)))')
    G = 'gate(lookup_array[{i}][0], lookup_value)'
    hit = '(' + G + ' and eqk(lookup_array[{i}][0], lookup_value))'
    reg.add(Contract(
        '_xmatch/exact', 'runtime:_xmatch',
        {**SELF, 'lookup_value': 'int|float|str', 'lookup_array': 'list', 'match_mode': 'int', 'search_mode': 'int'},
        self_class='ExcelInPython', callees={'_match': '_match/exact'},
        requires=[rows, 'I(match_mode) == 0', 'I(search_mode) == 1 or I(search_mode) == -1'],
        ensures={
            'first_from_start': 'implies(I(search_mode) == 1, any(' + hit.format(i='p') + ' and result == p + 1 and '
                                'all(not ' + hit.format(i='q') + ' for q in range(p)) for p in range(len(lookup_array))) or '
                                '(result == "#N/A" and all(not ' + hit.format(i='q') + ' for q in range(len(lookup_array)))))',
            'last_from_end': 'implies(I(search_mode) == -1, any(' + hit.format(i='p') + ' and result == p + 1 and '
                             'all(implies(q > p, not ' + hit.format(i='q') + ') for q in range(len(lookup_array))) '
                             'for p in range(len(lookup_array))) or '
                             '(result == "#N/A" and all(not ' + hit.format(i='q') + ' for q in range(len(lookup_array)))))',
        },
        notes='exact XMATCH: first equal row from the start, last equal row (position counted from the start) when '
              'searching from the end'))

    # ---------------------------------------------------------------- _vlookup
    trows = ('all(is_list(table_array[i]) and len(table_array[i]) >= I(col_index_num) and (is_int(table_array[i][0]) or '
             'is_float(table_array[i][0]) or is_str(table_array[i][0]) or is_bool(table_array[i][0])) '
             'for i in range(len(table_array)))')
    VG = 'vgate(table_array[{i}][0], lookup_value)'
    vhit = '(' + VG + ' and pyeq(table_array[{i}][0], lookup_value))'
    reg.add(Contract(
        '_vlookup/exact', 'runtime:_vlookup',
        {**SELF, 'lookup_value': 'int|float|str', 'table_array': 'list', 'col_index_num': 'int', 'range_lookup': 'bool'},
        self_class='ExcelInPython',
        requires=['I(col_index_num) >= 1', trows, 'not Bv(range_lookup)'],
        ensures={
            'first_equal_row': 'any(' + vhit.format(i='p') + ' and result == table_array[p][I(col_index_num) - 1] and '
                               'all(not ' + vhit.format(i='q') + ' for q in range(p)) for p in range(len(table_array))) or '
                               '(result == "#N/A" and all(not ' + vhit.format(i='q') + ' for q in range(len(table_array))))',
        },
        invariants={0: {'none_before': 'all(not ' + vhit.format(i='q') + ' for q in range(k0))',
                        'last': 'last_valid_value == "#N/A"'}},
        notes='exact VLOOKUP: entry of the first row whose key equals the value, else #N/A'))
    vasc = ('all(all(implies(i <= j and ' + VG.format(i='i') + ' and ' + VG.format(i='j') + ', '
            'R(table_array[i][0]) <= R(table_array[j][0])) for j in range(len(table_array))) for i in range(len(table_array)))')
    reg.add(Contract(
        '_vlookup/approx', 'runtime:_vlookup',
        {**SELF, 'lookup_value': 'int|float', 'table_array': 'list', 'col_index_num': 'int', 'range_lookup': 'bool'},
        self_class='ExcelInPython',
        requires=['I(col_index_num) >= 1', trows, 'Bv(range_lookup)', vasc],
        ensures={
            'last_row_not_greater': 'any(' + VG.format(i='p') + ' and R(table_array[p][0]) <= R(lookup_value) and '
                                    'result == table_array[p][I(col_index_num) - 1] and '
                                    'all(implies(q > p and ' + VG.format(i='q') + ', R(table_array[q][0]) > R(lookup_value)) '
                                    'for q in range(len(table_array))) for p in range(len(table_array))) or '
                                    '(result == "#N/A" and all(implies(' + VG.format(i='q') + ', R(table_array[q][0]) > R(lookup_value)) '
                                    'for q in range(len(table_array))))',
        },
        invariants={0: {
            'last': '(last_valid_value == "#N/A" and all(not ' + VG.format(i='q') + ' for q in range(k0))) or '
                    'any(' + VG.format(i='p') + ' and R(table_array[p][0]) <= R(lookup_value) and '
                    'last_valid_value == table_array[p][I(col_index_num) - 1] and '
                    'all(implies(q > p, not ' + VG.format(i='q') + ') for q in range(k0)) for p in range(k0))',
            'all_gated_le': 'all(implies(' + VG.format(i='q') + ', R(table_array[q][0]) <= R(lookup_value)) for q in range(k0))',
        }},
        notes='approximate VLOOKUP on ascending numeric keys: entry of the last row whose key is not greater than the '
              'value, including the last row'))


def vgate_z(x, v):
    """VLOOKUP's gate: a key takes part when it is of the lookup value's kind; numbers of either type are one kind"""
    z3, S = z(), T()
    x, v = _toV(x), _toV(v)
    numv = z3.Or(S.is_('Int', v), S.is_('Float', v))
    numx = z3.Or(S.is_('Int', x), S.is_('Float', x), S.is_('Bool', x))
    return z3.If(numv, numx, z3.And(S.is_('Str', v), S.is_('Str', x)))


def vgate_py(x, v):
    if type(v) in (int, float):
        return isinstance(x, (int, float))
    return type(v) is str and isinstance(x, str)


def pyeq_z(a, b):
    """Python == on scalars: numbers numerically (bool as 0/1), texts exactly"""
    z3, S = z(), T()
    a, b = _toV(a), _toV(b)
    return z3.If(z3.And(S.is_num(a), S.is_num(b)), S.real_of(a) == S.real_of(b), a == b)
