"""Contracts for the emitted runtime helpers (the text the real Context().build_class() renders): logical
functions (C13), lookup (C14), text slicing (C17), comparisons (C10), folds (C11), conditional folds (C12),
dates (C15), overrides (C04).  Targets are `runtime:<helper>`; C20 proves the abstract copy identical."""
from pv.contract import Contract
from contracts.common import base_registry, z, T

MOD = 'contracts.rt'
ERRS = ['#NUM!', '#DIV/0!', '#N/A', '#NAME?', '#NULL!', '#REF!', '#VALUE!']


def _toV(x):
    from pv.symspec import to_v
    return to_v(x)


def is_err_z(x):
    z3, S = z(), T()
    x = _toV(x)
    return z3.And(S.is_('Str', x), z3.Or([S.V.sval(x) == z3.StringVal(e) for e in ERRS]))


def is_err_py(x):
    return type(x) is str and x in ERRS


def substr_z(s, a, n):
    from pv.symspec import to_str, to_int
    return z().SubString(to_str(s), to_int(a), to_int(n))


SELF = {'self': 'obj:ExcelInPython'}


def registry():
    reg = base_registry(('ExcelInPython', 'EmptyCell'))
    reg.axioms += [cw_axioms, sumsel_axioms, lc_axioms]
    reg.spec('is_err', is_err_z, is_err_py, 'one of the seven Excel error values (as the property lists them)')
    reg.spec('substr', substr_z, lambda s, a, n: s[a:a + n] if n > 0 else '', 'n characters of s from 0-based offset a (SMT-LIB str.substr)')
    try:
        from contracts import k5
        k5.install(reg)
    except ImportError:      # native side (no z3): externals are not needed for replay
        pass
    logical(reg)
    text(reg)
    compare(reg)
    lookup(reg)
    lookup2(reg)
    reg.spec('vgate', vgate_z, vgate_py, vgate_z.__doc__)
    reg.spec('pyeq', pyeq_z, lambda a, b: a == b, pyeq_z.__doc__)
    lookup3(reg)
    folds(reg)
    flatten(reg)
    reg.spec('raises0', lambda f: T().app0_raises(_toV(f)), _raises0_py, 'calling the 0-ary callable raises')
    reg.spec('call0', lambda f: T().app0(_toV(f)), lambda f: f(), 'value of calling the 0-ary callable')
    logical2(reg)
    condfolds(reg)
    condfolds2(reg)
    condfolds3(reg)
    dates(reg)
    criteria(reg)
    dates2(reg)
    dates3(reg)
    overrides(reg)
    overrides2(reg)
    return reg


def logical(reg):
    # ---------------------------------------------------------------- _find_error_in_list
    reg.add(Contract(
        '_find_error_in_list', 'runtime:_find_error_in_list', {**SELF, 'flatten_list': 'list'},
        self_class='ExcelInPython',
        ensures={
            'none_iff_no_error': 'iff(is_none(result), all(not is_err(flatten_list[i]) for i in range(len(flatten_list))))',
            'first_error': 'implies(not is_none(result), any(flatten_list[i] == result and is_err(flatten_list[i]) and '
                           'all(not is_err(flatten_list[j]) for j in range(i)) for i in range(len(flatten_list))))',
            'truthy_when_found': 'implies(not is_none(result), is_err(result))',
        },
        invariants={0: {'prefix_clean': 'all(not is_err(flatten_list[i]) for i in range(k0))'}},
        notes='the error list is the literal in the function; is_err is the list the property names'))

    # ---------------------------------------------------------------- _ifs
    reg.add(Contract(
        '_ifs', 'runtime:_ifs', {**SELF, 'flatten_list': 'list'}, self_class='ExcelInPython',
        requires=['len(flatten_list) % 2 == 0',
                  'all(is_fn(flatten_list[i]) for i in range(len(flatten_list)))',
                  # the conditions can be evaluated; a value has to be computable only when its condition is true - the value
                  # paired with a false condition may raise
                  'all(implies(i % 2 == 0, not raises0(flatten_list[i])) for i in range(len(flatten_list)))',
                  'all(implies(p % 2 == 0 and truthy(call0(flatten_list[p])), not raises0(flatten_list[p + 1])) '
                  'for p in range(len(flatten_list)))'],
        ensures={
            # "the value paired with the first true condition, #N/A when none is true" without an existential (the form with
            # any(...) was decided in 0.8 s .. 29 s .. unknown from run to run); over a finite list the clauses are equivalent to it
            'first_true_pair': 'all(implies(p % 2 == 0 and truthy(call0(flatten_list[p])) and not is_err(call0(flatten_list[p])) and '
                               'all(implies(q % 2 == 0, not truthy(call0(flatten_list[q])) and not is_err(call0(flatten_list[q]))) for q in range(p)), result == call0(flatten_list[p + 1])) for p in range(len(flatten_list)))',
            'none_true': 'implies(all(implies(q % 2 == 0, not truthy(call0(flatten_list[q])) and not is_err(call0(flatten_list[q]))) for q in range(len(flatten_list))), result == "#N/A")',
            'error_condition': 'all(implies(p % 2 == 0 and is_err(call0(flatten_list[p])) and all(implies(q % 2 == 0, not truthy(call0(flatten_list[q])) and not is_err(call0(flatten_list[q]))) for q in range(p)), '
                               'result == call0(flatten_list[p])) for p in range(len(flatten_list)))',
        },
        invariants={0: {'even': 'is_int(index) and I(index) % 2 == 0 and I(index) >= 0',
                        'none_true_before': 'all(implies(q % 2 == 0, not truthy(call0(flatten_list[q])) and not is_err(call0(flatten_list[q]))) for q in range(I(index)))'}},
        notes='value paired with the first true condition, #N/A when none is true, the first condition that is an error value is '
              'returned; the arguments are abstract 0-ary callables and no exception is allowed: the value paired with a false '
              'condition may raise without effect (laziness)'))


def text(reg):
    # text: str, counts: int  (the operand kinds the property names)
    reg.add(Contract(
        '_left', 'runtime:_left', {**SELF, 'text': 'str', 'num_chars': 'int'}, self_class='ExcelInPython',
        ensures={
            'negative': 'implies(I(num_chars) < 0, result == "#ERROR!")',
            'first_n': 'implies(I(num_chars) >= 0, is_str(result) and '
                       'S(result) == substr(text, 0, min(I(num_chars), slen(text))))',
        }, notes='first n characters, shorter at the end, the empty text when nothing is selected'))
    reg.add(Contract(
        '_right', 'runtime:_right', {**SELF, 'text': 'str', 'num_chars': 'int'}, self_class='ExcelInPython',
        ensures={
            'negative': 'implies(I(num_chars) < 0, result == "#ERROR!")',
            'last_n': 'implies(I(num_chars) >= 0, is_str(result) and '
                      'S(result) == substr(text, slen(text) - min(I(num_chars), slen(text)), min(I(num_chars), slen(text))))',
        }, notes='last n characters, shorter at the start'))
    reg.add(Contract(
        '_mid', 'runtime:_mid', {**SELF, 'text': 'str', 'start_num': 'int', 'num_chars': 'int'},
        self_class='ExcelInPython',
        ensures={
            'start_below_1': 'implies(I(start_num) < 1, result == "#NUM!")',
            'negative_count': 'implies(I(start_num) >= 1 and I(num_chars) < 0, result == "#VALUE!")',
            'n_from_k': 'implies(I(start_num) >= 1 and I(num_chars) >= 0, is_str(result) and '
                        'S(result) == substr(text, I(start_num) - 1, max(0, min(I(num_chars), slen(text) - I(start_num) + 1))))',
        }, notes='n characters from 1-based position k, shorter at the end, empty beyond it'))


    reg.spec('int_text', lambda i: T().V.Str(T().int_str(__import__('pv.symspec', fromlist=['to_int']).to_int(i))),
             lambda i: str(i), 'decimal text of an integer (str(int), uninterpreted in the proofs)')
    reg.add(Contract(
        '_excel_value_to_string', 'runtime:_excel_value_to_string',
        {**SELF, 'value': 'int|bool|empty|str|datetime|none'}, self_class='ExcelInPython',
        ensures={
            'text_is_itself': 'implies(is_str(value), result == value)',
            'blank_is_empty_text': 'implies(is_empty(value) or is_none(value), result == "")',
            'boolean_is_upper_case_word': 'implies(is_bool(value), result == ite(Bv(value), "TRUE", "FALSE"))',
            'whole_number_is_its_decimal_text': 'implies(is_int(value) and not is_bool(value) and not is_empty(value), '
                                                'result == int_text(I(value)))',
            'date_is_its_serial_number': 'implies(is_datetime(value), result == int_text(tord(value) - 693594))',
        },
        notes='C17: the text form that & and CONCATENATE join - a text is itself, a blank the empty text, TRUE / FALSE, a whole '
              'number its decimal text, a date-time the decimal text of its day serial (days since 1899-12-30, ordinal 693594). '
              'Fractional numbers (float: repr / is_integer) are bounded (C17.monitor.concat).'))


# ------------------------------------------------------------------------------------------------ C10
def opres_z(op, lt, eq):
    """result of Excel/Python comparison operator `op` given that left<right is `lt` and left==right is `eq`"""
    from pv.symspec import to_str, to_bool
    z3 = z()
    op, lt, eq = to_str(op), to_bool(lt), to_bool(eq)
    return z3.If(op == '<', lt, z3.If(op == '<=', z3.Or(lt, eq), z3.If(op == '>', z3.And(z3.Not(lt), z3.Not(eq)),
           z3.If(op == '>=', z3.Not(lt), z3.If(op == '==', eq, z3.Not(eq))))))


def opres_py(op, lt, eq):
    return {'<': lt, '<=': lt or eq, '>': not lt and not eq, '>=': not lt, '==': eq, '!=': not eq}[op]


def is_op_z(op):
    from pv.symspec import to_v
    z3, S = z(), T()
    op = to_v(op)
    return z3.And(S.is_('Str', op), z3.Or([S.V.sval(op) == o for o in ('<', '<=', '>', '>=', '==', '!=')]))


def dkey_z(x):
    return T().dt_key(_toV(x))


def dkey_py(x):
    import datetime
    if isinstance(x, datetime.datetime):
        return x.toordinal() * 86400 + x.hour * 3600 + x.minute * 60 + x.second
    return x.toordinal() * 86400


def is_dateish_z(x):
    z3, S = z(), T()
    x = _toV(x)
    return z3.Or(S.is_('Date', x), S.is_('DateTime', x))


def numtext_z(x):
    """text that int() or float() accepts (the runtime compares such texts as numbers)"""
    from pv import symexpr as E
    z3, S = z(), T()
    x = _toV(x)
    s = S.V.sval(x)
    return z3.And(S.is_('Str', x), z3.Or(z3.InRe(s, E.INT_RE), E.py_float_ok(s)))


def numtext_py(x):
    if type(x) is not str:
        return False
    try:
        float(x)
        return True
    except ValueError:
        try:
            int(x)
            return True
        except ValueError:
            return False


def comparable_z(a, b):
    """Python defines an ordering between the two values (or one of them is a blank cell, whose methods answer)"""
    z3, S = z(), T()
    a, b = _toV(a), _toV(b)
    return z3.Or(S.is_('Empty', a), S.is_('Empty', b), z3.And(S.is_num(a), S.is_num(b)),
                 z3.And(S.is_('Str', a), S.is_('Str', b)), z3.And(S.is_('DateTime', a), S.is_('DateTime', b)),
                 z3.And(S.is_('Date', a), S.is_('Date', b)))


def comparable_py(a, b):
    import datetime
    def k(x):
        if type(x).__name__ in ('EmptyCell', 'EmptyStandIn'):
            return 'e'
        if isinstance(x, (int, float)):
            return 'n'
        if isinstance(x, str):
            return 's'
        if isinstance(x, datetime.datetime):
            return 'dt'
        if isinstance(x, datetime.date):
            return 'd'
        return repr(type(x))
    return 'e' in (k(a), k(b)) or (k(a) == k(b) and k(a) in ('n', 's', 'dt', 'd'))


def compare(reg):
    reg.spec('comparable', comparable_z, comparable_py, comparable_z.__doc__)
    reg.spec('opres', opres_z, opres_py, opres_z.__doc__)
    reg.spec('is_op', is_op_z, lambda op: op in ('<', '<=', '>', '>=', '==', '!='), 'one of the six operator spellings')
    reg.spec('dkey', dkey_z, dkey_py, '86400*ordinal + second of day of a date / date-time (a date is its midnight)')
    reg.spec('is_dateish', is_dateish_z, lambda x: type(x).__name__ in ('date', 'datetime'), 'date or date-time')
    reg.spec('numtext', numtext_z, numtext_py, numtext_z.__doc__)
    reg.add(Contract(
        '_by_operator', 'runtime:_by_operator',
        {**SELF, 'operator': 'str', 'left_operand': 'scalar', 'right_operand': 'scalar'}, self_class='ExcelInPython',
        ensures={
            'numbers': 'implies(is_num(left_operand) and is_num(right_operand) and not is_empty(left_operand) and '
                       'not is_empty(right_operand), result == opres(operator, '
                       'R(left_operand) < R(right_operand), R(left_operand) == R(right_operand)))',
            'texts': 'implies(is_str(left_operand) and is_str(right_operand), result == opres(operator, '
                     'S(left_operand) < S(right_operand), S(left_operand) == S(right_operand)))',
            'datetimes': 'implies(is_datetime(left_operand) and is_datetime(right_operand), result == opres(operator, '
                         'dkey(left_operand) < dkey(right_operand), dkey(left_operand) == dkey(right_operand)))',
            'blank_vs_text': 'implies(is_empty(left_operand) and is_str(right_operand), '
                             'result == opres(operator, S(right_operand) != "", S(right_operand) == ""))',
            'text_vs_blank': 'implies(is_str(left_operand) and is_empty(right_operand), '
                             'result == opres(operator, False, S(left_operand) == ""))',
            'blank_vs_date': 'implies(is_empty(left_operand) and is_dateish(right_operand), result == opres(operator, True, False))',
            'date_vs_blank': 'implies(is_dateish(left_operand) and is_empty(right_operand), result == opres(operator, False, False))',
            'blank_vs_blank': 'implies(is_empty(left_operand) and is_empty(right_operand), result == opres(operator, False, True))',
            'truth_value': 'is_bool(result)',
            # the statement (C10) places a blank cell below every positive number and at 0; it says nothing about negative
            # numbers, and EmptyCell.__gt__ answers False for them - the clauses are stated for numbers >= 0
            'blank_vs_number': 'implies(is_empty(left_operand) and is_num(right_operand) and not is_empty(right_operand) and '
                               'R(right_operand) >= 0.0, result == opres(operator, 0.0 < R(right_operand), 0.0 == R(right_operand)))',
            'number_vs_blank': 'implies(is_num(left_operand) and not is_empty(left_operand) and is_empty(right_operand) and '
                               'R(left_operand) >= 0.0, result == opres(operator, False, R(left_operand) == 0.0))',
        },
        raises={'ExcelInPythonException': 'not is_op(operator)',
                'TypeError': 'is_op(operator) and S(operator) != "==" and S(operator) != "!=" and '
                             'not comparable(left_operand, right_operand)'},
        notes='the six spellings map to the Python operator of the same meaning; any other spelling raises; the blank '
              'clauses are proved from the extracted EmptyCell methods'))

    pre = ['is_op(operator)',
           # A-REAL: float(int) is exact (|i| <= 2**53); beyond it CPython rounds and the claim is not made
           'implies(is_int(left_operand), -9007199254740992 <= I(left_operand) and I(left_operand) <= 9007199254740992)',
           'implies(is_int(right_operand), -9007199254740992 <= I(right_operand) and I(right_operand) <= 9007199254740992)']
    post = {
        'numeric_exact': 'implies(is_num(left_operand) and is_num(right_operand), result == opres(operator, '
                         'R(left_operand) < R(right_operand), R(left_operand) == R(right_operand)))',
        'texts_lexicographic': 'implies(is_str(left_operand) and is_str(right_operand) and not numtext(left_operand) '
                               'and not numtext(right_operand), result == opres(operator, '
                               'S(left_operand) < S(right_operand), S(left_operand) == S(right_operand)))',
        'dates_by_instant': 'implies(is_dateish(left_operand) and is_dateish(right_operand), result == opres(operator, '
                            'dkey(left_operand) < dkey(right_operand), dkey(left_operand) == dkey(right_operand)))',
        'blank_vs_text': 'implies(is_empty(left_operand) and is_str(right_operand) and not numtext(right_operand), '
                         'result == opres(operator, S(right_operand) != "", S(right_operand) == ""))',
        'text_vs_blank': 'implies(is_str(left_operand) and not numtext(left_operand) and is_empty(right_operand), '
                         'result == opres(operator, False, S(left_operand) == ""))',
        'blank_vs_date': 'implies(is_empty(left_operand) and is_dateish(right_operand), result == opres(operator, True, False))',
        'date_vs_blank': 'implies(is_dateish(left_operand) and is_empty(right_operand), result == opres(operator, False, False))',
    }
    # one contract per kind of left operand: the same function, the same clauses, smaller path sets (run in parallel)
    for kind, sort in (('num', 'int|float|bool|empty'), ('text', 'str'), ('date', 'date|datetime')):
        reg.add(Contract(
            f'_compare/{kind}', 'runtime:_compare',
            {**SELF, 'operator': 'str', 'left_operand': sort, 'right_operand': 'int|float|bool|empty|str|date|datetime'},
            self_class='ExcelInPython', requires=pre, ensures=post,
            notes='C10: exact numeric comparison, lawful same-kind comparison, blank clauses, date == its midnight '
                  f'(left operand: {sort})'))


# ------------------------------------------------------------------------------------------------ C14
def lookup(reg):
    rect = ('len(matrix_list) >= 1 and all(is_list(matrix_list[i]) and len(matrix_list[i]) == len(matrix_list[0]) '
            'for i in range(len(matrix_list))) and len(matrix_list[0]) >= 1 and '
            'all(all(not is_list(matrix_list[i][j]) and not is_tuple(matrix_list[i][j]) for j in range(len(matrix_list[i]))) '
            'for i in range(len(matrix_list)))')
    reg.add(Contract(
        '_index', 'runtime:_index',
        {**SELF, 'matrix_list': 'list', 'row_number': 'int', 'column_number': 'int', 'area_number': 'int'},
        self_class='ExcelInPython',
        requires=[rect, 'I(row_number) >= 1 and I(column_number) >= 1 and I(area_number) == 1'],
        ensures={
            'element': 'implies(I(row_number) <= len(matrix_list) and I(column_number) <= len(matrix_list[0]), '
                       'result == matrix_list[I(row_number) - 1][I(column_number) - 1])',
            'ref_error_outside': 'implies(I(row_number) > len(matrix_list) or I(column_number) > len(matrix_list[0]), '
                                 'result == "#REF!")',
        },
        notes='INDEX(area, r, c) is the element at row r, column c (1-based) of a rectangular area, #REF! outside it'))


def _lower(s):
    return T().str_lower(s)


def gate_z(x, v):
    """row key x takes part in a lookup of v: not blank and of the kind of v (numbers of either type are one kind)"""
    z3, S = z(), T()
    x, v = _toV(x), _toV(v)
    numv = z3.Or(S.is_('Int', v), S.is_('Float', v))
    return z3.And(z3.Not(S.is_('Empty', x)),
                  z3.If(numv, z3.Or(S.is_('Int', x), S.is_('Float', x), S.is_('Bool', x)),
                        z3.If(S.is_('Str', v), S.is_('Str', x), z3.BoolVal(False))))


def gate_py(x, v):
    if type(x).__name__ in ('EmptyCell', 'EmptyStandIn'):
        return False
    if type(v) in (int, float):
        return isinstance(x, (int, float))
    return type(v) is str and isinstance(x, str)


def eqk_z(x, v):
    """key x equals lookup value v: numbers numerically, texts case-insensitively"""
    z3, S = z(), T()
    x, v = _toV(x), _toV(v)
    return z3.If(S.is_('Str', x), _lower(S.V.sval(x)) == _lower(S.V.sval(v)), S.real_of(x) == S.real_of(v))


def lek_z(x, v):
    """key x is not greater than v (numbers numerically, texts case-insensitively by code point)"""
    z3, S = z(), T()
    x, v = _toV(x), _toV(v)
    return z3.If(S.is_('Str', x), _lower(S.V.sval(x)) <= _lower(S.V.sval(v)), S.real_of(x) <= S.real_of(v))


def gek_z(x, v):
    z3, S = z(), T()
    x, v = _toV(x), _toV(v)
    return z3.If(S.is_('Str', x), _lower(S.V.sval(v)) <= _lower(S.V.sval(x)), S.real_of(x) >= S.real_of(v))


def _k(f):
    def g(x, v):
        if isinstance(x, str):
            return f(x.lower(), v.lower())
        return f(x, v)
    return g


def lookup2(reg):
    reg.spec('gate', gate_z, gate_py, gate_z.__doc__)
    reg.spec('eqk', eqk_z, _k(lambda a, b: a == b), eqk_z.__doc__)
    reg.spec('lek', lek_z, _k(lambda a, b: a <= b), lek_z.__doc__)
    reg.spec('gek', gek_z, _k(lambda a, b: a >= b), 'key x is not smaller than v')
    rows = ('all(is_list(lookup_array[i]) and len(lookup_array[i]) >= 1 and (is_int(lookup_array[i][0]) or '
            'is_float(lookup_array[i][0]) or is_str(lookup_array[i][0]) or is_bool(lookup_array[i][0]) or '
            'is_empty(lookup_array[i][0])) for i in range(len(lookup_array)))')
    asc = ('all(all(implies(i <= j and gate(lookup_array[i][0], lookup_value) and gate(lookup_array[j][0], lookup_value), '
           'lek(lookup_array[i][0], lookup_array[j][0])) for j in range(len(lookup_array))) for i in range(len(lookup_array)))')
    G = 'gate(lookup_array[{i}][0], lookup_value)'
    reg.add(Contract(
        '_match/exact', 'runtime:_match',
        {**SELF, 'lookup_value': 'int|float|str', 'lookup_array': 'list', 'match_type': 'int'}, self_class='ExcelInPython',
        requires=[rows, 'I(match_type) == 0'],
        ensures={
            'first_equal_row': '(is_int(result) and 1 <= I(result) and I(result) <= len(lookup_array) and ' +
                               G.format(i='I(result) - 1') + ' and eqk(lookup_array[I(result) - 1][0], lookup_value) and '
                               'all(not (' + G.format(i='q') + ' and eqk(lookup_array[q][0], lookup_value)) for q in range(I(result) - 1))) or '
                               '(result == "#N/A" and all(not (' + G.format(i='q') + ' and eqk(lookup_array[q][0], lookup_value)) '
                               'for q in range(len(lookup_array))))',
        },
        invariants={0: {'none_before': 'all(not (' + G.format(i='q') + ' and eqk(lookup_array[q][0], lookup_value)) for q in range(k0))'}},
        notes='exact MATCH: 1-based position of the first row whose key equals the value, else #N/A'))
    # text lookup values: z3's string ordering makes the early-return query time out (transitivity of str.<= under
    # quantifiers); the text case of approximate MATCH is covered by the bounded monitor only (stated in evidence)
    for kind, vsort in (('num', 'int|float'),):
      reg.add(Contract(
        f'_match/approx/{kind}', 'runtime:_match',
        {**SELF, 'lookup_value': vsort, 'lookup_array': 'list', 'match_type': 'int'}, self_class='ExcelInPython',
        requires=[rows, 'I(match_type) > 0', asc],
        ensures={
            # the row is named by the result itself (p = result - 1), so no existential is needed
            'last_row_not_greater': '(is_int(result) and 1 <= I(result) and I(result) <= len(lookup_array) and ' +
                                    G.format(i='I(result) - 1') + ' and lek(lookup_array[I(result) - 1][0], lookup_value) and '
                                    'all(implies(q > I(result) - 1 and ' + G.format(i='q') + ', not lek(lookup_array[q][0], lookup_value)) '
                                    'for q in range(len(lookup_array)))) or '
                                    '(result == "#N/A" and all(implies(' + G.format(i='q') + ', not lek(lookup_array[q][0], lookup_value)) '
                                    'for q in range(len(lookup_array))))',
        },
        invariants={1: {
            'last': 'last_valid_index == "#N/A" or (is_int(last_valid_index) and 1 <= I(last_valid_index) and '
                    'I(last_valid_index) <= k1 and gate(lookup_array[I(last_valid_index) - 1][0], lookup_value) and '
                    'lek(lookup_array[I(last_valid_index) - 1][0], lookup_value))',
            'all_gated_le': 'all(implies(' + G.format(i='q') + ', lek(lookup_array[q][0], lookup_value)) for q in range(k1))',
            'last_is_last': 'all(implies(' + G.format(i='q') + ', is_int(last_valid_index) and q + 1 <= I(last_valid_index)) for q in range(k1))',
        }},
        notes='approximate MATCH on ascending keys: the last row whose key is not greater than the value, including the '
              'last row when the value exceeds every key'))


def lookup3(reg):
    # ---------------------------------------------------------------- _xmatch: dispatch on search_mode
    rows = ('all(is_list(lookup_array[i]) and len(lookup_array[i]) >= 1 and (is_int(lookup_array[i][0]) or '
            'is_float(lookup_array[i][0]) or is_str(lookup_array[i][0]) or is_bool(lookup_array[i][0]) or '
            'is_empty(lookup_array[i][0])) for i in range(len(lookup_array)))')
    G = 'gate(lookup_array[{i}][0], lookup_value)'
    hit = '(' + G + ' and eqk(lookup_array[{i}][0], lookup_value))'
    reg.add(Contract(
        '_xmatch/exact', 'runtime:_xmatch',
        {**SELF, 'lookup_value': 'int|float|str', 'lookup_array': 'list', 'match_mode': 'int', 'search_mode': 'int'},
        self_class='ExcelInPython', callees={'_match': '_match/exact'},
        requires=[rows, 'I(match_mode) == 0', 'I(search_mode) == 1 or I(search_mode) == -1'],
        ensures={
            'first_from_start': 'implies(I(search_mode) == 1, any(' + hit.format(i='p') + ' and result == p + 1 and '
                                'all(not ' + hit.format(i='q') + ' for q in range(p)) for p in range(len(lookup_array))) or '
                                '(result == "#N/A" and all(not ' + hit.format(i='q') + ' for q in range(len(lookup_array)))))',
            'last_from_end': 'implies(I(search_mode) == -1, any(' + hit.format(i='p') + ' and result == p + 1 and '
                             'all(implies(q > p, not ' + hit.format(i='q') + ') for q in range(len(lookup_array))) '
                             'for p in range(len(lookup_array))) or '
                             '(result == "#N/A" and all(not ' + hit.format(i='q') + ' for q in range(len(lookup_array)))))',
        },
        notes='exact XMATCH: first equal row from the start, last equal row (position counted from the start) when '
              'searching from the end'))

    # ---------------------------------------------------------------- _vlookup
    trows = ('all(is_list(table_array[i]) and len(table_array[i]) >= I(col_index_num) and (is_int(table_array[i][0]) or '
             'is_float(table_array[i][0]) or is_str(table_array[i][0]) or is_bool(table_array[i][0]) or is_empty(table_array[i][0])) '
             'for i in range(len(table_array)))')
    VG = 'vgate(table_array[{i}][0], lookup_value)'
    vhit = '(' + VG + ' and pyeq(table_array[{i}][0], lookup_value))'
    reg.add(Contract(
        '_vlookup/exact', 'runtime:_vlookup',
        {**SELF, 'lookup_value': 'int|float|str', 'table_array': 'list', 'col_index_num': 'int', 'range_lookup': 'bool'},
        self_class='ExcelInPython',
        requires=['I(col_index_num) >= 1', trows, 'not Bv(range_lookup)'],
        ensures={
            'first_equal_row': 'any(' + vhit.format(i='p') + ' and result == table_array[p][I(col_index_num) - 1] and '
                               'all(not ' + vhit.format(i='q') + ' for q in range(p)) for p in range(len(table_array))) or '
                               '(result == "#N/A" and all(not ' + vhit.format(i='q') + ' for q in range(len(table_array))))',
        },
        invariants={0: {'none_before': 'all(not ' + vhit.format(i='q') + ' for q in range(k0))',
                        'last': 'last_valid_value == "#N/A"'}},
        notes='exact VLOOKUP: entry of the first row whose key equals the value, else #N/A'))
    vasc = ('all(all(implies(i <= j and ' + VG.format(i='i') + ' and ' + VG.format(i='j') + ', '
            'R(table_array[i][0]) <= R(table_array[j][0])) for j in range(len(table_array))) for i in range(len(table_array)))')
    reg.add(Contract(
        '_vlookup/approx', 'runtime:_vlookup',
        {**SELF, 'lookup_value': 'int|float', 'table_array': 'list', 'col_index_num': 'int', 'range_lookup': 'bool'},
        self_class='ExcelInPython',
        requires=['I(col_index_num) >= 1', trows, 'Bv(range_lookup)', vasc],
        ensures={
            'last_row_not_greater': 'any(' + VG.format(i='p') + ' and R(table_array[p][0]) <= R(lookup_value) and '
                                    'result == table_array[p][I(col_index_num) - 1] and '
                                    'all(implies(q > p and ' + VG.format(i='q') + ', R(table_array[q][0]) > R(lookup_value)) '
                                    'for q in range(len(table_array))) for p in range(len(table_array))) or '
                                    '(result == "#N/A" and all(implies(' + VG.format(i='q') + ', R(table_array[q][0]) > R(lookup_value)) '
                                    'for q in range(len(table_array))))',
            # the same fact with the witness on the side of the hypothesis (no exists-forall alternation in the refutation
            # query, so a change that returns another row's entry gets a model instead of a timeout)
            'entry_of_every_last_row_not_greater': 'all(implies(' + VG.format(i='q') + ' and R(table_array[q][0]) <= R(lookup_value) and '
                                    'all(implies(r > q and ' + VG.format(i='r') + ', R(table_array[r][0]) > R(lookup_value)) '
                                    'for r in range(len(table_array))), result == table_array[q][I(col_index_num) - 1]) '
                                    'for q in range(len(table_array)))',
            'na_when_every_key_is_greater': 'implies(all(implies(' + VG.format(i='q') + ', R(table_array[q][0]) > R(lookup_value)) '
                                    'for q in range(len(table_array))), result == "#N/A")',
        },
        invariants={0: {
            'last': '(last_valid_value == "#N/A" and all(not ' + VG.format(i='q') + ' for q in range(k0))) or '
                    'any(' + VG.format(i='p') + ' and R(table_array[p][0]) <= R(lookup_value) and '
                    'last_valid_value == table_array[p][I(col_index_num) - 1] and '
                    'all(implies(q > p, not ' + VG.format(i='q') + ') for q in range(k0)) for p in range(k0))',
            'all_gated_le': 'all(implies(' + VG.format(i='q') + ', R(table_array[q][0]) <= R(lookup_value)) for q in range(k0))',
        }},
        notes='approximate VLOOKUP on ascending numeric keys: entry of the last row whose key is not greater than the '
              'value, including the last row'))


def vgate_z(x, v):
    """VLOOKUP's gate: a key takes part when it is not blank and of the lookup value's kind; numbers of either type are one kind"""
    z3, S = z(), T()
    x, v = _toV(x), _toV(v)
    numv = z3.Or(S.is_('Int', v), S.is_('Float', v))
    numx = z3.Or(S.is_('Int', x), S.is_('Float', x), S.is_('Bool', x))
    return z3.And(z3.Not(S.is_('Empty', x)), z3.If(numv, numx, z3.And(S.is_('Str', v), S.is_('Str', x))))


def vgate_py(x, v):
    if type(x).__name__ in ('EmptyCell', 'EmptyStandIn'):
        return False
    if type(v) in (int, float):
        return isinstance(x, (int, float))
    return type(v) is str and isinstance(x, str)


def pyeq_z(a, b):
    """Python == on scalars: numbers numerically (bool as 0/1), texts exactly"""
    z3, S = z(), T()
    a, b = _toV(a), _toV(b)
    return z3.If(z3.And(S.is_num(a), S.is_num(b)), S.real_of(a) == S.real_of(b), a == b)


# ------------------------------------------------------------------------------------------------ C11
def is_numcell_z(x):
    """a numeric cell: exactly int or float (booleans, blanks, texts and dates are not)"""
    z3, S = z(), T()
    x = _toV(x)
    return z3.Or(S.is_('Int', x), S.is_('Float', x))


def folds(reg):
    reg.spec('is_digits', lambda s_: z().InRe(__import__('pv.symspec', fromlist=['to_str']).to_str(s_), z().Plus(z().Range('0', '9'))), lambda s_: s_.isascii() and s_.isdigit(), 'ASCII digit string')
    reg.spec('is_numcell', is_numcell_z, lambda x: type(x) in (int, float), is_numcell_z.__doc__)
    reg.add(Contract(
        '_only_numeric_list.filter', 'runtime:_only_numeric_list#filter0', {'i': 'V', 'with_string_digits': 'bool'},
        self_class='ExcelInPython',
        ensures={'numeric_only': 'implies(not Bv(with_string_digits), truthy(result) == is_numcell(i))',
                 'digit_strings_too': 'implies(Bv(with_string_digits), truthy(result) == (is_numcell(i) or '
                                      '(is_str(i) and is_digits(i))))'},
        notes='element-level contract of the filter of [i for i in flatten_list if ...]: an element is kept exactly '
              'when it is an int or a float (booleans, blanks, texts, dates are not); K3 shape obligation '
              'C11._only_numeric_list.shape makes the function the filter of its argument by this predicate'))
    reg.add(Contract(
        '_only_bool_list.filter', 'runtime:_only_bool_list#filter0', {'i': 'V'}, self_class='ExcelInPython',
        ensures={'bool_only': 'truthy(result) == is_bool(i)'}))
    reg.add(Contract(
        '_only_datetime_list.filter', 'runtime:_only_datetime_list#filter0', {'i': 'V'}, self_class='ExcelInPython',
        ensures={'datetime_only': 'truthy(result) == is_datetime(i)'}))
    reg.add(Contract(
        '_count_blank.filter', 'runtime:_count_blank#filter0', {'elem': 'scalar'}, self_class='ExcelInPython',
        ensures={'blank_or_empty_text': 'truthy(result) == (is_none(elem) or is_empty(elem) or (is_str(elem) and S(elem) == ""))'},
        notes='COUNTBLANK counts exactly the blank and empty-text cells; a blank is None or an EmptyCell; the '
              'EmptyCell case goes through the extracted EmptyCell.__eq__'))
    reg.add(Contract(
        '_when_cell_is_empty_cast_to_zero.elt', 'runtime:_when_cell_is_empty_cast_to_zero#elt0', {'i': 'V', 'self': 'obj:ExcelInPython'},
        self_class='ExcelInPython',
        ensures={'blank_to_zero': 'result == ite(is_empty(i), 0, i)'}))


_LC = {}


def _lc_funs():
    """leafcount(x) / leafcount of the first k elements of x (uninterpreted, unfolded by triggered axioms)"""
    if not _LC:
        z3, S = z(), T()
        _LC['lc'] = z3.Function('leafcount', S.V, S.I)
        _LC['lcp'] = z3.Function('leafcount_prefix', S.V, S.I, S.I)
    return _LC['lc'], _LC['lcp']


def lc_axioms():
    z3, S = z(), T()
    lc, lcp = _lc_funs()
    x, k = z3.Const('lc_x', S.V), z3.Int('lc_k')
    return [z3.ForAll([x], lc(x) == z3.If(S.is_('List', x), lcp(x, S.ln(x)), z3.IntVal(1)), patterns=[lc(x)]),
            z3.ForAll([x, k], z3.Implies(k <= 0, lcp(x, k) == 0), patterns=[lcp(x, k)]),
            z3.ForAll([x, k], z3.Implies(k > 0, lcp(x, k) == lcp(x, k - 1) + lc(S.at(x, k - 1))), patterns=[lcp(x, k)])]


def leafcount_z(x):
    return _lc_funs()[0](_toV(x))


def lcp_z(x, k):
    from pv.symspec import to_int
    return _lc_funs()[1](_toV(x), to_int(k))


def leafcount_py(x):
    return sum(leafcount_py(i) for i in x) if type(x) is list else 1


def acyclic_z():
    """A-ACYCLIC: lists are finite trees (a rank decreases from a list to its elements)"""
    z3, S = z(), T()
    depth = z3.Function('list_depth', S.V, S.I)
    x, i = z3.Const('ac_x', S.V), z3.Int('ac_i')
    return z3.ForAll([x, i], z3.Implies(z3.And(S.is_('List', x), 0 <= i, i < S.ln(x)),
                                        z3.And(depth(S.at(x, i)) < depth(x), depth(S.at(x, i)) >= 0)),
                     patterns=[depth(S.at(x, i))])


def flatten(reg):
    reg.spec('leafcount', leafcount_z, leafcount_py, 'number of non-list leaves of a nested list (1 for a non-list)')
    reg.spec('lcp', lcp_z, lambda x, k: sum(leafcount_py(i) for i in x[:k]), 'leaves of the first k elements')
    reg.spec('acyclic', acyclic_z, lambda: True, acyclic_z.__doc__)
    reg.add(Contract(
        '_flatten_list', 'runtime:_flatten_list', {**SELF, 'subject': 'list'}, self_class='ExcelInPython',
        requires=['acyclic()'],
        ensures={
            'is_list': 'is_list(result)',
            'no_lists': 'all(not is_list(result[j]) for j in range(len(result)))',
            'length': 'len(result) == leafcount(subject)',
            'flat_identity': 'implies(all(not is_list(subject[j]) for j in range(len(subject))), '
                             'len(result) == len(subject) and all(result[j] == subject[j] for j in range(len(subject))))',
        },
        invariants={0: {
            'is_list': 'is_list(result) and len(result) >= 0',
            'no_lists': 'all(not is_list(result[j]) for j in range(len(result)))',
            'length': 'len(result) == lcp(subject, k0)',
            'flat_prefix': 'implies(all(not is_list(subject[j]) for j in range(k0)), '
                           'len(result) == k0 and all(result[j] == subject[j] for j in range(k0)))',
        }},
        notes='flattening keeps every leaf (as many result elements as leaves, none of them a list) and is the '
              'identity on an already flat list; own contract as induction hypothesis for the recursive call'))


def logical2(reg):
    reg.add(Contract(
        '_iferror', 'runtime:_iferror', {**SELF, 'condition_function': 'fn', 'when_error': 'fn'},
        self_class='ExcelInPython',
        requires=['implies(raises0(condition_function) or is_err(call0(condition_function)), not raises0(when_error))'],
        ensures={
            'fallback_when_raises': 'implies(raises0(condition_function), result == call0(when_error))',
            'fallback_when_error_value': 'implies(not raises0(condition_function) and is_err(call0(condition_function)), '
                                         'result == call0(when_error))',
            'value_otherwise': 'implies(not raises0(condition_function) and not is_err(call0(condition_function)), '
                               'result == call0(condition_function))',
        },
        notes='IFERROR returns its fallback exactly when evaluating the first argument fails or yields one of the '
              'seven Excel error values; both arguments are abstract callables and no exception is allowed: a fallback that is not '
              'needed may raise without effect (laziness)'))


def _raises0_py(f):
    try:
        f()
        return False
    except BaseException:  # noqa
        return True


# ------------------------------------------------------------------------------------------------ C12
_RF = {}


def _crit_true(f, x):
    S = T()
    return S.truthy(S.app1(f, x))


def _numval(x):
    """numeric value of a target cell as the folds see it: `x or 0` for falsy cells, booleans as 0/1"""
    S = T()
    return S.real_of(x)


def sumsel_fn():
    if 'sumsel' not in _RF:
        z3, S = z(), T()
        _RF['sumsel'] = z3.Function('sumsel', S.V, S.V, S.V, S.I, S.R)
    return _RF['sumsel']


def sumsel_axioms():
    z3, S = z(), T()
    f = sumsel_fn()
    r, s_, c, k = z3.Const('ss_r', S.V), z3.Const('ss_s', S.V), z3.Const('ss_c', S.V), z3.Int('ss_k')
    term = z3.If(z3.And(k - 1 < S.ln(s_), _crit_true(c, S.at(r, k - 1)), S.is_num(S.at(s_, k - 1))),
                 S.real_of(S.at(s_, k - 1)), z3.RealVal(0))
    return [z3.ForAll([r, s_, c, k], z3.Implies(k <= 0, f(r, s_, c, k) == 0), patterns=[f(r, s_, c, k)]),
            z3.ForAll([r, s_, c, k], z3.Implies(k > 0, f(r, s_, c, k) == f(r, s_, c, k - 1) + term), patterns=[f(r, s_, c, k)])]


def sumsel_z(r, s_, c, k):
    from pv.symspec import to_int
    return sumsel_fn()(_toV(r), _toV(s_), _toV(c), to_int(k))


def sumsel_py(r, s_, c, k):
    tot = 0
    for i in range(k):
        if i < len(s_) and c(r[i]) and isinstance(s_[i], (int, float)):
            tot += s_[i]
    return tot


def condfolds(reg):
    reg.spec('sumsel', sumsel_z, sumsel_py,
             'sum over positions i < k with i < len(s), criterion(r[i]) true, of the numeric value of s[i] (blank / None count 0)')
    flat_r = 'all(not is_list(range_[j]) for j in range(len(range_)))'
    flat_s = ('all(is_int(sum_range[j]) or is_float(sum_range[j]) or is_none(sum_range[j]) or is_empty(sum_range[j]) '
              'for j in range(len(sum_range)))')
    reg.add(Contract(
        '_sum_if', 'runtime:_sum_if', {**SELF, 'range_': 'list', 'criteria': 'fn', 'sum_range': 'list'},
        self_class='ExcelInPython', total_fns=['criteria'],
        requires=['acyclic()', flat_r, flat_s],
        ensures={'selected_sum': 'is_num(result) and R(result) == sumsel(old(range_), old(sum_range), criteria, len(old(range_)))'},
        invariants={0: {'partial': 'is_num(result) and R(result) == sumsel(old(range_), old(sum_range), criteria, k0)',
                        'same_r': 'is_list(range_) and len(range_) == len(old(range_)) and '
                                  'all(range_[j] == old(range_)[j] for j in range(len(range_)))',
                        'same_s': 'is_list(sum_range) and len(sum_range) == len(old(sum_range)) and '
                                  'all(sum_range[j] == old(sum_range)[j] for j in range(len(sum_range)))'}},
        notes='SUMIF adds the aligned target cell of exactly the positions whose range cell the criterion accepts '
              '(flat ranges; flattening is under its own contract; the criterion is an abstract total callable)'))


def selsum2_fn():
    """sum over i < k of s[i] where both criteria accept (r0[i], r1[i] after blank->0, bool->int) and s[i] is numeric"""
    if 'selsum2' not in _RF:
        z3, S = z(), T()
        f = z3.RecFunction('selsum2', S.V, S.V, S.V, S.V, S.V, S.I, S.R)
        s_, r0, c0, r1, c1, k = (z3.Const('s2_s', S.V), z3.Const('s2_r0', S.V), z3.Const('s2_c0', S.V),
                                 z3.Const('s2_r1', S.V), z3.Const('s2_c1', S.V), z3.Int('s2_k'))
        x = S.at(s_, k - 1)
        sel = z3.And(_crit_true(c0, norm_z(S.at(r0, k - 1))), _crit_true(c1, norm_z(S.at(r1, k - 1))))
        term = z3.If(z3.And(sel, z3.Or(S.is_('Int', x), S.is_('Float', x), S.is_('Bool', x))), S.real_of(x), z3.RealVal(0))
        z3.RecAddDefinition(f, [s_, r0, c0, r1, c1, k], z3.If(k <= 0, z3.RealVal(0), f(s_, r0, c0, r1, c1, k - 1) + term))
        _RF['selsum2'] = f
    return _RF['selsum2']


def norm_z(x):
    """criteria-range cell as the criterion sees it: blank counts as 0, TRUE/FALSE as 1/0"""
    z3, S = z(), T()
    x = _toV(x)
    return z3.If(S.is_('Empty', x), S.vint(0), z3.If(S.is_('Bool', x), S.V.Int(z3.If(S.V.bval(x), 1, 0)), x))


def norm_py(x):
    if type(x).__name__ in ('EmptyCell', 'EmptyStandIn'):
        return 0
    return int(x) if isinstance(x, bool) else x


def condfolds2(reg):
    reg.spec('norm', norm_z, norm_py, norm_z.__doc__)
    reg.spec('blank0', lambda x: z().If(T().is_('Empty', _toV(x)), T().vint(0), _toV(x)), lambda x: 0 if type(x).__name__ in ('EmptyCell', 'EmptyStandIn') else x, 'criteria-range cell as COUNTIFS sees it: blank counts as 0')
    reg.spec('is_other', lambda x: T().is_('Other', _toV(x)), lambda x: type(x).__name__ == 'Undefined', 'an instance of the local exclusion class')
    reg.spec('total1', total1_z, lambda f: True, total1_z.__doc__)
    reg.spec('crit', lambda f, x: _crit_true(_toV(f), _toV(x)), lambda f, x: bool(f(x)), 'the criterion accepts the value')
    flat = lambda n: f'all(not is_list({n}[j]) for j in range(len({n})))'   # noqa: E731
    mark_inv = {
        'len': 'is_list(sum_range) and len(sum_range) == len(pre(sum_range))',
        'done': 'all(sum_range[j] == ite(crit(criteria, _range[j]), pre(sum_range)[j], None) for j in range(k2))',
        'todo': 'all(implies(j >= k2, sum_range[j] == pre(sum_range)[j]) for j in range(len(sum_range)))',
    }
    def add_select(fname, target, tvar, npairs, loop_inner, fill, extra_params=None, extra_req=(), excluded='None'):
        ps = {**SELF, tvar: 'list'}
        if extra_params:
            ps.update(extra_params)
        va, req, sel = [], ['acyclic()', flat(tvar)] + list(extra_req), []
        for n in range(npairs):
            ps[f'r{n}'], ps[f'c{n}'] = 'list', 'fn'
            va += [f'r{n}', f'c{n}']
            req += [f'total1(c{n})', flat(f'r{n}')]
            sel.append(f'crit(c{n}, {fill}(r{n}[j]))')
        if excluded == 'undefined':
            inv = {
                'len': f'is_list({tvar}) and len({tvar}) == len(pre({tvar}))',
                'done': f'all(ite(crit(criteria, _range[j]), {tvar}[j] == pre({tvar})[j], is_other({tvar}[j])) for j in range(k{loop_inner}))',
                'todo': f'all(implies(j >= k{loop_inner}, {tvar}[j] == pre({tvar})[j]) for j in range(len({tvar})))',
            }
        else:
          inv = {
            'len': f'is_list({tvar}) and len({tvar}) == len(pre({tvar}))',
            'done': f'all({tvar}[j] == ite(crit(criteria, _range[j]), pre({tvar})[j], {excluded}) for j in range(k{loop_inner}))',
            'todo': f'all(implies(j >= k{loop_inner}, {tvar}[j] == pre({tvar})[j]) for j in range(len({tvar})))',
        }
        reg.add(Contract(
            f'{fname}.select/{npairs}', target, ps, vararg_params=va, self_class='ExcelInPython', requires=req,
            ensures={'selected': f'is_list(result) and len(result) == len(old({tvar})) and ' + (
                f'all(result[j] == ite({" and ".join(sel)}, old({tvar})[j], {excluded}) for j in range(len(result)))'
                if excluded == 'None' else
                f'all(ite({" and ".join(sel)}, result[j] == old({tvar})[j], is_other(result[j])) for j in range(len(result)))'
                if excluded == 'undefined' else
                f'all(ite({" and ".join(sel)}, result[j] == old({tvar})[j], fresh_since(result[j], "old")) '
                'for j in range(len(result)))')},
            raises={'ExcelInPythonException': ' or '.join(f'len(r{n}) != len({tvar})' for n in range(npairs))},
            invariants={loop_inner: inv},
            notes=f'{fname[1:].upper()} with {npairs} (range, criterion) pair(s): after the marking loops position j still holds '
                  'the target cell exactly when every criterion accepts the j-th cell of its range, else the exclusion '
                  'mark; ranges of different sizes raise ExcelInPythonException (never silently mis-aligned). Dropped by '
                  'the extraction: the final fold statement(s), which have their own obligations'))

    for n in (1, 2):
        add_select('_countifs', 'runtime:_countifs#head1:count_range', 'count_range', n, 2, 'blank0',
                   extra_params={'count_condition': 'fn'}, excluded='excluded',
                   extra_req=['all(not is_obj(count_range[j]) for j in range(len(count_range)))'])
        add_select('_averageifs', 'runtime:_averageifs#head3:average_range', 'average_range', n, 2, 'norm',
                   excluded='undefined',
                   extra_req=['len(average_range) >= 1',
                              'all(is_int(average_range[j]) or is_float(average_range[j]) or is_bool(average_range[j]) '
                              'or is_empty(average_range[j]) for j in range(len(average_range)))'])
        add_select('_sumifs', 'runtime:_sumifs#head2:sum_range', 'sum_range', n, 2, 'norm',
                   extra_req=['all(not is_none(sum_range[j]) for j in range(len(sum_range)))'])


def condfolds3(reg):
    reg.add(Contract(
        '_countifs.count_filter', 'runtime:_countifs#filter0', {'i': 'V', 'count_condition': 'fn', 'excluded': 'obj:object'},
        self_class='ExcelInPython', requires=['total1(count_condition)'],
        ensures={'counted': 'truthy(result) == (i != excluded and crit(count_condition, i))'},
        notes='the final COUNTIFS fold counts a position exactly when it was not excluded and the count condition '
              'accepts the cell (a zero or blank cell that was selected is counted)'))
    reg.add(Contract(
        '_sumifs.bool_to_int', 'runtime:_sumifs#elt0', {'i': 'V'}, self_class='ExcelInPython',
        ensures={'bool_as_number': 'result == ite(is_bool(i), N(i), i)'}))
    reg.add(Contract(
        '_sumifs.keep_filter', 'runtime:_sumifs#filter1', {'i': 'V'}, self_class='ExcelInPython',
        ensures={'keeps_selected': 'truthy(result) == (not is_none(i))'},
        notes='the final SUMIFS fold keeps exactly the positions not marked None, then sums the numeric ones (C11 _sum)'))


def total1_z(f):
    """the callable never raises (criteria are abstract total functions here; their semantics is checked separately)"""
    z3, S = z(), T()
    x = z3.Const('tot_x', S.V)
    return z3.ForAll([x], z3.Not(S.app1_raises(_toV(f), x)), patterns=[S.app1_raises(_toV(f), x)])


# ------------------------------------------------------------------------------------------------ C15
def fom_z(idx):
    """ordinal of the first day of the month with index idx = 12*year + (month-1)"""
    from pv.symspec import to_int
    z3, S = z(), T()
    idx = to_int(idx)
    y = idx / 12
    m = idx % 12 + 1
    return S.ymd_to_ord(y, m, z3.IntVal(1))


def fom_py(idx):
    import datetime
    return datetime.date(idx // 12, idx % 12 + 1, 1).toordinal()


def dim_idx_z(idx):
    from pv.symspec import to_int
    S = T()
    idx = to_int(idx)
    return S.dim(idx / 12, idx % 12 + 1)


def dim_idx_py(idx):
    import calendar
    return calendar.monthrange(idx // 12, idx % 12 + 1)[1]


def _dt_field(name):
    def f(x):
        S = T()
        return getattr(S.V, name)(_toV(x))
    return f


def mi_z(o):
    """month index 12*year + (month-1) of an ordinal (through the calendar decomposition functions)"""
    from pv.symspec import to_int
    S = T()
    o = to_int(o)
    return S.year_of(o) * 12 + S.month_of(o) - 1


def dom_z(o):
    from pv.symspec import to_int
    return T().day_of(to_int(o))


def dates(reg):
    import datetime as _dt
    reg.spec('fom', fom_z, fom_py, fom_z.__doc__)
    reg.spec('dim_idx', dim_idx_z, dim_idx_py, 'days in the month with index idx')
    reg.spec('tord', _dt_field('tord'), lambda x: x.toordinal(), 'proleptic Gregorian ordinal of a date-time')
    reg.spec('tsec', _dt_field('tsec'), lambda x: x.hour * 3600 + x.minute * 60 + x.second, 'second of day')
    reg.spec('mi', mi_z,
             lambda o: _dt.date.fromordinal(o).year * 12 + _dt.date.fromordinal(o).month - 1, '12*year + month-1 of an ordinal')
    reg.spec('dom', dom_z,
             lambda o: _dt.date.fromordinal(o).day, 'day of month of an ordinal')
    yy = 'ite(I(year) <= 1899, I(year) + 1900, I(year))'
    idx = f'({yy} * 12 + I(month) - 1)'
    reg.add(Contract(
        '_date', 'runtime:_date', {**SELF, 'year': 'int', 'month': 'int', 'day': 'int'}, self_class='ExcelInPython',
        requires=[f'implies(0 <= I(year) and I(year) <= 9999, 12 <= {idx} and {idx} <= 9999 * 12 + 11 and '
                  f'1 <= fom({idx}) + I(day) - 1 and fom({idx}) + I(day) - 1 <= 3652059)'],
        ensures={
            'out_of_window': 'implies(I(year) < 0 or I(year) > 9999, result == "#NUM!")',
            'calendar': f'implies(0 <= I(year) and I(year) <= 9999, is_datetime(result) and tsec(result) == 0 and '
                        f'tord(result) == fom({idx}) + I(day) - 1)',
        },
        notes='DATE(y, m, d) is 1 January of year y (0..1899 count from 1900) plus (m-1) months plus (d-1) days, for '
              'every integer month and day whose result stays inside years 1..9999'))
    reg.add(Contract(
        '_eomonth', 'runtime:_eomonth', {**SELF, 'start_date': 'datetime', 'months': 'int'}, self_class='ExcelInPython',
        requires=['12 <= mi(tord(start_date)) + I(months)',
                  'mi(tord(start_date)) + I(months) <= 9999 * 12 + 11'],
        ensures={'last_day_of_target_month': 'is_datetime(result) and tsec(result) == 0 and '
                                             'tord(result) == fom(mi(tord(start_date)) + I(months)) + '
                                             'dim_idx(mi(tord(start_date)) + I(months)) - 1'},
        notes='EOMONTH is the last day of the month `months` after the month of the start date'))
    reg.add(Contract(
        '_edate', 'runtime:_edate', {**SELF, 'start_date': 'datetime', 'months': 'int'}, self_class='ExcelInPython',
        requires=['12 <= mi(tord(start_date)) + I(months)',
                  'mi(tord(start_date)) + I(months) <= 9999 * 12 + 11'],
        ensures={'same_day_clamped': 'is_datetime(result) and tsec(result) == tsec(start_date) and '
                                     'tord(result) == fom(mi(tord(start_date)) + I(months)) + '
                                     'min(dom(tord(start_date)), dim_idx(mi(tord(start_date)) + I(months))) - 1'},
        notes='EDATE moves by whole months and clamps the day to the last day of the target month'))


def dates2(reg):
    reg.spec('lexle', lambda a, b, c, d: _lexle(a, b, c, d), lambda a, b, c, d: (a, b) <= (c, d),
             '(a, b) <= (c, d) lexicographically')
    M = '(mi(tord(date_end)) - mi(tord(date_start)) - ite(dom(tord(date_start)) > dom(tord(date_end)), 1, 0))'
    le = 'tord(date_start) * 86400 + tsec(date_start) <= tord(date_end) * 86400 + tsec(date_end)'
    complete = ('lexle(mi(tord(date_start)) + {k}, dom(tord(date_start)), mi(tord(date_end)), dom(tord(date_end)))')
    clauses = {
        'D': ('days', f'implies({le}, is_int(result) and '
              'I(result) * 86400 <= (tord(date_end) - tord(date_start)) * 86400 + tsec(date_end) - tsec(date_start) and '
              '(tord(date_end) - tord(date_start)) * 86400 + tsec(date_end) - tsec(date_start) < (I(result) + 1) * 86400)'),
        'M': ('months_complete', f'implies({le}, is_int(result) and I(result) >= 0 and '
              + complete.format(k='I(result)') + ' and not ' + complete.format(k='I(result) + 1') + ')'),
        'Y': ('years_complete', f'implies({le}, is_int(result) and I(result) >= 0 and '
              + complete.format(k='12 * I(result)') + ' and not ' + complete.format(k='12 * (I(result) + 1)') + ')'),
        'YM': ('months_beyond_years', f'implies({le}, is_int(result) and 0 <= I(result) and I(result) < 12 and '
               f'({M} - I(result)) % 12 == 0 and {M} - I(result) >= 0)'),
    }
    # one query per conjunct: the conjunction of the three month clauses is at the edge of the solver's budget
    split = {
        'M': {'months_nonnegative': f'implies({le}, is_int(result) and I(result) >= 0)',
              'months_complete': f'implies({le}, is_int(result) and ' + complete.format(k='I(result)') + ')',
              'months_maximal': f'implies({le}, is_int(result) and not ' + complete.format(k='I(result) + 1') + ')'},
        'Y': {'years_nonnegative': f'implies({le}, is_int(result) and I(result) >= 0)',
              'years_complete': f'implies({le}, is_int(result) and ' + complete.format(k='12 * I(result)') + ')',
              'years_maximal': f'implies({le}, is_int(result) and not ' + complete.format(k='12 * (I(result) + 1)') + ')'},
    }
    for unit, (cname, clause) in clauses.items():
        reg.add(Contract(
            f'_datedif/{unit}', 'runtime:_datedif', {**SELF, 'date_start': 'datetime', 'date_end': 'datetime', 'mode': 'str'},
            self_class='ExcelInPython', requires=[f'S(mode) == "{unit}"'],
            ensures={'reversed': f'implies(not ({le}), result == "#NUM!")', **split.get(unit, {cname: clause})},
            notes='DATEDIF: D complete days, M complete months (the largest k with start + k months <= end, compared as '
                  '(month index, day)), Y complete years (largest k with 12k months complete), YM months beyond whole '
                  'years; #NUM! when the interval is reversed. MD and YD are outside the property.'))
    for fn, field in (('_year', 'year_of'), ('_month', 'month_of'), ('_day', 'day_of')):
        reg.add(Contract(fn, f'runtime:{fn}', {**SELF, 'date': 'datetime'}, self_class='ExcelInPython',
                         ensures={'inverts_date': f'result == {field}(tord(date))'},
                         notes='YEAR / MONTH / DAY return the field of the calendar decomposition of the date'))
    reg.spec('year_of', lambda o: T().year_of(__import__('pv.symspec', fromlist=['to_int']).to_int(o)),
             lambda o: __import__('datetime').date.fromordinal(o).year, 'year of an ordinal')
    reg.spec('month_of', lambda o: T().month_of(__import__('pv.symspec', fromlist=['to_int']).to_int(o)),
             lambda o: __import__('datetime').date.fromordinal(o).month, 'month of an ordinal')
    reg.spec('day_of', lambda o: T().day_of(__import__('pv.symspec', fromlist=['to_int']).to_int(o)),
             lambda o: __import__('datetime').date.fromordinal(o).day, 'day of month of an ordinal')


def _lexle(a, b, c, d):
    from pv.symspec import to_int
    z3 = z()
    a, b, c, d = to_int(a), to_int(b), to_int(c), to_int(d)
    return z3.Or(a < c, z3.And(a == c, b <= d))


def cw_fn():
    """number of Monday-Friday ordinals in [a, b] (weekday of ordinal o is (o + 6) mod 7, Monday = 0)"""
    if 'cw' not in _RF:
        z3, S = z(), T()
        _RF['cw'] = z3.Function('count_weekdays', S.I, S.I, S.I)
    return _RF['cw']


def cw_axioms():
    z3 = z()
    f = cw_fn()
    a, b = z3.Int('cw_a'), z3.Int('cw_b')
    return [z3.ForAll([a, b], z3.Implies(b < a, f(a, b) == 0), patterns=[f(a, b)]),
            z3.ForAll([a, b], z3.Implies(b >= a, f(a, b) == f(a, b - 1) + z3.If((b + 6) % 7 < 5, 1, 0)), patterns=[f(a, b)])]


def cw_py(a, b):
    return sum(1 for o in range(a, b + 1) if (o + 6) % 7 < 5)


def dates3(reg):
    reg.spec('cw', lambda a, b: cw_fn()(*[__import__('pv.symspec', fromlist=['to_int']).to_int(x) for x in (a, b)]), cw_py,
             cw_fn.__doc__)
    reg.spec('dord', _dt_field('dord'), lambda x: x.toordinal(), 'ordinal of a date')
    for name, pre, lo, hi, mult, post in (
            ('forward', 'tord(date_start) <= tord(date_end)', 'tord(date_start)', 'tord(date_end)', '1',
             'result == cw(tord(date_start), tord(date_end))'),
            ('reversed', 'tord(date_start) > tord(date_end)', 'tord(date_end)', 'tord(date_start)', '0 - 1',
             'result == 0 - cw(tord(date_end), tord(date_start))')):
        reg.add(Contract(
            f'_network_days/{name}', 'runtime:_network_days',
            {**SELF, 'date_start': 'datetime', 'date_end': 'datetime', 'holidays': 'none'}, self_class='ExcelInPython',
            requires=[pre],
            ensures={'weekdays_of_interval': post},
            invariants={1: {
                'start': f'is_date(start) and is_date(end) and dord(start) <= dord(end) + 1 and dord(end) == {hi} and {lo} <= dord(start)',
                'count': f'is_int(work_days_count) and I(work_days_count) == cw({lo}, dord(start) - 1)',
                'mult': f'multiple == {mult}',
                'no_holidays': 'is_list(additional_days) and len(additional_days) == 0',
            }},
            notes='NETWORKDAYS without holidays counts the Monday-Friday dates of the inclusive interval, negated when '
                  'the interval is reversed; the holiday list is covered by the bounded monitor'))


# ------------------------------------------------------------------------------------------------ C04 (runtime side)
def overrides(reg):
    wf = ('all(is_dict(arguments[i]) and has(arguments[i], "uid") and has(arguments[i], "value") '
          'for i in range(len(arguments)))')
    reg.add(Contract(
        'set_arguments', 'runtime:set_arguments', {**SELF, 'arguments': 'list'}, self_class='ExcelInPython',
        fields=['_arguments'], modifies=['_arguments'],
        requires=[wf, 'is_dict(self._arguments)'],
        ensures={
            'is_dict': 'is_dict(self._arguments)',
            'last_write_wins': 'all(get(self._arguments, get(arguments[i], "uid")) == get(arguments[i], "value") or '
                               'any(j > i and get(arguments[j], "uid") == get(arguments[i], "uid") for j in range(len(arguments))) '
                               'for i in range(len(arguments)))',
            'supplied_present': 'all(has(self._arguments, get(arguments[i], "uid")) for i in range(len(arguments)))',
        },
        notes='the argument map after set_arguments maps every supplied uid to the value of its LAST occurrence in '
              'the batch (frame for the other keys: clause others_kept of the keyed variant)'))
    reg.add(Contract(
        'set_arguments/frame', 'runtime:set_arguments', {**SELF, 'arguments': 'list', }, self_class='ExcelInPython',
        fields=['_arguments'], modifies=['_arguments'],
        requires=[wf, 'is_dict(self._arguments)'],
        ensures={
            'others_kept': 'implies(all(get(arguments[i], "uid") != ghost_key() for i in range(len(arguments))), '
                           'has(self._arguments, ghost_key()) == has(old(self._arguments), ghost_key()) and '
                           'implies(has(old(self._arguments), ghost_key()), '
                           'get(self._arguments, ghost_key()) == get(old(self._arguments), ghost_key())))',
        },
        notes='a key not supplied in the batch keeps its presence and value (ghost_key is an arbitrary key)'))
    reg.spec('ghost_key', lambda: z().Const('ghost_key', T().V), lambda: '__no_such_key__', 'an arbitrary key (universally quantified by being unconstrained)')


def overrides2(reg):
    def E():
        from pv import symexpr
        return symexpr
    reg.spec('inst_dict', lambda o: E().obj_dict(_toV(o)), lambda o: o.__dict__, 'attribute table of the instance')
    reg.spec('class_dict', lambda: E().obj_dict(T().V.Cls(z().IntVal(900))), lambda: {}, 'attribute table of the generated class')
    reg.spec('raises1', lambda f, x: T().app1_raises(_toV(f), _toV(x)), lambda f, x: False, 'calling f(x) raises')
    reg.spec('call1', lambda f, x: T().app1(_toV(f), _toV(x)), lambda f, x: f(x), 'value of f(x)')
    meth = ('ite(has(inst_dict(self), cell_uid), get(inst_dict(self), cell_uid), '
            'ite(has(class_dict(), cell_uid), get(class_dict(), cell_uid), None))')
    reg.add(Contract(
        '_cell_preprocessor', 'runtime:_cell_preprocessor', {**SELF, 'cell_uid': 'str'}, self_class='ExcelInPython',
        fields=['_arguments'],
        requires=['is_dict(self._arguments)',
                  f'is_none({meth}) or is_fn({meth})'],
        ensures={
            'override_first': 'implies(has(self._arguments, cell_uid), result == get(self._arguments, cell_uid))',
            'else_method': f'implies(not has(self._arguments, cell_uid) and is_fn({meth}), result == call1({meth}, self))',
            'else_blank': f'implies(not has(self._arguments, cell_uid) and is_none({meth}), is_empty(result))',
        },
        raises={'Exception': f'not has(self._arguments, cell_uid) and is_fn({meth}) and raises1({meth}, self)'},
        notes='override first, else the generated method, else blank; the method is not even evaluated for an '
              'overridden cell (its exception cannot surface: the raises clause is an iff)'))


# ------------------------------------------------------------------------------------------------ C12: criterion acceptance
def criteria(reg):
    """_accepts(value, criterion, operand): the typed instances - a criterion that is a number, a boolean or a date-time
    (=SUMIF(r, E1, ...), =SUMIF(r, 5, ...)) and a comparison operator joined to such an operand (">"&E3).  The text instances
    (operator prefix parsing, wildcards, date parsing: str / re / dateutil) stay with the bounded monitor."""
    def excel_text(ex, st, args, kwargs, node):
        from pv.symexec import fresh
        S = T()
        r = fresh('xtext', S.V)
        return [(st.add(S.is_('Str', r)), r)]
    reg.external('method:_excel_value_to_string', excel_text, 'text form of a value (C17); only reached with a non-operator text')
    OP6 = '(S(criterion) == "=" or S(criterion) == "<>" or S(criterion) == ">" or S(criterion) == "<" or S(criterion) == ">=" or S(criterion) == "<=")'
    pre = [f'(is_none(operand) and not is_str(criterion)) or (not is_none(operand) and not is_str(operand) and is_str(criterion) and {OP6})',
           'implies(is_int(value), -9007199254740992 <= I(value) and I(value) <= 9007199254740992)',
           'implies(is_int(criterion), -9007199254740992 <= I(criterion) and I(criterion) <= 9007199254740992)',
           'implies(is_int(operand), -9007199254740992 <= I(operand) and I(operand) <= 9007199254740992)']
    op = 'ite(is_none(operand), "==", ite(S(criterion) == "=", "==", ite(S(criterion) == "<>", "!=", S(criterion))))'
    crit = 'ite(is_none(operand), criterion, operand)'
    number = '((is_int(value) or is_float(value)) and not is_bool(value) and not is_empty(value))'
    cnum = f'((is_int({crit}) or is_float({crit}) or is_empty({crit})) and not is_bool({crit}))'
    cval = f'ite(is_empty({crit}), 0.0, R({crit}))'
    post = {
        'is_bool': 'is_bool(result)',
        'number_criterion': f'implies({cnum}, Bv(result) == ite({op} == "!=", not ({number} and R(value) == {cval}), '
                            f'{number} and opres({op}, R(value) < {cval}, R(value) == {cval})))',
        'date_criterion': f'implies(is_datetime({crit}), Bv(result) == ite({op} == "!=", '
                          f'not (is_dateish(value) and dkey(value) == dkey({crit})), '
                          f'is_dateish(value) and opres({op}, dkey(value) < dkey({crit}), dkey(value) == dkey({crit}))))',
        'boolean_criterion_boolean_cell': f'implies(is_bool({crit}) and is_bool(value), Bv(result) == opres({op}, '
                                          f'R(value) < R({crit}), R(value) == R({crit})))',
        'text_cell_never_meets_a_typed_criterion': f'implies(is_str(value) and (is_num({crit}) or is_dateish({crit})), '
                                                   f'Bv(result) == ({op} == "!="))',
        'blank_cell': f'implies(is_empty(value) and ({cnum} or is_dateish({crit})), Bv(result) == ({op} == "!="))',
    }
    kinds = {'num': 'int|float|empty', 'bool': 'bool', 'date': 'date|datetime'}
    names = {'=': 'eq', '<>': 'ne', '>': 'gt', '<': 'lt', '>=': 'ge', '<=': 'le'}

    def clauses(pyop, crit):
        cnum = f'((is_int({crit}) or is_float({crit}) or is_empty({crit})) and not is_bool({crit}))'
        cval = f'ite(is_empty({crit}), 0.0, R({crit}))'
        neg = pyop == '!='
        def both(comparable, lt, eq):
            return f'not ({comparable} and {eq})' if neg else f'{comparable} and opres("{pyop}", {lt}, {eq})'
        return {
            'is_bool': 'is_bool(result)',
            'number_criterion': f'implies({cnum}, Bv(result) == ({both(number, f"R(value) < {cval}", f"R(value) == {cval}")}))',
            'date_criterion': f'implies(is_dateish({crit}), Bv(result) == '
                              f'({both("is_dateish(value)", f"dkey(value) < dkey({crit})", f"dkey(value) == dkey({crit})")}))',
            'boolean_criterion_boolean_cell': f'implies(is_bool({crit}) and is_bool(value), Bv(result) == '
                                              f'opres("{pyop}", R(value) < R({crit}), R(value) == R({crit})))',
            'text_cell_never_meets_a_typed_criterion': f'implies(is_str(value) and (is_num({crit}) or is_dateish({crit})), '
                                                       f'Bv(result) == {neg})',
            'blank_cell': f'implies(is_empty(value) and ({cnum} or is_dateish({crit})), Bv(result) == {neg})',
        }
    ints = ['implies(is_int(value), -9007199254740992 <= I(value) and I(value) <= 9007199254740992)',
            'implies(is_int(criterion), -9007199254740992 <= I(criterion) and I(criterion) <= 9007199254740992)',
            'implies(is_int(operand), -9007199254740992 <= I(operand) and I(operand) <= 9007199254740992)']
    note = ('C12: a criterion of one kind is met only by cells of that kind - a number (or blank, counted as 0) by numbers with the '
            'exact comparison, a date by dates at the same instant / in the given order, a boolean by booleans; <> is the negation '
            'of =; a text cell and a blank cell never meet a typed =, <, > criterion and always meet <>. Text criteria (operator '
            'prefix, wildcards, numeric and date texts) are bounded (C12.monitor.criteria_*). Instance: ')
    for kind, sort in kinds.items():
        reg.add(Contract(
            f'_accepts/plain/{kind}', 'runtime:_accepts',
            {**SELF, 'value': 'int|float|bool|empty|str|date|datetime', 'criterion': sort, 'operand': 'none'},
            self_class='ExcelInPython', requires=ints, ensures=clauses('==', 'criterion'), callees={'_by_operator': '_by_operator'},
            notes=note + f'the criterion itself, of kind {kind} (equality)'))
        for sign, nm in names.items():
            pyop = {'=': '==', '<>': '!='}.get(sign, sign)
            reg.add(Contract(
                f'_accepts/{nm}/{kind}', 'runtime:_accepts',
                {**SELF, 'value': 'int|float|bool|empty|str|date|datetime', 'criterion': 'str', 'operand': sort},
                self_class='ExcelInPython', requires=[f'S(criterion) == "{sign}"'] + ints, ensures=clauses(pyop, 'operand'),
                callees={'_by_operator': '_by_operator'},
                notes=note + f'the operator text "{sign}" joined to an operand of kind {kind}'))
