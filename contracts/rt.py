"""Contracts for the emitted runtime helpers (the text the real Context().build_class() renders): logical
functions (C13), lookup (C14), text slicing (C17), comparisons (C10), folds (C11), conditional folds (C12),
dates (C15), overrides (C04).  Targets are `runtime:<helper>`; C20 proves the abstract copy identical."""
from pv.contract import Contract
from contracts.common import base_registry, z, T

MOD = 'contracts.rt'
ERRS = ['#NUM!', '#DIV/0!', '#N/A', '#NAME?', '#NULL!', '#REF!', '#VALUE!']


def _toV(x):
    from pv.symspec import to_v
    return to_v(x)


def is_err_z(x):
    z3, S = z(), T()
    x = _toV(x)
    return z3.And(S.is_('Str', x), z3.Or([S.V.sval(x) == z3.StringVal(e) for e in ERRS]))


def is_err_py(x):
    return type(x) is str and x in ERRS


def substr_z(s, a, n):
    from pv.symspec import to_str, to_int
    return z().SubString(to_str(s), to_int(a), to_int(n))


SELF = {'self': 'obj:ExcelInPython'}


def registry():
    reg = base_registry(('ExcelInPython', 'EmptyCell'))
    reg.spec('is_err', is_err_z, is_err_py, 'one of the seven Excel error values (as the property lists them)')
    reg.spec('substr', substr_z, lambda s, a, n: s[a:a + n] if n > 0 else '', 'n characters of s from 0-based offset a (SMT-LIB str.substr)')
    from contracts import k5
    k5.install(reg)
    logical(reg)
    text(reg)
    compare(reg)
    return reg


def logical(reg):
    # ---------------------------------------------------------------- _find_error_in_list
    reg.add(Contract(
        '_find_error_in_list', 'runtime:_find_error_in_list', {**SELF, 'flatten_list': 'list'},
        self_class='ExcelInPython',
        ensures={
            'none_iff_no_error': 'iff(is_none(result), all(not is_err(flatten_list[i]) for i in range(len(flatten_list))))',
            'first_error': 'implies(not is_none(result), any(flatten_list[i] == result and is_err(flatten_list[i]) and '
                           'all(not is_err(flatten_list[j]) for j in range(i)) for i in range(len(flatten_list))))',
            'truthy_when_found': 'implies(not is_none(result), is_err(result))',
        },
        invariants={0: {'prefix_clean': 'all(not is_err(flatten_list[i]) for i in range(k0))'}},
        notes='the error list is the literal in the function; is_err is the list the property names'))

    # ---------------------------------------------------------------- _ifs
    reg.add(Contract(
        '_ifs', 'runtime:_ifs', {**SELF, 'flatten_list': 'list'}, self_class='ExcelInPython',
        requires=['len(flatten_list) % 2 == 0',
                  'all(not is_err(flatten_list[i]) for i in range(len(flatten_list)))'],
        ensures={
            'first_true_pair': 'any(p % 2 == 0 and truthy(flatten_list[p]) and result == flatten_list[p + 1] and '
                               'all(implies(q % 2 == 0, not truthy(flatten_list[q])) for q in range(p)) '
                               'for p in range(len(flatten_list))) or '
                               '(all(implies(q % 2 == 0, not truthy(flatten_list[q])) for q in range(len(flatten_list))) '
                               'and result == "#N/A")',
        },
        invariants={0: {'even': 'is_int(index) and I(index) % 2 == 0 and I(index) >= 0',
                        'none_true_before': 'all(implies(q % 2 == 0, not truthy(flatten_list[q])) for q in range(I(index)))'}},
        notes='value paired with the first true condition, #N/A when none is true'))


def text(reg):
    # text: str, counts: int  (the operand kinds the property names)
    reg.add(Contract(
        '_left', 'runtime:_left', {**SELF, 'text': 'str', 'num_chars': 'int'}, self_class='ExcelInPython',
        ensures={
            'negative': 'implies(I(num_chars) < 0, result == "#ERROR!")',
            'empty_text': 'implies(I(num_chars) >= 0 and slen(text) == 0, is_empty(result))',
            'first_n': 'implies(I(num_chars) >= 0 and slen(text) > 0, is_str(result) and '
                       'S(result) == substr(text, 0, min(I(num_chars), slen(text))))',
        }, notes='first n characters, shorter at the end'))
    reg.add(Contract(
        '_right', 'runtime:_right', {**SELF, 'text': 'str', 'num_chars': 'int'}, self_class='ExcelInPython',
        ensures={
            'negative': 'implies(I(num_chars) < 0, result == "#ERROR!")',
            'empty_text': 'implies(I(num_chars) >= 0 and slen(text) == 0, is_empty(result))',
            'last_n': 'implies(I(num_chars) >= 0 and slen(text) > 0, is_str(result) and '
                      'S(result) == substr(text, slen(text) - min(I(num_chars), slen(text)), min(I(num_chars), slen(text))))',
        }, notes='last n characters, shorter at the start'))
    reg.add(Contract(
        '_mid', 'runtime:_mid', {**SELF, 'text': 'str', 'start_num': 'int', 'num_chars': 'int'},
        self_class='ExcelInPython',
        ensures={
            'start_below_1': 'implies(I(start_num) < 1, result == "#NUM!")',
            'negative_count': 'implies(I(start_num) >= 1 and I(num_chars) < 0, result == "#VALUE!")',
            'beyond_end': 'implies(I(start_num) >= 1 and I(num_chars) >= 0 and I(start_num) > slen(text), is_empty(result))',
            'n_from_k': 'implies(I(start_num) >= 1 and I(num_chars) >= 0 and I(start_num) <= slen(text), is_str(result) and '
                        'S(result) == substr(text, I(start_num) - 1, min(I(num_chars), slen(text) - I(start_num) + 1)))',
        }, notes='n characters from 1-based position k, shorter at the end'))


# ------------------------------------------------------------------------------------------------ C10
def opres_z(op, lt, eq):
    """result of Excel/Python comparison operator `op` given that left<right is `lt` and left==right is `eq`"""
    from pv.symspec import to_str, to_bool
    z3 = z()
    op, lt, eq = to_str(op), to_bool(lt), to_bool(eq)
    return z3.If(op == '<', lt, z3.If(op == '<=', z3.Or(lt, eq), z3.If(op == '>', z3.And(z3.Not(lt), z3.Not(eq)),
           z3.If(op == '>=', z3.Not(lt), z3.If(op == '==', eq, z3.Not(eq))))))


def opres_py(op, lt, eq):
    return {'<': lt, '<=': lt or eq, '>': not lt and not eq, '>=': not lt, '==': eq, '!=': not eq}[op]


def is_op_z(op):
    from pv.symspec import to_v
    z3, S = z(), T()
    op = to_v(op)
    return z3.And(S.is_('Str', op), z3.Or([S.V.sval(op) == o for o in ('<', '<=', '>', '>=', '==', '!=')]))


def dkey_z(x):
    return T().dt_key(_toV(x))


def dkey_py(x):
    import datetime
    if isinstance(x, datetime.datetime):
        return x.toordinal() * 86400 + x.hour * 3600 + x.minute * 60 + x.second
    return x.toordinal() * 86400


def is_dateish_z(x):
    z3, S = z(), T()
    x = _toV(x)
    return z3.Or(S.is_('Date', x), S.is_('DateTime', x))


def numtext_z(x):
    """text that int() or float() accepts (the runtime compares such texts as numbers)"""
    from pv import symexpr as E
    z3, S = z(), T()
    x = _toV(x)
    s = S.V.sval(x)
    return z3.And(S.is_('Str', x), z3.Or(z3.InRe(s, E.INT_RE), E.py_float_ok(s)))


def numtext_py(x):
    if type(x) is not str:
        return False
    try:
        float(x)
        return True
    except ValueError:
        try:
            int(x)
            return True
        except ValueError:
            return False


def comparable_z(a, b):
    """Python defines an ordering between the two values (or one of them is a blank cell, whose methods answer)"""
    z3, S = z(), T()
    a, b = _toV(a), _toV(b)
    return z3.Or(S.is_('Empty', a), S.is_('Empty', b), z3.And(S.is_num(a), S.is_num(b)),
                 z3.And(S.is_('Str', a), S.is_('Str', b)), z3.And(S.is_('DateTime', a), S.is_('DateTime', b)),
                 z3.And(S.is_('Date', a), S.is_('Date', b)))


def comparable_py(a, b):
    import datetime
    def k(x):
        if type(x).__name__ in ('EmptyCell', 'EmptyStandIn'):
            return 'e'
        if isinstance(x, (int, float)):
            return 'n'
        if isinstance(x, str):
            return 's'
        if isinstance(x, datetime.datetime):
            return 'dt'
        if isinstance(x, datetime.date):
            return 'd'
        return repr(type(x))
    return 'e' in (k(a), k(b)) or (k(a) == k(b) and k(a) in ('n', 's', 'dt', 'd'))


def compare(reg):
    reg.spec('comparable', comparable_z, comparable_py, comparable_z.__doc__)
    reg.spec('opres', opres_z, opres_py, opres_z.__doc__)
    reg.spec('is_op', is_op_z, lambda op: op in ('<', '<=', '>', '>=', '==', '!='), 'one of the six operator spellings')
    reg.spec('dkey', dkey_z, dkey_py, '86400*ordinal + second of day of a date / date-time (a date is its midnight)')
    reg.spec('is_dateish', is_dateish_z, lambda x: type(x).__name__ in ('date', 'datetime'), 'date or date-time')
    reg.spec('numtext', numtext_z, numtext_py, numtext_z.__doc__)
    reg.add(Contract(
        '_by_operator', 'runtime:_by_operator',
        {**SELF, 'operator': 'str', 'left_operand': 'scalar', 'right_operand': 'scalar'}, self_class='ExcelInPython',
        ensures={
            'numbers': 'implies(is_num(left_operand) and is_num(right_operand) and not is_empty(left_operand) and '
                       'not is_empty(right_operand), result == opres(operator, '
                       'R(left_operand) < R(right_operand), R(left_operand) == R(right_operand)))',
            'texts': 'implies(is_str(left_operand) and is_str(right_operand), result == opres(operator, '
                     'S(left_operand) < S(right_operand), S(left_operand) == S(right_operand)))',
            'datetimes': 'implies(is_datetime(left_operand) and is_datetime(right_operand), result == opres(operator, '
                         'dkey(left_operand) < dkey(right_operand), dkey(left_operand) == dkey(right_operand)))',
            'blank_vs_text': 'implies(is_empty(left_operand) and is_str(right_operand), '
                             'result == opres(operator, S(right_operand) != "", S(right_operand) == ""))',
            'text_vs_blank': 'implies(is_str(left_operand) and is_empty(right_operand), '
                             'result == opres(operator, False, S(left_operand) == ""))',
            'blank_vs_date': 'implies(is_empty(left_operand) and is_dateish(right_operand), result == opres(operator, True, False))',
            'date_vs_blank': 'implies(is_dateish(left_operand) and is_empty(right_operand), result == opres(operator, False, False))',
            'blank_vs_blank': 'implies(is_empty(left_operand) and is_empty(right_operand), result == opres(operator, False, True))',
        },
        raises={'ExcelInPythonException': 'not is_op(operator)',
                'TypeError': 'is_op(operator) and S(operator) != "==" and S(operator) != "!=" and '
                             'not comparable(left_operand, right_operand)'},
        notes='the six spellings map to the Python operator of the same meaning; any other spelling raises; the blank '
              'clauses are proved from the extracted EmptyCell methods'))

    pre = ['is_op(operator)',
           # A-REAL: float(int) is exact (|i| <= 2**53); beyond it CPython rounds and the claim is not made
           'implies(is_int(left_operand), -9007199254740992 <= I(left_operand) and I(left_operand) <= 9007199254740992)',
           'implies(is_int(right_operand), -9007199254740992 <= I(right_operand) and I(right_operand) <= 9007199254740992)']
    post = {
        'numeric_exact': 'implies(is_num(left_operand) and is_num(right_operand), result == opres(operator, '
                         'R(left_operand) < R(right_operand), R(left_operand) == R(right_operand)))',
        'texts_lexicographic': 'implies(is_str(left_operand) and is_str(right_operand) and not numtext(left_operand) '
                               'and not numtext(right_operand), result == opres(operator, '
                               'S(left_operand) < S(right_operand), S(left_operand) == S(right_operand)))',
        'dates_by_instant': 'implies(is_dateish(left_operand) and is_dateish(right_operand), result == opres(operator, '
                            'dkey(left_operand) < dkey(right_operand), dkey(left_operand) == dkey(right_operand)))',
        'blank_vs_text': 'implies(is_empty(left_operand) and is_str(right_operand) and not numtext(right_operand), '
                         'result == opres(operator, S(right_operand) != "", S(right_operand) == ""))',
        'text_vs_blank': 'implies(is_str(left_operand) and not numtext(left_operand) and is_empty(right_operand), '
                         'result == opres(operator, False, S(left_operand) == ""))',
        'blank_vs_date': 'implies(is_empty(left_operand) and is_dateish(right_operand), result == opres(operator, True, False))',
        'date_vs_blank': 'implies(is_dateish(left_operand) and is_empty(right_operand), result == opres(operator, False, False))',
    }
    # one contract per kind of left operand: the same function, the same clauses, smaller path sets (run in parallel)
    for kind, sort in (('num', 'int|float|bool|empty'), ('text', 'str'), ('date', 'date|datetime')):
        reg.add(Contract(
            f'_compare/{kind}', 'runtime:_compare',
            {**SELF, 'operator': 'str', 'left_operand': sort, 'right_operand': 'int|float|bool|empty|str|date|datetime'},
            self_class='ExcelInPython', requires=pre, ensures=post,
            notes='C10: exact numeric comparison, lawful same-kind comparison, blank clauses, date == its midnight '
                  f'(left operand: {sort})'))
