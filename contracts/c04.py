"""C04 / C08: Executor (override accumulation, flush-before-read, query frames, whole-sheet grid)."""
from pv.contract import Contract
from contracts.common import base_registry, z, T
from contracts import c02


def registry():
    reg = base_registry(('Cell', 'Executor', 'EmptyCell'))
    base = c02.registry()
    for k in ('colnum', 'is_colname', 'is_digits', 'str_to_int', 'wf_data', 'lookup'):
        reg.specfns[k] = base.specfns[k]
    reg.externals.update(base.externals)
    reg.k5 += base.k5
    reg.add(base.contracts['handle_cell'])
    uidreg = c02.registry_uid()
    reg.specfns['int_str'] = uidreg.specfns['int_str']
    reg.add(uidreg.contracts['Cell.uid'])
    _externals(reg)
    F = ['_cells_have_been_changed', '_executed_instance', '_cells', '_titles', '_sheets_size', 'g_args']
    WF = ('is_bool(self._cells_have_been_changed) and is_dict(self._cells) and is_dict(self._titles) and '
          'allocated(self._executed_instance)')
    cell_ok = ('is_bool(cell._handled_identifiers) and implies(not Bv(cell._handled_identifiers), '
               '(is_int(cell.title) or (is_str(cell.title) and has(self._titles, cell.title) and is_int(get(self._titles, cell.title)))) and '
               '(is_int(cell.column) or (is_str(cell.column) and is_colname(cell.column))) and '
               '(is_int(cell.row) or (is_str(cell.row) and is_digits(cell.row) and str_to_int(cell.row) >= 1))) and '
               'implies(Bv(cell._handled_identifiers), is_int(cell.title) and is_int(cell.column) and is_int(cell.row))')
    CELLS_OK = ('all(allocated(get(self._cells, k)) and get(self._cells, k) != self and Bv(get(self._cells, k)._handled_identifiers) and is_bool(get(self._cells, k)._handled_identifiers) and is_int(get(self._cells, k).title) and is_int(get(self._cells, k).column) and is_int(get(self._cells, k).row) and is_str(k) and S(k) == uid_str(get(self._cells, k).title, get(self._cells, k).column, get(self._cells, k).row) for k in keys(self._cells))')
    import contracts.rt as rt
    rtreg = rt.registry()
    for k in ('ghost_key', 'inst_dict', 'class_dict', 'raises1', 'call1'):
        reg.specfns[k] = rtreg.specfns[k]
    reg.add(rtreg.contracts['_cell_preprocessor'])
    reg.add(rtreg.contracts['set_arguments'])
    reg.add(rtreg.contracts['set_arguments/frame'])
    from contracts.common import base_registry as _b
    reg.classes['ExcelInPython'] = _b(('ExcelInPython',)).classes['ExcelInPython']
    # class invariant of the override store: every stored cell is a handled, integer-addressed Cell filed under its uid
    reg.spec('has_cell', has_cell_z, None, 'the object is one of the stored override cells')
    reg.spec('uid_str', lambda t, c, r: uid_str_z(t, c, r), None, 'uid text _<t>_<c>_<r>')
    reg.add(Contract(
        'Executor._set_cells_to_executed_instance', 'repo:utilities/executor.py:Executor._set_cells_to_executed_instance',
        {'self': 'obj:Executor'}, self_class='Executor', fields=F + ['_arguments'],
        callees={'uid': 'Cell.uid', 'set_arguments': 'set_arguments'},
        requires=[WF, CELLS_OK, 'is_dict(self._executed_instance._arguments)',
                  'self._executed_instance != self'],
        ensures={
            'flushed': 'self._cells_have_been_changed == False',
            'args_is_dict': 'is_dict(self._executed_instance._arguments) and self._executed_instance == old(self._executed_instance)',
            'every_override_supplied': 'implies(has(self._cells, ghost_key()), has(self._executed_instance._arguments, ghost_key()) and '
                                       'get(self._executed_instance._arguments, ghost_key()) == get(self._cells, ghost_key()).value)',
            'frame': 'self._cells == old(self._cells) and self._sheets_size == old(self._sheets_size)',
        },
        modifies=['_cells_have_been_changed', '_arguments'],
        notes='after the replay the instance maps every overridden uid to the value of the stored (most recent) cell; '
              'ghost_key is an arbitrary key'))

    cellj = ('is_bool(cells[{j}]._handled_identifiers) and Bv(cells[{j}]._handled_identifiers) and is_int(cells[{j}].title) and '
             'is_int(cells[{j}].column) and is_int(cells[{j}].row)')
    UID = 'uid_str(cells[{j}].title, cells[{j}].column, cells[{j}].row)'
    cell_pre = ('all(allocated(cells[i]) and cells[i] != self and is_bool(cells[i]._handled_identifiers) and '
                'Bv(cells[i]._handled_identifiers) and is_int(cells[i].title) and is_int(cells[i].column) and is_int(cells[i].row) '
                'for i in range(len(cells)))')
    sizes_pre = ('is_list(self._sheets_size) and all(is_dict(self._sheets_size[s]) and has(self._sheets_size[s], "last_row") and '
                 'has(self._sheets_size[s], "last_column") and is_int(get(self._sheets_size[s], "last_row")) and '
                 'is_int(get(self._sheets_size[s], "last_column")) for s in range(len(self._sheets_size)))')
    title_ok = ('all(implies(is_int(cells[i].title), 0 <= I(cells[i].title) and I(cells[i].title) < len(self._sheets_size)) and '
                'implies(is_str(cells[i].title), 0 <= I(get(self._titles, cells[i].title)) and '
                'I(get(self._titles, cells[i].title)) < len(self._sheets_size)) for i in range(len(cells)))')
    reg.add(Contract(
        'Executor.set_cells/normalised', 'repo:utilities/executor.py:Executor.set_cells', {'self': 'obj:Executor', 'cells': 'list'},
        self_class='Executor', fields=F, inline=['uid'],
        requires=[WF, CELLS_OK, cell_pre, sizes_pre, title_ok],
        ensures={
            'dirty': 'self._cells_have_been_changed == True',
            'all_handled': 'all(' + cellj.format(j='i') + ' for i in range(len(cells)))',
            'last_write_wins': 'all(get(self._cells, ' + UID.format(j='i') + ') == cells[i] or any(j > i and ' + UID.format(j='j') +
                               ' == ' + UID.format(j='i') + ' for j in range(len(cells))) for i in range(len(cells)))',
            'supplied_present': 'all(has(self._cells, ' + UID.format(j='i') + ') for i in range(len(cells)))',
            'others_kept': 'implies(all(' + UID.format(j='i') + ' != S(ghost_key()) for i in range(len(cells))) and is_str(ghost_key()), '
                           'has(self._cells, ghost_key()) == has(old(self._cells), ghost_key()) and '
                           'implies(has(old(self._cells), ghost_key()), get(self._cells, ghost_key()) == get(old(self._cells), ghost_key())))',
            'returns_self': 'result == self',
        },
        invariants={0: {
            'handled': 'all(' + cellj.format(j='i') + ' for i in range(k0))',
            'todo': cell_pre,
            'titles_ok': title_ok,
            'sizes': sizes_pre + ' and len(self._sheets_size) == len(old(self._sheets_size))',
            'store': 'self._cells == old(self._cells) and self._titles == old(self._titles) and is_dict(self._titles) and '
                     'self._executed_instance == old(self._executed_instance)',
        }},
        modifies=['_cells_have_been_changed', '_cells', '_sheets_size', 'title', 'column', 'row', '_handled_identifiers'],
        notes='for cells whose identifiers are already normalised (numeric addressing; normalisation itself is handle_cell, C02): the override store maps each supplied uid to the LAST cell supplied for '
              'it in this batch and keeps every other entry (so across batches the most recent write wins)'))

    cellq = ('allocated(cell) and cell != self and is_bool(cell._handled_identifiers) and Bv(cell._handled_identifiers) and '
             'is_int(cell.title) and is_int(cell.column) and is_int(cell.row)')
    inst_ok = ('is_dict(self._executed_instance._arguments) and self._executed_instance != self and '
               'all(is_none(get(inst_dict(self._executed_instance), k)) or is_fn(get(inst_dict(self._executed_instance), k)) for k in keys(inst_dict(self._executed_instance))) and '
               'all(is_none(get(class_dict(), k)) or is_fn(get(class_dict(), k)) for k in keys(class_dict()))')
    common_post = {
        'flushed': 'self._cells_have_been_changed == False',
        'override_first': 'implies(has(self._executed_instance._arguments, uid_str(cell.title, cell.column, cell.row)), '
                          'cell.value == get(self._executed_instance._arguments, uid_str(cell.title, cell.column, cell.row)))',
        'else_method': 'implies(not has(self._executed_instance._arguments, uid_str(cell.title, cell.column, cell.row)) and is_fn(ite(has(inst_dict(self._executed_instance), uid_str(cell.title, cell.column, cell.row)), get(inst_dict(self._executed_instance), uid_str(cell.title, cell.column, cell.row)), ite(has(class_dict(), uid_str(cell.title, cell.column, cell.row)), get(class_dict(), uid_str(cell.title, cell.column, cell.row)), None))), '
                       'cell.value == call1(ite(has(inst_dict(self._executed_instance), uid_str(cell.title, cell.column, cell.row)), get(inst_dict(self._executed_instance), uid_str(cell.title, cell.column, cell.row)), ite(has(class_dict(), uid_str(cell.title, cell.column, cell.row)), get(class_dict(), uid_str(cell.title, cell.column, cell.row)), None)), self._executed_instance))',
        'else_blank': 'implies(not has(self._executed_instance._arguments, uid_str(cell.title, cell.column, cell.row)) and is_none(ite(has(inst_dict(self._executed_instance), uid_str(cell.title, cell.column, cell.row)), get(inst_dict(self._executed_instance), uid_str(cell.title, cell.column, cell.row)), ite(has(class_dict(), uid_str(cell.title, cell.column, cell.row)), get(class_dict(), uid_str(cell.title, cell.column, cell.row)), None))), is_empty(cell.value))',
        'frame': 'self._cells == old(self._cells) and self._sheets_size == old(self._sheets_size) and '
                 'self._titles == old(self._titles) and self._executed_instance == old(self._executed_instance)',
        'address_kept': 'cell.title == old(cell.title) and cell.column == old(cell.column) and cell.row == old(cell.row)',
        'result': 'result == cell',
    }
    reg.add(Contract(
        'Executor.get_cell/clean', 'repo:utilities/executor.py:Executor.get_cell', {'self': 'obj:Executor', 'cell': 'obj:Cell'},
        self_class='Executor', fields=F + ['_arguments'], inline=['uid'],
        requires=[WF, cellq, inst_ok, 'cell != self._executed_instance', 'not Bv(self._cells_have_been_changed)'],
        ensures={**common_post,
                 'no_flush_when_clean': 'self._executed_instance._arguments == old(self._executed_instance._arguments)'},
        free_exceptions=['Exception'], modifies=['_cells_have_been_changed', '_arguments', 'value'],
        notes='without pending overrides a query only evaluates: EV = contract of _cell_preprocessor (override first, else the '
              'generated method, else blank); overrides, sheet sizes, titles and the cell address are untouched (C08 frame)'))
    reg.add(Contract(
        'Executor.get_cell/dirty', 'repo:utilities/executor.py:Executor.get_cell', {'self': 'obj:Executor', 'cell': 'obj:Cell'},
        self_class='Executor', fields=F + ['_arguments'], inline=['uid'],
        callees={'_set_cells_to_executed_instance': 'Executor._set_cells_to_executed_instance'},
        requires=[WF, CELLS_OK, cellq, inst_ok, 'cell != self._executed_instance', 'Bv(self._cells_have_been_changed)'],
        ensures={'flushed': common_post['flushed'], 'frame': common_post['frame'], 'result': common_post['result'],
                 'overrides_reach_instance': 'implies(has(self._cells, ghost_key()), '
                                             'has(self._executed_instance._arguments, ghost_key()) and '
                                             'get(self._executed_instance._arguments, ghost_key()) == get(self._cells, ghost_key()).value)'},
        free_exceptions=['Exception'], modifies=['_cells_have_been_changed', '_arguments', 'value'],
        notes='with pending overrides a query first replays them: afterwards the instance maps every overridden uid to the '
              'value of the most recently supplied cell'))

    cellq2 = ('allocated(cell) and cell != self and is_bool(cell._handled_identifiers) and '
              'is_int(cell.title) and is_int(cell.column) and is_int(cell.row) and I(cell.row) >= 0 and not has_cell(self._cells, cell)')
    reg.add(Contract(
        'Executor.get_cell/frame', 'repo:utilities/executor.py:Executor.get_cell', {'self': 'obj:Executor', 'cell': 'obj:Cell'},
        self_class='Executor', fields=F + ['_arguments'], inline=['uid'],
        callees={'_set_cells_to_executed_instance': 'Executor._set_cells_to_executed_instance'},
        requires=[WF, CELLS_OK, cellq2, inst_ok, 'cell != self._executed_instance'],
        ensures={'flushed': common_post['flushed'], 'frame': common_post['frame'], 'address_kept': common_post['address_kept'],
                 'result': common_post['result'], 'wf': WF + ' and ' + inst_ok,
                 'other_cells_kept': 'unchanged_except("value", "old", cell) and unchanged_except("_handled_identifiers", "old", cell)'},
        free_exceptions=['Exception'], modifies=['_cells_have_been_changed', '_arguments', 'value', '_handled_identifiers'],
        notes='whatever the pending state: a query returns the queried cell object, keeps its address, and assigns only that '
              'cell\'s value, the dirty flag and the instance argument map'))
    SZ = 'get(self._sheets_size[I(sheet)], "{k}")'
    reg.add(Contract(
        'Executor.get_sheet', 'repo:utilities/executor.py:Executor.get_sheet', {'self': 'obj:Executor', 'sheet': 'int'},
        self_class='Executor', fields=F + ['_arguments'], callees={'get_cell': 'Executor.get_cell/frame'},
        requires=[WF, CELLS_OK, inst_ok, sizes_pre, '0 <= I(sheet) and I(sheet) < len(self._sheets_size)'],
        ensures={
            'rows': 'is_list(result) and len(result) == max(0, I(' + SZ.format(k='last_row') + '))',
            'grid': 'all(is_list(result[r]) and len(result[r]) == max(0, I(' + SZ.format(k='last_column') + ')) and '
                    'all(is_obj(result[r][c]) and result[r][c].title == sheet and result[r][c].row == r and result[r][c].column == c '
                    'and fresh_since(result[r][c], "old") for c in range(len(result[r]))) for r in range(len(result)))',
            'frame': 'self._cells == old(self._cells) and self._sheets_size == old(self._sheets_size) and self._titles == old(self._titles)',
        },
        invariants={
            0: {'rows': 'is_list(cells) and len(cells) == k0',
                'grid': 'all(is_list(cells[r]) and len(cells[r]) == max(0, I(' + SZ.format(k='last_column') + ')) and '
                        'all(is_obj(cells[r][c]) and cells[r][c].title == sheet and cells[r][c].row == r and cells[r][c].column == c '
                        'and fresh_since(cells[r][c], "old") for c in range(len(cells[r]))) for r in range(len(cells)))',
                'state': WF + ' and ' + inst_ok + ' and ' + CELLS_OK + ' and self._cells == old(self._cells) and '
                         'self._sheets_size == old(self._sheets_size) and self._titles == old(self._titles) and '
                         'self._executed_instance == old(self._executed_instance) and sheet_size == self._sheets_size[I(sheet)]'},
            1: {'row': 'is_list(row_cells) and len(row_cells) == k1 and is_int(row) and row == k0',
                'cols': 'all(is_obj(row_cells[c]) and row_cells[c].title == sheet and row_cells[c].row == row and '
                        'row_cells[c].column == c and fresh_since(row_cells[c], "old") for c in range(len(row_cells)))',
                'outer_rows': 'is_list(cells) and len(cells) == k0',
                'outer_grid': 'all(is_list(cells[r]) and len(cells[r]) == max(0, I(' + SZ.format(k='last_column') + ')) and '
                              'all(is_obj(cells[r][c]) and cells[r][c].title == sheet and cells[r][c].row == r and cells[r][c].column == c '
                              'and fresh_since(cells[r][c], "old") for c in range(len(cells[r]))) for r in range(len(cells)))',
                'state': WF + ' and ' + inst_ok + ' and ' + CELLS_OK + ' and self._cells == old(self._cells) and '
                         'self._sheets_size == old(self._sheets_size) and self._titles == old(self._titles) and '
                         'self._executed_instance == old(self._executed_instance) and sheet_size == self._sheets_size[I(sheet)]'},
        },
        free_exceptions=['Exception'],
        modifies=['_cells_have_been_changed', '_arguments', 'value', 'title', 'column', 'row', '_handled_identifiers'],
        notes='the whole-sheet grid has exactly last_row x last_column entries; entry [r][c] is the Cell(sheet, c, r) that '
              'was passed through the single-cell query; sizes, overrides and titles are not changed by querying'))
    return reg


def _externals(reg):
    import z3
    from pv import sorts as S
    from pv.sorts import V, is_
    from pv.symexec import fresh, Flow, NotFormed
    EVf = z3.Function('EV', S.V, S.V, S.V)
    merged = z3.Function('merged', S.V, S.V, S.V)
    evr = z3.Function('EV_raises', S.V, S.V, S.B)
    from pv.symspec import to_v
    reg.spec('EV', lambda a, u: EVf(to_v(a), to_v(u)), None,
             'value the generated instance computes for cell uid under the argument map a (override first, else the '
             'generated method, else blank: contract of _cell_preprocessor, proved in contracts.rt)')
    reg.spec('merged', lambda a, c: merged(to_v(a), to_v(c)), None,
             'argument map a overridden by {uid: cell.value} for the override cells c (contract of set_arguments, proved in contracts.rt)')
    uid_of = z3.Function('uid_of', S.V, S.V, S.V, S.V)
    reg.spec('uid_of', lambda t, c, r: uid_of(to_v(t), to_v(c), to_v(r)), None, 'the uid string of a handled cell')


def uid_str_z(t, c, r):
    from pv.symspec import to_int
    from contracts.c02 import _int_to_str
    z3 = z()
    return z3.Concat(z3.StringVal('_'), _int_to_str(to_int(t)), z3.StringVal('_'), _int_to_str(to_int(c)),
                     z3.StringVal('_'), _int_to_str(to_int(r)))




def has_cell_z(d, c):
    from pv.symspec import to_v
    z3, S = z(), T()
    d, c = to_v(d), to_v(c)
    k = z3.Const('hc_k', S.V)
    return z3.Exists([k], z3.And(S.dhas(d, k), S.dget(d, k) == c))
