"""C18 / C19: Excel.parse reads every cell at its true coordinates (under the K5 contract of openpyxl's read-only stream)."""
from pv.contract import Contract
from contracts.common import base_registry, z, T


def registry():
    reg = base_registry(('Cell', 'EmptyCell'))
    import z3
    from pv import sorts as S
    from pv.sorts import V, is_
    from pv.symexec import fresh, NotFormed, Flow
    from pv.symspec import to_v
    WB = z3.Function('workbook_at', S.V, S.V)          # the Workbook object openpyxl returns for a path
    SUSP = z3.Function('suspicious_of', S.V, S.V)      # Excel._get_suspicious_constructions(value)
    LET = z3.Function('column_letters', S.I, S.S)      # openpyxl column letters of a 1-based column number
    reg.spec('wb', lambda p: WB(to_v(p)), None, 'the workbook object openpyxl opens for the path')
    reg.spec('susp', lambda v: SUSP(to_v(v)), None, 'list of suspicious fragments of a value (_get_suspicious_constructions, bounded separately)')
    reg.spec('letters', lambda c: LET(__import__('pv.symspec', fromlist=['to_int']).to_int(c)), None, 'column letters of a 1-based column number')
    reg.classes['ArrayFormula'] = {'fields': {'text': None}, 'methods': {}, 'props': {}, 'static': set(), 'classm': set(),
                                   'target': 'openpyxl', 'nested': {}}

    def load_workbook(ex, st, args, kwargs, node):
        path = ex.need_term(kwargs.get('filename', args[0] if args else None))
        if kwargs.get('read_only') is None:
            raise NotFormed('load_workbook without read_only')
        return [(st, WB(path))]
    reg.external('fn:load_workbook', load_workbook, 'openpyxl.load_workbook(filename=path, read_only=True): the workbook object (K5)')

    def noop(ex, st, args, kwargs, node):
        return [(st, S.NONE)]
    reg.external('method:reset_dimensions', noop, 'worksheet.reset_dimensions(): no observable effect on the streamed cells (K5)')
    reg.external('method:close', noop, 'workbook.close()')

    def iter_rows(ex, st, args, kwargs, node):
        ws = args[0]
        return [(st, z3.Select(st.field('rows'), V.oid(ws)))]
    reg.external('method:iter_rows', iter_rows, 'worksheet.iter_rows() yields the rows of the sheet from row 1, missing rows / cells '
                 'padded (K5): modelled as the list field `rows`')

    def susp(ex, st, args, kwargs, node):
        v = ex.need_term(args[-1])
        r = SUSP(v)
        return [(st.add(is_('List', r)), r)]
    reg.external('Excel._get_suspicious_constructions', susp, 'same, called on the class')
    reg.external('method:_get_suspicious_constructions', susp, 'Excel._get_suspicious_constructions(value): abstract here (two re.findall; bounded in C19)')

    K5 = ('is_obj(wb(path)) and is_list(wb(path).worksheets) and '
          'all(is_obj(wb(path).worksheets[s]) and allocated(wb(path).worksheets[s]) and is_str(wb(path).worksheets[s].title) and is_list(wb(path).worksheets[s].rows) and '
          'all(is_list(wb(path).worksheets[s].rows[i]) and all(is_obj(wb(path).worksheets[s].rows[i][j]) and allocated(wb(path).worksheets[s].rows[i][j]) and '
          'not is_obj(wb(path).worksheets[s].rows[i][j].value) and '
          'wb(path).worksheets[s].rows[i][j].row == i + 1 and is_str(wb(path).worksheets[s].rows[i][j].column_letter) and '
          'S(wb(path).worksheets[s].rows[i][j].column_letter) == letters(j + 1) '
          'for j in range(len(wb(path).worksheets[s].rows[i]))) for i in range(len(wb(path).worksheets[s].rows))) '
          'for s in range(len(wb(path).worksheets)))')
    F = ['worksheets', 'title', 'rows', 'value', 'row', 'column_letter', 'text', 'sheetnames']
    P = {'path': 'str'}
    WS = 'wb(path).worksheets'
    data_inv = ('all(is_list({d}[i]) and len({d}[i]) == len({rows}[i]) and '
                'all({d}[i][j] == {rows}[i][j].value for j in range(len({d}[i]))) for i in range(len({d})))')
    reg.add(Contract(
        'Excel.parse/data', 'repo:excel.py:Excel.parse#head2:worksheets_data', P, self_class='Excel', fields=F, requires=[K5],
        ensures={
            'one_entry_per_sheet': f'is_list(result) and len(result) == len({WS})',
            'true_coordinates': f'all(is_list(result[s]) and len(result[s]) == len({WS}[s].rows) and '
                                f'all(is_list(result[s][i]) and len(result[s][i]) == len({WS}[s].rows[i]) and '
                                f'all(result[s][i][j] == {WS}[s].rows[i][j].value for j in range(len(result[s][i]))) '
                                f'for i in range(len(result[s]))) for s in range(len(result)))',
        },
        invariants={
            0: {'sheets': f'is_list(sheets_size) and is_list(worksheets_titles) and is_dict(suspicious_cells) and is_list(worksheets_data) and len(worksheets_data) == k0',
                'done': f'all(is_list(worksheets_data[s]) and len(worksheets_data[s]) == len({WS}[s].rows) and '
                        f'all(is_list(worksheets_data[s][i]) and len(worksheets_data[s][i]) == len({WS}[s].rows[i]) and '
                        f'all(worksheets_data[s][i][j] == {WS}[s].rows[i][j].value for j in range(len(worksheets_data[s][i]))) '
                        f'for i in range(len(worksheets_data[s]))) for s in range(len(worksheets_data)))'},
            1: {'rows': 'is_list(sheets_size) and is_list(worksheets_titles) and is_dict(suspicious_cells) and is_list(worksheet_data) and len(worksheet_data) == k1 and worksheet == ' + WS + '[k0] and is_int(max_row_len)',
                'done': data_inv.format(d='worksheet_data', rows='worksheet.rows'),
                'outer': f'is_list(worksheets_data) and len(worksheets_data) == k0 and '
                         f'all(is_list(worksheets_data[s]) and len(worksheets_data[s]) == len({WS}[s].rows) and '
                         f'all(is_list(worksheets_data[s][i]) and len(worksheets_data[s][i]) == len({WS}[s].rows[i]) and '
                         f'all(worksheets_data[s][i][j] == {WS}[s].rows[i][j].value for j in range(len(worksheets_data[s][i]))) '
                         f'for i in range(len(worksheets_data[s]))) for s in range(len(worksheets_data)))'},
            2: {'cells': 'is_list(sheets_size) and is_list(worksheets_titles) and is_dict(suspicious_cells) and is_int(max_row_len) and is_list(rows_data) and len(rows_data) == k2 and row == worksheet.rows[k1] and '
                         'all(rows_data[j] == row[j].value for j in range(len(rows_data)))',
                'mid': 'is_list(worksheet_data) and len(worksheet_data) == k1 and worksheet == ' + WS + '[k0] and ' +
                       data_inv.format(d='worksheet_data', rows='worksheet.rows'),
                'outer': f'is_list(worksheets_data) and len(worksheets_data) == k0 and '
                         f'all(is_list(worksheets_data[s]) and len(worksheets_data[s]) == len({WS}[s].rows) and '
                         f'all(is_list(worksheets_data[s][i]) and len(worksheets_data[s][i]) == len({WS}[s].rows[i]) and '
                         f'all(worksheets_data[s][i][j] == {WS}[s].rows[i][j].value for j in range(len(worksheets_data[s][i]))) '
                         f'for i in range(len(worksheets_data[s]))) for s in range(len(worksheets_data)))'},
        },
        notes='data[s][i][j] is the value of the cell openpyxl streams as the j-th cell of the i-th row of the s-th worksheet: '
              'with the K5 contract (row i is sheet row i+1, element j is column j+1) every cell is seen at its true (sheet, '
              'column, row). ArrayFormula values are outside this contract (bounded). Dropped by the extraction: wb.close() and '
              'the constructor call'))

    reg.add(Contract(
        'Excel.parse/titles', 'repo:excel.py:Excel.parse#head2:worksheets_titles', P, self_class='Excel', fields=F, requires=[K5],
        ensures={'titles_of_the_worksheets_read': f'is_list(result) and len(result) == len({WS}) and '
                                                  f'all(result[s] == {WS}[s].title for s in range(len(result)))'},
        invariants={
            0: {'types': 'is_list(sheets_size) and is_list(worksheets_titles) and is_dict(suspicious_cells) and is_list(worksheets_data)',
                'done': f'len(worksheets_titles) == k0 and all(worksheets_titles[s] == {WS}[s].title for s in range(len(worksheets_titles)))'},
            1: {'types': 'is_list(sheets_size) and is_list(worksheets_titles) and is_dict(suspicious_cells) and is_list(worksheets_data) and '
                         'is_list(worksheet_data) and is_int(max_row_len) and worksheet == ' + WS + '[k0]',
                'outer': f'len(worksheets_titles) == k0 + 1 and all(worksheets_titles[s] == {WS}[s].title for s in range(len(worksheets_titles)))'},
            2: {'types': 'is_list(sheets_size) and is_list(worksheets_titles) and is_dict(suspicious_cells) and is_list(worksheets_data) and '
                         'is_list(worksheet_data) and is_int(max_row_len) and worksheet == ' + WS + '[k0] and is_list(rows_data) and '
                         'row == worksheet.rows[k1]',
                'outer': f'len(worksheets_titles) == k0 + 1 and all(worksheets_titles[s] == {WS}[s].title for s in range(len(worksheets_titles)))'},
        },
        notes='the i-th reported title is the title of the i-th worksheet whose cells were read (so title -> index agrees with '
              'data and sizes); K3 obligation C18.Excel.parse.titles_returned checks that this list is what the constructor gets'))
    TYI = 'is_list(sheets_size) and is_list(worksheets_titles) and is_dict(suspicious_cells) and is_list(worksheets_data)'
    size_of = ('is_dict({z}) and has({z}, "last_row") and has({z}, "last_column") and get({z}, "last_row") == len({rows}) and '
               'is_int(get({z}, "last_column")) and all(I(get({z}, "last_column")) >= len({rows}[i]) for i in range(len({rows}))) and '
               '(I(get({z}, "last_column")) == 0 or any(I(get({z}, "last_column")) == len({rows}[i]) for i in range(len({rows}))))')
    reg.add(Contract(
        'Excel.parse/sizes', 'repo:excel.py:Excel.parse#head2:sheets_size', P, self_class='Excel', fields=F, requires=[K5],
        ensures={'per_sheet': f'is_list(result) and len(result) == len({WS}) and all(' +
                              size_of.format(z='result[s]', rows=f'{WS}[s].rows') + f' for s in range(len(result)))'},
        invariants={
            0: {'types': TYI, 'done': 'len(sheets_size) == k0 and all(' + size_of.format(z='sheets_size[s]', rows=f'{WS}[s].rows') +
                                      ' for s in range(len(sheets_size)))'},
            1: {'types': TYI + ' and is_list(worksheet_data) and len(worksheet_data) == k1 and worksheet == ' + WS + '[k0]',
                'max': 'is_int(max_row_len) and I(max_row_len) >= 0 and all(I(max_row_len) >= len(worksheet.rows[i]) for i in range(k1)) and '
                       '(I(max_row_len) == 0 or any(I(max_row_len) == len(worksheet.rows[i]) for i in range(k1)))',
                'outer': 'len(sheets_size) == k0 and all(' + size_of.format(z='sheets_size[s]', rows=f'{WS}[s].rows') +
                         ' for s in range(len(sheets_size)))'},
            2: {'types': TYI + ' and is_list(worksheet_data) and len(worksheet_data) == k1 and worksheet == ' + WS + '[k0] and '
                               'is_list(rows_data) and len(rows_data) == k2 and row == worksheet.rows[k1]',
                'max': 'is_int(max_row_len) and I(max_row_len) >= 0 and all(I(max_row_len) >= len(worksheet.rows[i]) for i in range(k1)) and '
                       '(I(max_row_len) == 0 or any(I(max_row_len) == len(worksheet.rows[i]) for i in range(k1)))',
                'outer': 'len(sheets_size) == k0 and all(' + size_of.format(z='sheets_size[s]', rows=f'{WS}[s].rows') +
                         ' for s in range(len(sheets_size)))'},
        },
        notes='the reported size of a sheet is (row count, length of its longest streamed row): last_row == number of rows, '
              'last_column is an upper bound of every row length and is attained (or 0); per sheet, not a running maximum'))
    KEY = ('("\'" + S({ws}.title) + "\'" + S({cell}.column_letter) + int_str({cell}.row))')
    from contracts import c02 as _c02
    reg.specfns['int_str'] = _c02.registry_uid().specfns['int_str']
    reg.add(Contract(
        'Excel.parse/report', 'repo:excel.py:Excel.parse#head2:suspicious_cells', P, self_class='Excel', fields=F,
        requires=[K5, 'all(all(all(is_int({c}.row) for j in range(len({w}.rows[i]))) for i in range(len({w}.rows))) for s in range(len({WS})))'
                  .format(c=f'{WS}[s].rows[i][j]', w=f'{WS}[s]', WS=WS)],
        ensures={'every_suspicious_cell_listed': f'is_dict(result) and all(all(all(implies(truthy({WS}[s].rows[i][j].value) and '
                                                 f'len(susp({WS}[s].rows[i][j].value)) > 0, has(result, ' +
                                                 KEY.format(ws=f'{WS}[s]', cell=f'{WS}[s].rows[i][j]') + ')) '
                                                 f'for j in range(len({WS}[s].rows[i]))) for i in range(len({WS}[s].rows))) '
                                                 f'for s in range(len({WS})))'},
        invariants={
            0: {'types': TYI,
                'done': f'all(all(all(implies(truthy({WS}[s].rows[i][j].value) and len(susp({WS}[s].rows[i][j].value)) > 0, '
                        'has(suspicious_cells, ' + KEY.format(ws=f'{WS}[s]', cell=f'{WS}[s].rows[i][j]') + ')) '
                        f'for j in range(len({WS}[s].rows[i]))) for i in range(len({WS}[s].rows))) for s in range(k0))'},
            1: {'types': TYI + ' and is_list(worksheet_data) and is_int(max_row_len) and worksheet == ' + WS + '[k0]',
                'outer': f'all(all(all(implies(truthy({WS}[s].rows[i][j].value) and len(susp({WS}[s].rows[i][j].value)) > 0, '
                         'has(suspicious_cells, ' + KEY.format(ws=f'{WS}[s]', cell=f'{WS}[s].rows[i][j]') + ')) '
                         f'for j in range(len({WS}[s].rows[i]))) for i in range(len({WS}[s].rows))) for s in range(k0))',
                'sheet': 'all(all(implies(truthy(worksheet.rows[i][j].value) and len(susp(worksheet.rows[i][j].value)) > 0, '
                         'has(suspicious_cells, ' + KEY.format(ws='worksheet', cell='worksheet.rows[i][j]') + ')) '
                         'for j in range(len(worksheet.rows[i]))) for i in range(k1))'},
            2: {'types': TYI + ' and is_list(worksheet_data) and is_int(max_row_len) and worksheet == ' + WS + '[k0] and '
                               'is_list(rows_data) and row == worksheet.rows[k1]',
                'outer': f'all(all(all(implies(truthy({WS}[s].rows[i][j].value) and len(susp({WS}[s].rows[i][j].value)) > 0, '
                         'has(suspicious_cells, ' + KEY.format(ws=f'{WS}[s]', cell=f'{WS}[s].rows[i][j]') + ')) '
                         f'for j in range(len({WS}[s].rows[i]))) for i in range(len({WS}[s].rows))) for s in range(k0))',
                'sheet': 'all(all(implies(truthy(worksheet.rows[i][j].value) and len(susp(worksheet.rows[i][j].value)) > 0, '
                         'has(suspicious_cells, ' + KEY.format(ws='worksheet', cell='worksheet.rows[i][j]') + ')) '
                         'for j in range(len(worksheet.rows[i]))) for i in range(k1))',
                'row': 'all(implies(truthy(row[j].value) and len(susp(row[j].value)) > 0, '
                       'has(suspicious_cells, ' + KEY.format(ws='worksheet', cell='row[j]') + ')) for j in range(k2))'},
        },
        notes='every cell with a truthy value and a non-empty list of suspicious fragments is listed under the key '
              "'<title>'<column letter of the cell><row number of the cell> (K5: these attributes are the true coordinates)"))
    return reg
