#!/usr/bin/env python3
"""Maintenance (by hand, never at check time): after triage, record the bounded-check failure keys that currently fire for
a property as OPEN known findings.  usage: tools/kf_add.py CNN key1 [key2 ...]   (keys must appear in replays/ of the last run)"""
import glob, json, os, sys
HERE = os.path.dirname(os.path.dirname(os.path.abspath(__file__)))
pid, keys = sys.argv[1], set(sys.argv[2:])
ALL = keys == {'ALL'}
kf_path = os.path.join(HERE, 'known_findings.json')
kf = json.load(open(kf_path))
have = {f['key'] for f in kf['findings']}
found = {}
for f in sorted(glob.glob(os.path.join(HERE, 'replays', pid, '*.json')), key=os.path.getmtime):
    p = json.load(open(f))
    k = p.get('finding_key')
    if k and (ALL or k in keys) and p.get('kind') == 'K4':
        found[k] = p
if ALL:
    keys = set(found)
n = len([f for f in kf['findings'] if f['property'] == pid and f.get('status') == 'open'])
for k in sorted(keys):
    if k in have:
        print('already recorded', k)
        continue
    if k not in found:
        print('NOT FOUND in replays:', k)
        continue
    p = found[k]
    n += 1
    while f'{pid}-K{n}' in {f['id'] for f in kf['findings']}:
        n += 1
    kf['findings'].append({'id': f'{pid}-K{n}', 'property': pid, 'key': k, 'status': 'open',
                           'what': p['detail'][:400], 'witness': p['replay'], 'check': p['obligation']})
    print('added', f'{pid}-K{n}', k, '|', p['detail'][:140])
json.dump(kf, open(kf_path, 'w'), indent=1, ensure_ascii=False)
