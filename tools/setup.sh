#!/bin/sh
# Offline setup: verifies the tools the checks need and byte-compiles pv. Installs nothing.
set -e
cd "$(dirname "$0")/.."
python3-vt -c "import z3; assert z3.get_version_string().startswith('5.'), z3.get_version_string()"
/venv/bin/python -c "import openpyxl, dateutil"
test -x /usr/bin/z3 && test -x /usr/bin/cvc5
python3-vt -m compileall -q pv props contracts >/dev/null
echo setup-ok
