#!/usr/bin/env python3
"""Regenerate the mechanical parts of DESIGN.md section 0 from the artefacts the machinery itself writes:
known_findings.json (fixes, open findings), evidence/*.json (per-property coverage of the last run), selftest/results.json
(which check catches which change).  The text between `<!-- BEGIN GENERATED name -->` and `<!-- END GENERATED name -->`
markers is replaced; everything else in DESIGN.md is hand-written.   usage: python3 tools/gen_design_tables.py"""
import json, os, re, subprocess
HERE = os.path.dirname(os.path.dirname(os.path.abspath(__file__)))


def load(p, default=None):
    p = os.path.join(HERE, p)
    return json.load(open(p)) if os.path.exists(p) else default


def fixes():
    kf = load('known_findings.json')
    log = subprocess.run(['git', '-C', '/repo', 'log', '--reverse', '--format=%h %s'], capture_output=True, text=True).stdout
    commits = [l.split(' ', 1) for l in log.splitlines() if l.split(' ', 1)[1].startswith('fix:')]
    by_commit = {}
    for f in kf['findings']:
        if f['status'].startswith('fixed'):
            by_commit.setdefault(f.get('commit'), []).append(f)
    out = ['| # | commit | fix | properties | what failed before (witness of the check that fired) |', '|---|---|---|---|---|']
    for i, (h, title) in enumerate(commits, 1):
        fs = by_commit.get(h, [])
        props = ' '.join(sorted({f['property'] for f in fs})) or '-'
        what = (fs[0]['what'] if fs else '(recorded under another entry)')[:170].replace('|', '\\|').replace('\n', ' ')
        out.append(f'| F{i:02d} | `{h}` | {title[5:].strip()} | {props} | {what} |')
    missing = [h for h in by_commit if h not in {c[0] for c in commits}]
    if missing:
        out.append(f'\n(entries naming commits not in `git log`: {missing})')
    return '\n'.join(out)


def open_findings():
    kf = load('known_findings.json')
    out = ['| id | key | what fails (input -> observed, expected) |', '|---|---|---|']
    for f in kf['findings']:
        if f['status'] == 'open':
            out.append(f"| {f['id']} | `{f['key']}` | {f['what'][:230].replace('|', chr(92) + '|').replace(chr(10), ' ')} |")
    return '\n'.join(out)


def per_property():
    out = ['| id | level | obligations (discharged) by kind | K1 functions under contract | bounded evaluations | open findings | quick wall |',
           '|---|---|---|---|---|---|---|']
    kf = load('known_findings.json')
    for i in range(1, 21):
        pid = f'C{i:02d}'
        ev = load(f'evidence/{pid}.json')
        if not ev:
            out.append(f'| {pid} | (no evidence file) | | | | | |')
            continue
        c = ev['coverage']
        kinds = ' '.join(f"{k} {v['discharged']}/{v['obligations']}" for k, v in sorted(c.get('by_kind', {}).items()))
        fu = c.get('functions_under_contract') or []
        fu = list(fu)
        nopen = sum(1 for f in kf['findings'] if f['property'] == pid and f['status'] == 'open')
        out.append(f"| {pid} | {ev['level']} | {kinds} | {len(fu)} | {c.get('evaluations', 0)} | {nopen} | {ev['wall_s']:.0f} s |")
    return '\n'.join(out)


def functions():
    out = []
    for i in range(1, 21):
        pid = f'C{i:02d}'
        ev = load(f'evidence/{pid}.json')
        if not ev:
            continue
        fu = list(ev['coverage'].get('functions_under_contract') or [])
        if fu:
            out.append(f'* **{pid}**: ' + ', '.join(f'`{x}`' for x in fu))
    return '\n'.join(out)


def matrix():
    res = load('selftest/results.json', {})
    notes = load('selftest/notes.json', {})
    if not res:
        return '(selftest has not been run)'
    rows = {'seeded': [], 'rev': [], 'mut': [], 'preserving': []}
    for cid, r in sorted(res.items()):
        if re.fullmatch(r'C\d\d[A-Z]', cid) and not os.path.exists(os.path.join(HERE, 'seeded', cid, 'patch.diff')):
            continue                                  # a retired seed (seeded/_retired)
        if not r.get('applies'):
            rows['rev' if cid.startswith('rev:') else 'mut'].append((cid, r, 'does not apply to the current tree'))
            continue
        exits = {p: c['exit'] for p, c in r['checks'].items()}
        by = sorted({b for c in r['checks'].values() for b in c.get('by', [])})
        if r['kind'] == 'preserving':
            verdict = 'quiet' if all(e == 0 for e in exits.values()) else 'FALSE ALARM'
            rows['preserving'].append((cid, r, verdict))
            continue
        verdict = 'caught' if any(e == 1 for e in exits.values()) else ('not reported - ' + notes[cid] if cid in notes else 'MISSED')
        kinds = []
        for b in by:
            kinds.append('K4 ' + b if '.monitor.' in b else b)
        grp = 'seeded' if re.fullmatch(r'C\d\d[A-Z]', cid) else 'rev' if cid.startswith('rev:') else 'mut'
        rows[grp].append((cid, r, verdict + (': ' + '; '.join(kinds[:4]) if kinds else '')))
    out = []
    names = {'seeded': 'Seeded changes (independent sub-agents, `seeded/<id>/`)', 'rev': 'Reverse of each `fix:` commit (the pre-fix behaviour)',
             'mut': 'Design-round mutation corpus (`selftest/mutations.json`)', 'preserving': 'Property-preserving changes (must stay quiet)'}
    for g in ('seeded', 'rev', 'mut', 'preserving'):
        if not rows[g]:
            continue
        n_ok = sum(1 for _, _, v in rows[g] if v.startswith('caught') or v == 'quiet')
        n_exp = sum(1 for _, _, v in rows[g] if v.startswith('not reported - '))
        n_na = sum(1 for _, _, v in rows[g] if v.startswith('does not'))
        out.append(f'\n**{names[g]}** - {n_ok} of {len(rows[g]) - n_na} ' + ('quiet' if g == 'preserving' else 'reported') + (f', {n_exp} not reported for the reason given' if n_exp else '') +
                   (f' ({n_na} no longer apply to the current tree)' if n_na else '') + '\n')
        out.append('| change | what | result: obligations / bounded checks that reported it |')
        out.append('|---|---|---|')
        for cid, r, v in rows[g]:
            out.append(f"| {cid} | {r.get('what', '')[:90].replace('|', chr(92) + '|')} | {v.replace('|', chr(92) + '|')[:330]} |")
    return '\n'.join(out)


def explanations():
    out = []
    for i in range(1, 21):
        pid = f'C{i:02d}'
        ev = load(f'evidence/{pid}.json')
        if not ev:
            continue
        exp = (ev['coverage'].get('explanation') or '').strip()
        out.append(f'* **{pid}** ({ev["level"]}): {exp}')
    return '\n'.join(out)


GEN = {'explanations': explanations, 'fixes': fixes, 'open_findings': open_findings, 'per_property': per_property, 'functions': functions, 'matrix': matrix}


def main():
    p = os.path.join(HERE, 'DESIGN.md')
    s = open(p, encoding='utf-8').read()
    for name, fn in GEN.items():
        a, b = f'<!-- BEGIN GENERATED {name} -->', f'<!-- END GENERATED {name} -->'
        if a in s and b in s:
            i, j = s.index(a) + len(a), s.index(b)
            s = s[:i] + '\n' + fn() + '\n' + s[j:]
            print('regenerated', name)
    open(p, 'w', encoding='utf-8').write(s)


main()
