#!/bin/sh
# developer tool: run every quick check under several VERIF_SEED values; evidence goes to .scratch (the committed evidence is not touched)
cd "$(dirname "$0")/.."
for sd in "$@"; do
  export VERIF_SEED=$sd PV_EVIDENCE_DIR=$PWD/.scratch/ev_s$sd
  mkdir -p "$PV_EVIDENCE_DIR"
  seq -w 1 20 | xargs -P 4 -I{} sh -c "./check C{} > .scratch/s${sd}_C{}.out 2>&1; echo seed $sd C{} \$?"
done
