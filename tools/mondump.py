#!/usr/bin/env python3
"""Developer tool: run bounded monitors and store their raw results under .scratch/ (for triage)."""
import json, os, sys, time
sys.path.insert(0, os.path.dirname(os.path.dirname(os.path.abspath(__file__))))
from pv import native
os.makedirs('/verif/.scratch', exist_ok=True)
tier = os.environ.get('TIER', 'quick')
for m in sys.argv[1:]:
    t = time.time()
    try:
        r = native.call(m, 'run', tier=tier, seed=0, timeout=7200)
        json.dump(r, open(f'/verif/.scratch/{m}.{tier}.json', 'w'), indent=1)
        for c in r['checks']:
            print(m, c['name'], 'evals', c['evaluations'], 'fails', len(c['failures']), 'sec', round(c.get('seconds', 0), 1), flush=True)
            for f in c['failures']:
                print('    ', f['key'], '|', f['what'][:160], flush=True)
    except Exception as e:
        print(m, 'ERROR', repr(e)[:500], flush=True)
    print(m, 'wall', round(time.time() - t, 1), flush=True)
