#!/usr/bin/env python3
"""Maintenance (by hand, never at check time): copy the number of failing evaluations that the last run of a tier measured
under each OPEN known-finding key (evidence/<id>.json: coverage.known_finding_counts) into known_findings.json, so that a later
run with MORE failures under the same key is reported as a violation.   usage: tools/kf_counts.py [CNN ...]"""
import glob, json, os, sys
HERE = os.path.dirname(os.path.dirname(os.path.abspath(__file__)))
kf_path = os.path.join(HERE, 'known_findings.json')
kf = json.load(open(kf_path))
ids = sys.argv[1:] or sorted({f['property'] for f in kf['findings']})
n = 0
for pid in ids:
    p = os.path.join(os.environ.get('PV_EVIDENCE_DIR') or os.path.join(HERE, 'evidence'), pid + '.json')
    if not os.path.exists(p):
        continue
    ev = json.load(open(p))
    counts = ev['coverage'].get('known_finding_counts') or {}
    for f in kf['findings']:
        if f['property'] == pid and f['status'] == 'open' and counts.get(f['key']) is not None:
            f.setdefault('counts', {})[f"{ev['tier']}:{ev['seed']}"] = counts[f['key']]
            n += 1
json.dump(kf, open(kf_path, 'w'), indent=1, ensure_ascii=False)
print('recorded', n, 'counts')
