#!/usr/bin/env python3
"""Regenerates /verif/MANIFEST.json from the table below (edit the table, run, commit)."""
import json
import os

HERE = os.path.dirname(os.path.dirname(os.path.abspath(__file__)))
BASELINE = ("cd /repo && /venv/bin/python -m pytest -ra -q -p no:cacheprovider --timeout=900 "
            "--continue-on-collection-errors")

# id -> (category, technique, text, note, design_ref)
def _load_checks():
    """category / texts are taken from the property modules (LEVEL, EXPLANATION) so that MANIFEST and evidence agree."""
    import importlib
    import sys
    sys.path.insert(0, HERE)
    out = {}
    for pid, tech, note in TECH:
        try:
            m = importlib.import_module(f'props.{pid.lower()}')
        except Exception:  # noqa
            continue
        out[pid] = (getattr(m, 'LEVEL', 'other'), tech, getattr(m, 'EXPLANATION', ''), note, f'DESIGN.md 5 {pid}')
    return out


K1T = ('contract-based deductive verification: VCs generated from the AST of the real functions by symbolic execution '
       '(loop invariants, modular calls, frames), discharged by z3; ')
TECH = [
    ('C01', K1T + 'ExpressionTokenTranslator._group (precedence tree of the operand chain, operands and operators kept in order; three nested loops, dictionary of waiting levels, sequences in continuation form) with K2 facts tying the chain model to the real grammar data and _level; schema contracts on the real translators (operator table, mixed-level emission); K2 CPython precedence table; K3 EmptyCell; bounded-exhaustive grammar enumeration against a spec evaluator as labelled stand-in',
     'Bounded: tree -> text for every tree (_translate_tree), the signs a leaf collects, literal -> double. Trusted: L-SUBST, L-OPG, CPython ast.'),
    ('C02', K1T + 'K2 exhaustive column-letter check; schema contracts on the reference translators; bounded monitor for the reference regexes',
     'Bounded: the three reference regexes (back-references), A:C areas. Trusted: R-VIEW list model, prelude.'),
    ('C03', K1T + 'Context.get_cell / set_cell, CellTranslator._set_cell_to_context / translate / translate_file over an abstract formula translator (every reference names a registered uid; whole-file translation registers every listed cell); structural single-producer and marker-discipline obligations; bounded differential monitors (entry-point vs whole-file, cycles, far cells)',
     'Bounded: faithfulness and cycle rejection over graph shapes. Assumed: Excel.get_cells returns fresh, filled Cell objects (C02 / C18).'),
    ('C04', K1T + 'chain set_cells -> flush -> set_arguments -> _cell_preprocessor -> get_cell; bounded history monitor',
     'Assumes A-ALIAS; set_cells proved for normalised identifiers (normalisation = handle_cell contract).'),
    ('C05', K1T + 'CompositeBaseToken.get / _get (ordered-choice parser: consumed prefix, leaves in order, shape of a token set; own contract as induction hypothesis, two lemmas proved by induction) and AstBuilder.parse; K2 lexer progress / no left recursion on the real grammar data; bounded monitor for the regex lexer',
     'CompositeBaseToken.get / _get proved (dynamic class dispatch modelled by class values; functools.lru_cache is a K5 assumption); the regex lexer is bounded.'),
    ('C06', K1T + 'named partial operations + LEMMA uid is an identifier + K2 every schema emission is an expression; bounded totality monitor',
     'Everything not named is bounded. RecursionError / memory not modelled.'),
    ('C07', 'structural taint obligations on the AST of the real translators (repr quoting, single format call) + schema round-trip rows; bounded payload monitor',
     'Pattern / criterion literal positions are bounded only.'),
    ('C08', K1T + 'Executor query frames and the whole-sheet grid with nested loop invariants; K3 runtime frame scan; bounded schedule monitor',
     'Assumes A-ALIAS, A-STATIC.'),
    ('C09', K1T + 'Parser state machine with a class invariant kept on normal AND exceptional exits over an abstract deterministic pipeline; K3 nondeterminism scan; bounded determinism monitor',
     'The pipeline behind the facade is abstracted by assumed contracts; threads not decided.'),
    ('C10', K1T + 'the comparison ladder over the whole scalar value universe with the extracted EmptyCell methods; LEMMA laws from the postconditions; bounded grid monitor',
     'A-REAL is exact for comparing given doubles; |int| <= 2**53.'),
    ('C11', K1T + 'element-level filter contracts + _flatten_list with recursion; K3 fold shapes; schema binding; bounded planted-content monitor',
     'Sum identities in exact arithmetic only (A-REAL).'),
    ('C12', K1T + 'marking loops of SUMIFS / COUNTIFS / AVERAGEIFS / SUMIF with abstract total criteria (mechanical head extraction); _accepts for typed criteria (21 instances: a number, a boolean, a date, or one of the six operators joined to such an operand); schema binding; bounded criterion-semantics monitor',
     'Criteria written as text (operator prefix parsing, wildcards, numeric and date texts: str / re / dateutil) bounded; 1 and 2 pairs proved.'),
    ('C13', K1T + '_ifs / _iferror / _find_error_in_list; schema shapes (IfExp, lambda guard) + L-SUBST; bounded nest monitor',
     'Laziness is CPython IfExp / lambda semantics (trusted).'),
    ('C14', K1T + '_index / _match / _xmatch / _vlookup with loop invariants; K2 ADDRESS and COLUMN over all 16384 columns; schema defaults; bounded planted-table monitor',
     'Approximate MATCH with text values bounded (string-order transitivity times out).'),
    ('C15', K1T + 'date helpers under K5 calendar contracts (closed-form ordinals, shared decomposition functions) with K2 conformance against the real libraries; schema binding; bounded sweep',
     'K5 calendar contracts assumed + conformance-checked; holidays bounded.'),
    ('C16', 'bounded run-time contract monitor: exhaustive decimal grid against integer-arithmetic / decimal oracles; schema binding of the translators is the only proved part',
     'Decimal <-> binary conversion is outside the solvers and the encoding (A-REAL): bounded only.'),
    ('C17', K1T + '_left / _right / _mid in z3 string theory + LEMMA REBUILD; _excel_value_to_string (text form of a text, a blank, a boolean, a whole number, a date); schema binding; bounded monitor for SEARCH / VALUE',
     'SEARCH and VALUE (re, str.replace chains, strptime) bounded.'),
    ('C18', K1T + 'Excel.parse over an abstract worksheet stream (three nested loops: data, titles, sizes, safety report) and _fill_cell; K3 constant emission through repr; bounded sparse-layout monitor',
     'openpyxl cell stream assumed (abstract stream contract).'),
    ('C19', K1T + 'gate clauses of Parser._translate (incl. exceptional exits); K3 shapes of is_safe and the report key; bounded monitor for the regexes and addresses',
     'The two re.findall patterns bounded.'),
    ('C20', 'structural contract: AST identity of every duplicated helper + same helper set (exhaustive)',
     'Trusted: CPython ast; A-STATIC (no reflection/monkey-patching); the rendered template is obtained by running the real Context().build_class() and TEMPLATE.fields checks it is a literal prefix of every generated module.'),
]
CLAIMED = os.environ.get('PV_CLAIM', '').split(',') if os.environ.get('PV_CLAIM') else None
NOT_YET = {}


def main():
    props = [json.loads(l) for l in open(os.path.join(HERE, 'properties.jsonl'))]
    checks, na = [], []
    CHECKS = _load_checks()
    claimed = set(json.load(open(os.path.join(HERE, 'tools', 'claimed.json'))))
    CHECKS = {k: v for k, v in CHECKS.items() if k in claimed}
    for p in props:
        pid = p['id']
        if pid in CHECKS:
            cat, tech, text, note, ref = CHECKS[pid]
            checks.append({
                'property_id': pid,
                'quick_cmd': f'./check {pid} --tier quick',
                'thorough_cmd': f'./check {pid} --tier thorough',
                'evidence_file': f'/verif/evidence/{pid}.json',
                'replay_cmd_template': './check --replay {path}',
                'engine': 'pv',
                'level_claimed': {'category': cat, 'text': text, 'design_ref': ref},
                'level_note': note,
                'technique': tech,
            })
        else:
            na.append({'property_id': pid, 'reason': NOT_YET.get(
                pid, 'check not built yet in this round (build in progress; see DESIGN.md 5 for the planned contracts)')})
    m = {
        'version': 1,
        'setup_cmd': './tools/setup.sh',
        'hooks': {'guard': 'E2PYCL_VERIF', 'enable': 'no hooks: contracts are sidecar files under /verif/contracts; '
                  'the real functions are reached by AST extraction and by import in /venv/bin/python',
                  'baseline_off_cmd': BASELINE, 'source_commits': [], 'add_only': True},
        'engines': [{'name': 'pv', 'path': '/verif/pv', 'serves_properties': sorted(CHECKS) if False else sorted(json.load(open(os.path.join(HERE, 'tools', 'claimed.json')))),
                     'kind_free_text': 'contract-based deductive verification: VC generation from the real functions\' '
                     'ASTs (symbolic execution, loop invariants, modular calls) discharged by z3; finite-exhaustive, '
                     'structural and schema obligations; bounded run-time contract monitors as labelled stand-ins'}],
        'checks': checks,
        'not_applicable': na,
        'notes': 'Exit codes of ./check: 0 held, 1 violation, 2 undecided, 3 checker fault. E2PYCL_REPO points the '
                 'machinery at another tree (default /repo). Fixes of genuine defects are unguarded "fix:" commits in '
                 '/repo, recorded in known_findings.json.',
    }
    with open(os.path.join(HERE, 'MANIFEST.json'), 'w') as f:
        json.dump(m, f, indent=1)
    print(f'{len(checks)} checks, {len(na)} not_applicable')


if __name__ == '__main__':
    main()
