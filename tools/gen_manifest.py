#!/usr/bin/env python3
"""Regenerates /verif/MANIFEST.json from the table below (edit the table, run, commit)."""
import json
import os

HERE = os.path.dirname(os.path.dirname(os.path.abspath(__file__)))
BASELINE = ("cd /repo && /venv/bin/python -m pytest -ra -q -p no:cacheprovider --timeout=900 "
            "--continue-on-collection-errors")

# id -> (category, technique, text, note, design_ref)
CHECKS = {
    'C20': ('proof', 'structural contract: AST identity of every duplicated helper + same helper set (exhaustive)',
            'Every helper of AbstractExcelInPython and of the rendered class template is compared as an AST after '
            'dropping docstrings and annotations; identical code under identically bound imports computes identical '
            'results, so the property holds for every argument, not a sample. The helper-name sets are compared '
            'exhaustively. A helper whose ASTs differ is not proved: it falls to a bounded differential run.',
            'Trusted: CPython ast; A-STATIC (no reflection/monkey-patching); the rendered template is obtained by '
            'running the real Context().build_class() and TEMPLATE.fields checks it is a literal prefix of every '
            'generated module.', 'DESIGN.md 5 C20'),
}
NOT_YET = {}


def main():
    props = [json.loads(l) for l in open(os.path.join(HERE, 'properties.jsonl'))]
    checks, na = [], []
    for p in props:
        pid = p['id']
        if pid in CHECKS:
            cat, tech, text, note, ref = CHECKS[pid]
            checks.append({
                'property_id': pid,
                'quick_cmd': f'./check {pid} --tier quick',
                'thorough_cmd': f'./check {pid} --tier thorough',
                'evidence_file': f'/verif/evidence/{pid}.json',
                'replay_cmd_template': './check --replay {path}',
                'engine': 'pv',
                'level_claimed': {'category': cat, 'text': text, 'design_ref': ref},
                'level_note': note,
                'technique': tech,
            })
        else:
            na.append({'property_id': pid, 'reason': NOT_YET.get(
                pid, 'check not built yet in this round (build in progress; see DESIGN.md 5 for the planned contracts)')})
    m = {
        'version': 1,
        'setup_cmd': './tools/setup.sh',
        'hooks': {'guard': 'E2PYCL_VERIF', 'enable': 'no hooks: contracts are sidecar files under /verif/contracts; '
                  'the real functions are reached by AST extraction and by import in /venv/bin/python',
                  'baseline_off_cmd': BASELINE, 'source_commits': [], 'add_only': True},
        'engines': [{'name': 'pv', 'path': '/verif/pv', 'serves_properties': sorted(CHECKS),
                     'kind_free_text': 'contract-based deductive verification: VC generation from the real functions\' '
                     'ASTs (symbolic execution, loop invariants, modular calls) discharged by z3; finite-exhaustive, '
                     'structural and schema obligations; bounded run-time contract monitors as labelled stand-ins'}],
        'checks': checks,
        'not_applicable': na,
        'notes': 'Exit codes of ./check: 0 held, 1 violation, 2 undecided, 3 checker fault. E2PYCL_REPO points the '
                 'machinery at another tree (default /repo). Fixes of genuine defects are unguarded "fix:" commits in '
                 '/repo, recorded in known_findings.json.',
    }
    with open(os.path.join(HERE, 'MANIFEST.json'), 'w') as f:
        json.dump(m, f, indent=1)
    print(f'{len(checks)} checks, {len(na)} not_applicable')


if __name__ == '__main__':
    main()
