#!/usr/bin/env python3
"""Validate seeded changes: each must apply to the current /repo HEAD, keep the 44 pinned tests green, and make its
demonstration fail (exit 1) while the demonstration passes (exit 0) on the unchanged tree.
usage: tools/seedcheck.py [ids...]   -> prints one line per seed, rewrites seeded/<id>/patch.diff when a 3-way rebase was needed"""
import json, os, shutil, subprocess, sys, tempfile
HERE = os.path.dirname(os.path.dirname(os.path.abspath(__file__)))
SEEDS = os.path.join(HERE, 'seeded')


def run(cmd, cwd, timeout=900):
    p = subprocess.run(cmd, cwd=cwd, shell=isinstance(cmd, str), capture_output=True, text=True, timeout=timeout)
    return p.returncode, (p.stdout + p.stderr)[-2000:]


def main():
    ids = sys.argv[1:] or sorted(d for d in os.listdir(SEEDS) if os.path.exists(os.path.join(SEEDS, d, 'patch.diff')))
    for sid in ids:
        d = os.path.join(SEEDS, sid)
        tmp = tempfile.mkdtemp(prefix='seedchk_')
        try:
            tree = os.path.join(tmp, 'r')
            run(['git', 'clone', '-q', '/repo', tree], tmp)
            patch = os.path.join(d, 'patch.diff')
            rc, out = run(['git', 'apply', '--whitespace=nowarn', patch], tree)
            rebased = False
            if rc != 0:
                rc, out = run(['git', 'apply', '--3way', '--whitespace=nowarn', patch], tree)
                rebased = rc == 0
                if rc != 0:
                    print(f'{sid}: DOES NOT APPLY ({out.strip().splitlines()[-1][:120] if out.strip() else ""})')
                    continue
                run('git reset -q', tree)
            if rebased:
                rc2, diff = run('git diff', tree)
                open(patch, 'w').write(subprocess.run('git diff', cwd=tree, shell=True, capture_output=True, text=True).stdout)
            rc_demo_clean, o0 = run(['/venv/bin/python', os.path.join(d, 'demo.py')], '/repo')
            rc_t, out_t = run('/venv/bin/python -m pytest -q -p no:cacheprovider 2>&1 | tail -1', tree)
            rc_demo, o1 = run(['/venv/bin/python', os.path.join(d, 'demo.py')], tree)
            ok = ('44 passed' in out_t) and rc_demo == 1 and rc_demo_clean == 0
            meta_p = os.path.join(d, 'meta.json')
            meta = json.load(open(meta_p)) if os.path.exists(meta_p) else {}
            meta.update({'id': sid, 'property': sid[:3], 'applies_to': subprocess.run(['git', '-C', '/repo', 'rev-parse', '--short', 'HEAD'], capture_output=True, text=True).stdout.strip(),
                         'rebased_3way': rebased or meta.get('rebased_3way', False),
                         'pinned_tests_with_change': out_t.strip()[-60:], 'demo_exit_unchanged': rc_demo_clean,
                         'demo_exit_with_change': rc_demo, 'confirmed': ok,
                         'ran': 'tools/seedcheck.py: git apply on a scratch clone of /repo HEAD; pinned pytest; demo.py with and without the change'})
            json.dump(meta, open(meta_p, 'w'), indent=1)
            print(f'{sid}: {"OK" if ok else "NOT CONFIRMED"} tests=[{out_t.strip()[-40:]}] demo clean={rc_demo_clean} changed={rc_demo}' + (' (rebased)' if rebased else ''))
        finally:
            shutil.rmtree(tmp, ignore_errors=True)

main()
