#!/usr/bin/env python3
"""Developer tool: run the K1 engine on the contracts of one contract module and print every obligation.
usage: python3-vt tools/k1try.py contracts.rt [contract names...]   (env TIER=quick|thorough, REPLAY=1)"""
import importlib, os, sys, time
sys.path.insert(0, os.path.dirname(os.path.dirname(os.path.abspath(__file__))))
from pv import k1, native

def main():
    modname = sys.argv[1]
    from pv.contract import load_registry
    reg = load_registry(modname)
    names = sys.argv[2:] or list(reg.contracts)
    tier = os.environ.get('TIER', 'quick')
    for n in names:
        t = time.time()
        r = k1.run_contract(reg, reg.contracts[n], tier, '', modname)
        print(f'== {n} {r["stats"]} err={r.get("error")} imprecise={r.get("imprecise")}')
        for o in r['obs']:
            flag = '' if o['status'] == 'discharged' else '   <<<<<<'
            if o['status'] == 'discharged' and not os.environ.get('ALL'):
                continue
            print(f'   {o["name"]:70s} {o["status"]:10s} {o["seconds"]:.2f}s n={o["n"]} {flag}')
            if o['status'] != 'discharged':
                print('        ', o['detail'][:300])
                if o.get('witness'):
                    print('         args:', str(o['witness'].get('args'))[:600])
                    if os.environ.get('REPLAY'):
                        try:
                            rr = native.call('k1replay', 'replay', timeout=60, payload=o['witness'])
                            print('         native:', rr['fails'], rr['text'][:400])
                        except Exception as e:
                            print('         native replay error', repr(e)[:300])
        nd = sum(1 for o in r['obs'] if o['status'] == 'discharged')
        print(f'   -> {nd}/{len(r["obs"])} discharged in {time.time()-t:.1f}s')

main()
