#!/usr/bin/env python3
"""Developer tool: run all (or named) contracts of a module in the process pool and summarise."""
import importlib, os, sys, time
sys.path.insert(0, os.path.dirname(os.path.dirname(os.path.abspath(__file__))))
from pv import k1
modname = sys.argv[1]
from pv.contract import load_registry
names = sys.argv[2:] or list(load_registry(modname).contracts)
t = time.time()
res = k1.run_contracts(modname, names, os.environ.get('TIER', 'quick'), '')
tot = dis = 0
for r in res:
    if r.get('error'):
        print('CRASH', r['contract'], r['error'][-600:]); continue
    bad = [o for o in r['obs'] if o['status'] != 'discharged']
    tot += len(r['obs']); dis += len(r['obs']) - len(bad)
    print(f"{r['contract']:42s} {len(r['obs'])-len(bad)}/{len(r['obs'])} {r['stats'].get('total_s','')}s" + ''.join(f"\n      {o['name']} {o['status']} {o['detail'][:160]}" for o in bad))
print(f'TOTAL {dis}/{tot} in {time.time()-t:.1f}s')
