#!/bin/sh
# developer tool: run every thorough check once (evidence to .scratch/ev_th, the committed quick evidence is not touched)
cd "$(dirname "$0")/.."
export PV_EVIDENCE_DIR=$PWD/.scratch/ev_th
mkdir -p "$PV_EVIDENCE_DIR"
seq -w 1 20 | xargs -P ${1:-3} -I{} sh -c "/usr/bin/time -f 'C{} %e s' ./check C{} --tier thorough > .scratch/th_C{}.out 2>&1; echo thorough C{} \$?"
