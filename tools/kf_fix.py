#!/usr/bin/env python3
"""Maintenance (by hand): mark open known findings as repaired by a "fix:" commit of /repo.
usage: tools/kf_fix.py <commit> key1 [key2 ...]"""
import json, os, subprocess, sys
HERE = os.path.dirname(os.path.dirname(os.path.abspath(__file__)))
commit, keys = sys.argv[1], set(sys.argv[2:])
title = subprocess.check_output(['git', '-C', os.environ.get('E2PYCL_REPO', '/repo'), 'log', '-1', '--format=%s', commit], text=True).strip()
assert title.startswith('fix:'), title
p = os.path.join(HERE, 'known_findings.json')
kf = json.load(open(p))
for f in kf['findings']:
    if f['key'] in keys and f['status'] == 'open':
        f['status'] = f"fixed: property={f['property']} {commit} {f['what'][:300]}"
        f['commit'] = commit
        f['title'] = title
        keys.discard(f['key'])
        print('fixed', f['id'], f['key'])
for k in keys:
    print('NOT OPEN / NOT FOUND', k)
json.dump(kf, open(p, 'w'), indent=1, ensure_ascii=False)
