import sys, json, time
sys.path.insert(0,'/verif')
from pv import native
t=time.time()
r=native.call(sys.argv[1],'run',tier=sys.argv[2] if len(sys.argv)>2 else 'quick',seed=0,timeout=3000)
for c in r['checks']:
    print(c['name'], 'evals',c['evaluations'],'fails',len(c['failures']), 'sec', round(c.get('seconds',0),1))
    for f in c['failures'][:40]: print('   ',f['key'],'|',f['what'][:200])
print('wall',round(time.time()-t,1))
