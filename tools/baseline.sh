#!/bin/sh
# runs the pinned baseline command against a tree (default /repo); prints the pytest summary line
R=${1:-/repo}
cd "$R" && /venv/bin/python -m pytest -ra -q -p no:cacheprovider --timeout=900 --continue-on-collection-errors 2>&1 | tail -3
