#!/usr/bin/env python3
"""Self-test of the machinery against property-breaking and property-preserving changes (DESIGN 4 item 4).

For every change (selftest/mutations.json m.. / r.., the reverse of each fix: commit of /repo, every confirmed seeded change
under seeded/) a scratch copy of /repo is made OUTSIDE /repo and /verif, the change applied, the check(s) of the property it
targets run with E2PYCL_REPO pointing at the copy, and the copy removed.  Expected: exit 1 with a VIOLATION line for breaking
changes, exit 0 for preserving ones.  Results go to selftest/results.json (and a table for DESIGN.md).

usage: tools/selftest.py [--only m13b,C04A,...] [--jobs N] [--tier quick]"""
import argparse, json, os, re, shutil, subprocess, sys, tempfile, time
from concurrent.futures import ThreadPoolExecutor
HERE = os.path.dirname(os.path.dirname(os.path.abspath(__file__)))


def changes():
    out = []
    d = json.load(open(os.path.join(HERE, 'selftest', 'mutations.json')))
    for m in d['breaking']:
        out.append({'id': m['id'], 'kind': 'breaking', 'props': [m['property']], 'what': m['what'], 'apply': ('edit', m['id'])})
    for m in d['preserving']:
        out.append({'id': m['id'], 'kind': 'preserving', 'props': m.get('properties') or [], 'what': m['what'], 'apply': ('edit', m['id'])})
    kf = json.load(open(os.path.join(HERE, 'known_findings.json')))
    seen = set()
    for f in kf['findings']:
        if f.get('commit') and f['status'].startswith('fixed'):
            key = (f['commit'], f['property'])
            if key in seen:
                continue
            seen.add(key)
            out.append({'id': f'rev:{f["commit"]}/{f["property"]}', 'kind': 'breaking', 'props': [f['property']],
                        'what': 'pre-fix behaviour: ' + f['what'][:100], 'apply': ('rev', f['commit'])})
    sd = os.path.join(HERE, 'seeded')
    for s in sorted(os.listdir(sd)):
        mp = os.path.join(sd, s, 'meta.json')
        if os.path.exists(mp) and json.load(open(mp)).get('confirmed'):
            out.append({'id': s, 'kind': 'breaking', 'props': [s[:3]], 'what': 'seeded by an independent sub-agent',
                        'apply': ('patch', os.path.join(sd, s, 'patch.diff'))})
    return out


def run_one(ch, tier):
    tmp = tempfile.mkdtemp(prefix='pvself_')
    tree = os.path.join(tmp, 'repo')
    res = {'id': ch['id'], 'kind': ch['kind'], 'what': ch['what'], 'checks': {}}
    try:
        shutil.copytree('/repo', tree, ignore=shutil.ignore_patterns('.git', '__pycache__', '*.pyc', '.pytest_cache'))
        how, arg = ch['apply']
        if how == 'edit':
            r = subprocess.run([sys.executable, os.path.join(HERE, 'tools', 'apply_edit.py'), arg, tree], capture_output=True, text=True)
        elif how == 'rev':
            diff = subprocess.run(['git', '-C', '/repo', 'show', '--format=', arg], capture_output=True, text=True).stdout
            subprocess.run(['git', 'init', '-q'], cwd=tree)
            r = subprocess.run(['git', 'apply', '-R', '--whitespace=nowarn', '-'], cwd=tree, input=diff, capture_output=True, text=True)
        else:
            subprocess.run(['git', 'init', '-q'], cwd=tree)
            r = subprocess.run(['git', 'apply', '--whitespace=nowarn', arg], cwd=tree, capture_output=True, text=True)
        if r.returncode != 0:
            res['applies'] = False
            res['note'] = (r.stdout + r.stderr)[-200:]
            return res
        res['applies'] = True
        t = subprocess.run('/venv/bin/python -m pytest -q -p no:cacheprovider 2>&1 | tail -1', shell=True, cwd=tree, capture_output=True, text=True)
        res['pinned_tests'] = t.stdout.strip()[-50:]
        props = ch['props'] or ['C20']
        for pid in props:
            env = dict(os.environ, E2PYCL_REPO=tree, PV_EVIDENCE_DIR=os.path.join(tmp, 'ev'), PV_REPLAY_DIR=os.path.join(tmp, 'rp'))
            t0 = time.time()
            p = subprocess.run([os.path.join(HERE, 'check'), pid, '--tier', tier], env=env, capture_output=True, text=True, timeout=3600)
            out = p.stdout
            viol = [l for l in out.splitlines() if l.startswith('VIOLATION')]
            names = re.findall(r'^  (?:obligation|bounded-check)=(\S+)', out, re.M)
            res['checks'][pid] = {'exit': p.returncode, 'violations': len(viol), 'by': sorted(set(names))[:12],
                                  'degraded': len([l for l in out.splitlines() if l.startswith('DEGRADED')]),
                                  'fault': 'CHECKER-FAULT' in out, 'seconds': round(time.time() - t0, 1)}
        return res
    finally:
        shutil.rmtree(tmp, ignore_errors=True)


def main():
    ap = argparse.ArgumentParser()
    ap.add_argument('--only')
    ap.add_argument('--jobs', type=int, default=4)
    ap.add_argument('--tier', default='quick')
    a = ap.parse_args()
    chs = changes()
    if a.only:
        want = set(a.only.split(','))
        chs = [c for c in chs if c['id'] in want or c['id'].split('/')[0] in want]
    results = []
    with ThreadPoolExecutor(a.jobs) as ex:
        for r in ex.map(lambda c: run_one(c, a.tier), chs):
            results.append(r)
            ok = None
            if r.get('applies'):
                exits = [c['exit'] for c in r['checks'].values()]
                ok = (any(e == 1 for e in exits) if r['kind'] == 'breaking' else all(e == 0 for e in exits))
            print(f"{r['id']:24s} {r['kind']:10s} applies={r.get('applies')} tests=[{r.get('pinned_tests', '')}] "
                  f"{'CAUGHT' if ok and r['kind'] == 'breaking' else 'QUIET' if ok else 'MISSED' if ok is False and r['kind'] == 'breaking' else 'FALSE-ALARM' if ok is False else 'n/a'} "
                  + ' '.join(f"{p}:exit{c['exit']}/{c['violations']}v/{c['degraded']}d{'/FAULT' if c['fault'] else ''}" for p, c in r['checks'].items()), flush=True)
    path = os.path.join(HERE, 'selftest', 'results.json')
    old = json.load(open(path)) if os.path.exists(path) else {}
    for r in results:
        old[r['id']] = r
    json.dump(old, open(path, 'w'), indent=1, sort_keys=True)

main()
