#!/usr/bin/env python3
"""Run a command against a scratch copy of /repo with a recorded edit or a patch applied.
usage: tools/mut.py <mutation id | Fxx | path/to/patch.diff | none> -- <command ...>
The copy lives in a temporary directory outside /repo and /verif and is removed afterwards; the command gets
E2PYCL_REPO=<copy>."""
import os, shutil, subprocess, sys, tempfile
HERE = os.path.dirname(os.path.dirname(os.path.abspath(__file__)))

def main():
    what = sys.argv[1]
    assert sys.argv[2] == '--'
    cmd = sys.argv[3:]
    d = tempfile.mkdtemp(prefix='pvmut_')
    tree = os.path.join(d, 'repo')
    try:
        shutil.copytree('/repo', tree, ignore=shutil.ignore_patterns('.git', '__pycache__', '*.pyc', '.pytest_cache'))
        if what == 'none':
            pass
        elif what.startswith('rev:'):
            # undo one fix: commit of /repo, reverse-applied to the copy
            diff = subprocess.run(['git', '-C', '/repo', 'show', '--format=', what[4:]], capture_output=True, text=True, check=True).stdout
            subprocess.run(['git', 'init', '-q'], cwd=tree, check=True)
            r = subprocess.run(['git', 'apply', '-R', '--whitespace=nowarn', '-'], cwd=tree, input=diff, text=True)
            if r.returncode != 0:
                print('REVERSE PATCH DOES NOT APPLY'); return 4
        elif what.endswith('.diff') or what.endswith('.patch'):
            subprocess.run(['git', 'init', '-q'], cwd=tree, check=True)
            r = subprocess.run(['git', 'apply', '--whitespace=nowarn', os.path.abspath(what)], cwd=tree)
            if r.returncode != 0:
                print('PATCH DOES NOT APPLY'); return 4
        else:
            r = subprocess.run([sys.executable, os.path.join(HERE, 'tools', 'apply_edit.py'), what, tree])
            if r.returncode != 0:
                print('EDIT DOES NOT APPLY'); return 4
        env = dict(os.environ, E2PYCL_REPO=tree)
        if os.environ.get('MUT_TESTS'):
            t = subprocess.run('/venv/bin/python -m pytest -q -p no:cacheprovider -x 2>&1 | tail -1', shell=True, cwd=tree, capture_output=True, text=True)
            print('pinned tests on the mutated tree:', t.stdout.strip())
        return subprocess.run(cmd, env=env, cwd=HERE).returncode
    finally:
        shutil.rmtree(d, ignore_errors=True)

sys.exit(main())
