#!/usr/bin/env python3
"""Apply a recorded edit (fixes/candidates.json Fxx or selftest/mutations.json mxx/rxx) to a tree.
usage: apply_edit.py <id> [<repo root, default /repo>]
'old' must occur exactly once in the file; with also_abstract the same edit (with '{{'->'{', '}}'->'}') is applied
to utilities/abstract_excel_in_python_class.py."""
import json
import os
import sys

HERE = os.path.dirname(os.path.dirname(os.path.abspath(__file__)))


def load(i):
    if i.startswith('F'):
        d = json.load(open(os.path.join(HERE, 'fixes', 'candidates.json')))
        for f in d['fixes']:
            if f['id'] == i:
                return f['edits'], f['title']
    else:
        d = json.load(open(os.path.join(HERE, 'selftest', 'mutations.json')))
        for m in d['breaking'] + d['preserving']:
            if m['id'] == i:
                if 'edits' in m:
                    return m['edits'], m['what']
                return [m], m['what']
    raise SystemExit(f'unknown id {i}')


def apply(path, old, new):
    s = open(path, encoding='utf-8').read()
    if s.count(old) != 1:
        raise SystemExit(f'{path}: old text occurs {s.count(old)} times')
    open(path, 'w', encoding='utf-8').write(s.replace(old, new))


def main():
    i = sys.argv[1]
    root = sys.argv[2] if len(sys.argv) > 2 else '/repo'
    src = os.path.join(root, 'excel2pycl', 'src')
    edits, title = load(i)
    for e in edits:
        apply(os.path.join(src, e['file']), e['old'], e['new'])
        if e.get('also_abstract'):
            apply(os.path.join(src, 'utilities/abstract_excel_in_python_class.py'),
                  e['old'].replace('{{', '{').replace('}}', '}'), e['new'].replace('{{', '{').replace('}}', '}'))
    print(title)


if __name__ == '__main__':
    main()
