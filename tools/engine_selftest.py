#!/usr/bin/env python3
"""Engine self-test (developer tool, run with python3-vt): exact contracts of small functions must be proved, wrong ones must not."""
import os, sys
sys.path.insert(0, os.path.dirname(os.path.dirname(os.path.abspath(__file__))))
from pv import k1
from pv.contract import load_registry
import contracts.engine_selftest as E
import copy

reg = load_registry('contracts.engine_selftest:registry')
bad = 0
for name, con in reg.contracts.items():
    r = k1.run_contract(reg, con, 'quick', '', 'contracts.engine_selftest')
    ok = all(o['status'] == 'discharged' for o in r['obs']) and r['obs']
    print(f'{name:22s} exact contract: {"proved" if ok else "NOT PROVED"}  ({len(r["obs"])} obligations, paths {r["stats"].get("paths")})')
    if not ok:
        bad += 1
        for o in r['obs']:
            if o['status'] != 'discharged':
                print('    ', o['name'], o['status'], o['detail'][:200])
    if name in E.CANARIES:
        clause, text = E.CANARIES[name]
        c2 = copy.copy(con)
        c2.ensures = dict(con.ensures)
        c2.ensures[clause] = text
        r2 = k1.run_contract(reg, c2, 'quick', '', 'contracts.engine_selftest', timeout_ms=3000, retry=False)
        st = [o['status'] for o in r2['obs'] if o['name'].endswith('post.' + clause)]
        caught = st and st[0] != 'discharged'
        print(f'{"":22s} wrong contract: {"rejected (" + st[0] + ")" if caught else "PROVED - ENGINE FAULT"}')
        if not caught:
            bad += 1
sys.exit(1 if bad else 0)
