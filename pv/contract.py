"""Contracts, spec functions and the registry (z3-free: imported on the native side as well)."""


class Contract:
    """Sidecar contract of one real function (DESIGN 2.1).

    params      ordered {name: sort spec}; sort specs: V int str bool float list tuple dict none datetime date fn
                num obj:<Class> list:<spec> and alternatives joined by '|'
    requires    spec expressions over the parameters (pre-state)
    ensures     {clause: spec expression over parameters, result, old(...)}
    raises      {exception class: spec expression over the pre-state}: raised if and only if it holds
    invariants  {loop ordinal (source order): {clause: spec expression}}; may use k<ordinal>, pre(...)
    modifies    heap fields the function may write (havocked at modular call sites)
    fields      heap fields the function reads or writes (declared so that the heap model is explicit)
    """

    def __init__(self, name, target, params, requires=(), ensures=None, raises=None, invariants=None,
                 modifies=(), fields=(), callees=None, self_class=None, inline=(), notes='',
                 free_exceptions=(), total_fns=(), assumes=(), unroll=(), max_paths=4000, vararg_params=None, ensures_on_raise=None):
        self.name, self.target = name, target
        self.params = dict(params)
        self.requires = list(requires)
        self.ensures = dict(ensures or {})
        self.raises = dict(raises or {})
        self.invariants = invariants or {}
        self.modifies = list(modifies)
        self.fields = list(fields)
        self.callees = callees or {}
        self.self_class = self_class
        self.inline = set(inline)
        self.notes = notes
        self.free_exceptions = set(free_exceptions)   # exception classes the contract says nothing about
        self.total_fns = set(total_fns)               # Fn parameters assumed total (never raise)
        self.assumes = list(assumes)                  # K5-style assumptions (listed in evidence)
        self.unroll = set(unroll)
        self.max_paths = max_paths
        self.ensures_on_raise = dict(ensures_on_raise or {})   # state clauses that must hold at every exceptional exit
        self.vararg_params = vararg_params     # names of the positionals bound to *args (fixed-arity instance)


class SpecFn:
    """A specification function: z3 builder + native Python implementation."""

    def __init__(self, name, z3fn, pyfn, doc=''):
        self.name, self.z3fn, self.pyfn, self.doc = name, z3fn, pyfn, doc


class Registry:
    """Contracts, spec functions, class tables and external (K5) models visible to the executor."""

    def __init__(self):
        self.contracts = {}      # name -> Contract
        self.specfns = {}        # name -> SpecFn
        self.classes = {}        # class name -> {'fields': {name: default ast}, 'methods': {}, 'props': {}, 'target': str}
        self.externals = {}      # static path -> callable(ex, st, args, kwargs, node) -> list of (st, val) | Flow
        self.k5 = []             # descriptions of assumed external contracts
        self.append_lemmas = []  # callables (new_list, old_list) -> facts, instantiated at every list append
        self.axioms = []         # callables returning the defining axioms of recursive spec functions

    def add(self, c):
        self.contracts[c.name] = c
        return c

    def spec(self, name, z3fn, pyfn, doc=''):
        self.specfns[name] = SpecFn(name, z3fn, pyfn, doc)

    def external(self, path, fn, doc):
        self.externals[path] = fn
        self.k5.append(f'{path}: {doc}')


def load_registry(modname):
    """'contracts.rt' -> contracts.rt.registry();  'contracts.c02:registry_uid' -> that function."""
    import importlib
    mod, _, fn = modname.partition(':')
    return getattr(importlib.import_module(mod), fn or 'registry')()
