"""Run code on the real repository tree in a /venv/bin/python sub-process (the only place where
repository code is imported or executed)."""
import json
import os
import subprocess
import time

from . import VERIF, REPO, NATIVE_PY


class NativeError(RuntimeError):
    pass


def call(module, func, timeout=600, hashseed=None, **args):
    """Call pv.nat.<module>.<func>(**args) natively; returns its JSON result."""
    env = dict(os.environ)
    env['E2PYCL_REPO'] = REPO
    env['PYTHONPATH'] = REPO + os.pathsep + VERIF
    env['PYTHONDONTWRITEBYTECODE'] = '1'
    env['PYTHONWARNINGS'] = 'ignore'
    if hashseed is not None:
        env['PYTHONHASHSEED'] = str(hashseed)
    req = json.dumps({'module': module, 'func': func, 'args': args})
    t0 = time.time()
    try:
        p = subprocess.run([NATIVE_PY, '-W', 'ignore', os.path.join(VERIF, 'pv', 'nat', 'worker.py')],
                           input=req, capture_output=True, text=True, timeout=timeout, env=env, cwd=VERIF)
    except subprocess.TimeoutExpired:
        raise NativeError(f'native call {module}.{func} timed out after {timeout}s')
    if p.returncode != 0:
        raise NativeError(f'native call {module}.{func} failed rc={p.returncode}\n{p.stderr[-4000:]}')
    out = p.stdout
    mark = out.rfind('\n@@RESULT@@')
    if mark < 0 and out.startswith('@@RESULT@@'):
        mark = -1
    if mark < 0 and not out.startswith('@@RESULT@@'):
        raise NativeError(f'native call {module}.{func}: no result\nstdout={out[-2000:]}\nstderr={p.stderr[-2000:]}')
    payload = out[mark + 1 + len('@@RESULT@@'):] if mark >= 0 else out[len('@@RESULT@@'):]
    res = json.loads(payload)
    res_t = time.time() - t0
    if isinstance(res, dict):
        res.setdefault('_wall_s', round(res_t, 3))
    return res
