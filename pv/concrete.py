"""Encoding conformance (DESIGN 4 item 3): the engine's OWN symbolic semantics is run on concrete arguments and compared
with the real function in CPython.  A mismatch is an engine / prelude bug (exit 3), never a property verdict.

The arguments are asserted equal to constants; loops are unrolled (no contracts, no invariants); exactly one path must be
feasible; its outcome (returned value or exception class) is read from the solver model and compared with the native
outcome."""
import datetime

import z3

from . import sorts as T
from . import k1, native, codec
from .sorts import V, is_, ln, at
from .symexec import NotFormed, Flow, fresh, PyTuple, feasible


def encode(j, facts, heap=None, alloc=None):
    """codec JSON -> (z3 V term); list / dict facts appended to `facts`."""
    if j is None:
        return T.NONE
    if isinstance(j, bool):
        return T.vbool(j)
    if isinstance(j, int):
        return T.vint(j)
    if isinstance(j, str):
        return T.vstr(j)
    if isinstance(j, list):
        L = V.List(fresh('clist', T.I))
        facts.append(ln(L) == len(j))
        for i, x in enumerate(j):
            facts.append(at(L, i) == encode(x, facts, heap, alloc))
        return L
    if isinstance(j, dict):
        if '$e' in j:
            return T.EMPTY
        if '$f' in j:
            from fractions import Fraction
            fr = Fraction(float(j['$f']))
            return T.vfloat(z3.RealVal(f'{fr.numerator}/{fr.denominator}'))
        if '$dt' in j:
            y, m, d, hh, mi, ss = j['$dt'][:6]
            return V.DateTime(z3.IntVal(datetime.date(y, m, d).toordinal()), z3.IntVal(hh * 3600 + mi * 60 + ss))
        if '$d' in j:
            return V.Date(z3.IntVal(datetime.date(*j['$d']).toordinal()))
        if '$t' in j:
            L = V.Tuple(fresh('ctup', T.I))
            facts.append(ln(L) == len(j['$t']))
            for i, x in enumerate(j['$t']):
                facts.append(at(L, i) == encode(x, facts, heap, alloc))
            return L
        if '$m' in j:
            D = V.Dict(fresh('cdict', T.I))
            k = fresh('k')
            keys = [encode(a, facts, heap, alloc) for a, _ in j['$m']]
            facts.append(z3.ForAll([k], T.dhas(D, k) == (z3.Or([k == kk for kk in keys]) if keys else z3.BoolVal(False)),
                                   patterns=[T.dhas(D, k)]))
            for kk, (_, b) in zip(keys, j['$m']):
                facts.append(T.dget(D, kk) == encode(b, facts, heap, alloc))
            facts.append(T.dcount(D) == len(keys))
            return D
    raise NotFormed(f'conformance: cannot encode {j!r}')


def run_one(reg, con, args):
    """args: {param: codec json} (self omitted / ignored).  Returns ('ret', decoded) | ('exc', class) | ('skip', why)."""
    ex = k1.build_executor(reg, con, concrete=True)
    st = ex.initial_state()
    facts = []
    for p in con.params:
        if p == 'self':
            continue
        if p not in args:
            return ('skip', f'no value for {p}')
        facts.append(ex.param_terms[p] == encode(args[p], facts))
    st = st.add(*facts).mark('old')
    ex.entry = st
    fparams = [a.arg for a in ex.fn.args.posonlyargs + ex.fn.args.args]
    vparams = list(getattr(con, 'vararg_params', ()) or ())
    if ex.fn.args.vararg and vparams:
        st = st.setenv(ex.fn.args.vararg.arg, PyTuple([st.env[p] for p in vparams]))
    for p in fparams:
        if p not in con.params and p not in st.env:
            a = ex.fn.args
            allp = a.posonlyargs + a.args
            idx = [x.arg for x in allp].index(p)
            nd = len(a.defaults)
            if idx >= len(allp) - nd:
                st = st.setenv(p, ex.e_Constant(a.defaults[idx - (len(allp) - nd)], st)[0][1])
    import time
    ex.deadline = time.time() + 60
    flows = ex.ex_block(ex.fn.body, st)
    return ex, flows


def matches(term, j):
    """z3 Bool: the V term denotes the native (codec-encoded) value j"""
    if j is None:
        return is_('NoneV', term)
    if isinstance(j, bool):
        return term == T.vbool(j)
    if isinstance(j, int):
        return term == T.vint(j)
    if isinstance(j, str):
        return term == T.vstr(j)
    if isinstance(j, list):
        return z3.And(z3.Or(is_('List', term), is_('Tuple', term)), ln(term) == len(j), *[matches(at(term, i), x) for i, x in enumerate(j)])
    if isinstance(j, dict):
        if '$e' in j:
            return is_('Empty', term)
        if '$f' in j:
            from fractions import Fraction
            fr = Fraction(float(j['$f']))
            v = z3.RealVal(f'{fr.numerator}/{fr.denominator}')
            tol = z3.RealVal('1/1000000000') * z3.If(v >= 0, v + 1, 1 - v)
            return z3.And(is_('Float', term), V.fval(term) - v <= tol, v - V.fval(term) <= tol)
        if '$dt' in j:
            y, m, d, hh, mi, ss = j['$dt'][:6]
            return term == V.DateTime(z3.IntVal(datetime.date(y, m, d).toordinal()), z3.IntVal(hh * 3600 + mi * 60 + ss))
        if '$d' in j:
            return term == V.Date(z3.IntVal(datetime.date(*j['$d']).toordinal()))
        if '$t' in j:
            return matches(term, j['$t'])
        if '$int_sub' in j:
            return z3.BoolVal(True)
    return None


def check_one(reg, con, args, nat):
    """-> 'ok' | 'skip: why' | 'MISMATCH: why'.  Conformant iff every path the engine keeps feasible for these concrete
    arguments ends in the native outcome (validity query: facts => outcome matches)."""
    r = run_one(reg, con, args)
    if isinstance(r, tuple) and r[0] == 'skip':
        return 'skip: ' + r[1]
    ex, flows = r
    nat_exc = isinstance(nat, dict) and '$exc' in nat
    decided = 0
    for fl in flows:
        s = z3.Solver()
        s.set('timeout', 8000)
        s.add(*fl.st.all_facts())
        if fl.kind == 'exc':
            ok_static = nat_exc and (fl.val == nat['$exc'] or fl.val in nat.get('mro', ()))
            if ok_static:
                continue
            res = s.check()
            if res == z3.unsat:
                continue
            if res == z3.unknown:
                return 'skip: exceptional path undecided'
            return f'MISMATCH: engine keeps a path raising {fl.val} feasible; CPython returns {nat!r}'
        val = fl.val if fl.kind == 'ret' else T.NONE
        if isinstance(val, PyTuple):
            st2, val = ex.new_list(fl.st, val.items, tuple_=True)
            s = z3.Solver()
            s.set('timeout', 8000)
            s.add(*st2.all_facts())
        if nat_exc:
            res = s.check()
            if res == z3.unsat:
                continue
            if res == z3.unknown:
                return 'skip: normal path undecided'
            return f'MISMATCH: engine keeps a returning path feasible; CPython raises {nat["$exc"]}'
        m = matches(val, nat)
        if m is None:
            return 'skip: native result not comparable'
        s.add(z3.Not(m))
        res = s.check()
        if res == z3.unsat:
            decided += 1
            continue
        if res == z3.unknown:
            return 'skip: result query undecided'
        try:
            got = k1.decode(s.model(), val, fl.st, ex)
        except Exception:  # noqa
            got = '?'
        return f'MISMATCH: engine result {got!r}; CPython {nat!r}'
    return 'ok' if decided or nat_exc else 'skip: no path decided'


def eval_concrete(reg, con, argsets):
    """-> (checked, mismatches, skipped)"""
    mism, checked, skipped = [], 0, []
    natives = native.call('basic', 'call_target', target=con.target, params=[p for p in con.params if p != 'self'],
                          argsets=[[a.get(p) for p in con.params if p != 'self'] for a in argsets])['results']
    for a, nat in zip(argsets, natives):
        try:
            r = check_one(reg, con, a, nat)
        except NotFormed as e:
            r = f'skip: {e}'
        if r == 'ok':
            checked += 1
        elif r.startswith('skip'):
            skipped.append(r)
        else:
            checked += 1
            mism.append({'args': a, 'native': nat, 'what': r})
    return checked, mism, skipped


def _same(a, b):
    if isinstance(a, dict) and isinstance(b, dict) and '$f' in a and '$f' in b:
        return abs(float(a['$f']) - float(b['$f'])) <= 1e-9 * max(1.0, abs(float(b['$f'])))
    if isinstance(a, dict) and isinstance(b, dict) and '$t' in a and '$t' in b:
        return _same(a['$t'], b['$t'])
    if isinstance(a, list) and isinstance(b, list):
        return len(a) == len(b) and all(_same(x, y) for x, y in zip(a, b))
    if isinstance(a, bool) != isinstance(b, bool):
        return False
    return a == b
