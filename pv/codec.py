"""JSON codec for Python values exchanged between the orchestrator (3.11) and the native worker (3.12).

Pure stdlib, imported on both sides.  ints, strs, bools, None and lists are themselves; everything
else is a one-key tagged object.
"""
import datetime
import math


class EmptyStandIn:
    """Orchestrator-side stand-in for ExcelInPython.EmptyCell() (an int subclass equal to 0)."""
    _inst = None

    def __new__(cls):
        if cls._inst is None:
            cls._inst = object.__new__(cls)
        return cls._inst

    def __repr__(self):
        return 'EmptyCell()'


class Raised:
    """An exceptional outcome of a native call."""

    def __init__(self, cls, msg='', mro=()):
        self.cls, self.msg, self.mro = cls, msg, tuple(mro)

    def __repr__(self):
        return f'Raised({self.cls}: {self.msg[:80]})'

    def __eq__(self, other):
        return isinstance(other, Raised) and other.cls == self.cls

    def __hash__(self):
        return hash(('Raised', self.cls))

    def isa(self, name):
        return name == self.cls or name in self.mro


class Opaque:
    def __init__(self, text):
        self.text = text

    def __repr__(self):
        return f'<{self.text}>'


class FnTable:
    """A callable given by a finite table (decoded from solver models) with a default."""

    def __init__(self, table, default=None, raises=None, nullary=None):
        self.table, self.default, self.raises, self.nullary = table, default, raises or [], nullary

    def __call__(self, *a):
        if not a:
            if isinstance(self.nullary, Raised):
                raise RuntimeError(self.nullary.cls)
            return self.nullary
        key = a[0] if len(a) == 1 else tuple(a)
        for k, v in self.table:
            if type(k) is type(key) and k == key:
                if isinstance(v, Raised):
                    raise RuntimeError(v.cls)
                return v
        return self.default


def enc(v, is_empty=None):
    """Python value -> JSON-able."""
    if is_empty is not None and is_empty(v):
        return {'$e': 1}
    if isinstance(v, EmptyStandIn):
        return {'$e': 1}
    if v is None or isinstance(v, (bool, str)):
        return v
    if isinstance(v, int):
        return v if type(v) is int else {'$int_sub': int(v), 'cls': type(v).__name__}
    if isinstance(v, float):
        return {'$f': repr(v)}
    if isinstance(v, datetime.datetime):
        return {'$dt': [v.year, v.month, v.day, v.hour, v.minute, v.second, v.microsecond]}
    if isinstance(v, datetime.date):
        return {'$d': [v.year, v.month, v.day]}
    if isinstance(v, datetime.time):
        return {'$tm': [v.hour, v.minute, v.second, v.microsecond]}
    if isinstance(v, list):
        return [enc(i, is_empty) for i in v]
    if isinstance(v, tuple):
        return {'$t': [enc(i, is_empty) for i in v]}
    if isinstance(v, dict):
        return {'$m': [[enc(k, is_empty), enc(x, is_empty)] for k, x in v.items()]}
    if isinstance(v, (set, frozenset)):
        return {'$s': sorted((enc(i, is_empty) for i in v), key=repr)}
    if isinstance(v, Raised):
        return {'$exc': v.cls, 'msg': v.msg, 'mro': list(v.mro)}
    if isinstance(v, BaseException):
        return {'$exc': type(v).__name__, 'msg': str(v)[:300],
                'mro': [c.__name__ for c in type(v).__mro__]}
    if isinstance(v, FnTable):
        return {'$fn': [[enc(k, is_empty), enc(x, is_empty)] for k, x in v.table],
                'default': enc(v.default, is_empty)}
    if type(v).__name__ == 'Cell' and hasattr(v, '_handled_identifiers'):
        return {'$cell': [enc(v.title, is_empty), enc(v.column, is_empty), enc(v.row, is_empty),
                          enc(v.value, is_empty), bool(v._handled_identifiers)]}
    if isinstance(v, Opaque):
        return {'$repr': v.text}
    return {'$repr': repr(v)[:200]}


def dec(j, make_empty=EmptyStandIn, make_cell=None):
    """JSON-able -> Python value."""
    if j is None or isinstance(j, (bool, int, str)):
        return j
    if isinstance(j, float):
        return j
    if isinstance(j, list):
        return [dec(i, make_empty, make_cell) for i in j]
    if isinstance(j, dict):
        if '$e' in j:
            return make_empty()
        if '$f' in j:
            return float(j['$f'])
        if '$int_sub' in j:
            return j['$int_sub']
        if '$dt' in j:
            return datetime.datetime(*j['$dt'])
        if '$d' in j:
            return datetime.date(*j['$d'])
        if '$tm' in j:
            return datetime.time(*j['$tm'])
        if '$t' in j:
            return tuple(dec(i, make_empty, make_cell) for i in j['$t'])
        if '$m' in j:
            return {dec(k, make_empty, make_cell): dec(x, make_empty, make_cell) for k, x in j['$m']}
        if '$s' in j:
            return set(dec(i, make_empty, make_cell) for i in j['$s'])
        if '$exc' in j:
            return Raised(j['$exc'], j.get('msg', ''), j.get('mro', ()))
        if '$fn' in j:
            return FnTable([(dec(k, make_empty, make_cell), dec(x, make_empty, make_cell)) for k, x in j['$fn']],
                           dec(j.get('default'), make_empty, make_cell),
                           nullary=dec(j.get('nullary'), make_empty, make_cell))
        if '$lam' in j:
            return eval(j['$lam'], {'datetime': datetime, 'math': math})  # contract-authored text only
        if '$cell' in j:
            t, c, r, v, h = j['$cell']
            vals = [dec(x, make_empty, make_cell) for x in (t, c, r, v)]
            if make_cell is None:
                return ('Cell', *vals, h)
            return make_cell(*vals, h)
        if '$repr' in j:
            return Opaque(j['$repr'])
        if '$cls' in j:
            import builtins
            return {'NoneType': type(None), 'date': datetime.date, 'datetime': datetime.datetime,
                    'timedelta': datetime.timedelta}.get(j['$cls'], getattr(builtins, j['$cls'], object))
        if '$td' in j:
            return datetime.timedelta(days=j['$td'][0], seconds=j['$td'][1])
        if '$obj' in j:
            o = j['$obj']
            fields = {k: dec(x, make_empty, make_cell) for k, x in o['fields'].items()}
            return ('Obj', o.get('cls'), fields)
    raise ValueError(f'cannot decode {j!r}')


def same(a, b):
    """Strict equality: same type and equal (1 is not True, 1 is not 1.0); recursive on containers."""
    if isinstance(a, EmptyStandIn) or isinstance(b, EmptyStandIn):
        return isinstance(a, EmptyStandIn) and isinstance(b, EmptyStandIn)
    if type(a) is not type(b):
        return False
    if isinstance(a, (list, tuple)):
        return len(a) == len(b) and all(same(x, y) for x, y in zip(a, b))
    if isinstance(a, dict):
        return list(a.keys()) == list(b.keys()) and all(same(a[k], b[k]) for k in a)
    if isinstance(a, float):
        return a == b or (math.isnan(a) and math.isnan(b))
    if isinstance(a, Opaque):
        return a.text == b.text
    return a == b
