"""Evaluation of contract (spec) expressions: to z3 (total, no exceptions) and natively (for replay/monitors).

Spec expressions are Python expressions over parameters, `result`, old(...), pre(...), quantifiers written as
all(... for i in range(a, b)) / any(...), and spec functions.  Symbolically, a sub-expression has sort Bool,
Int, Real, String or V and is coerced where sorts meet: V is unwrapped with ival for arithmetic (use N(x) for
bool/blank-aware numbers, R(x) for reals, S(x) for strings); comparisons against V wrap the other side.
"""
import ast
import copy

import z3

from . import sorts as T
from .sorts import V, is_, ln, at
from .symexec import NotFormed, PyVal, PyTuple, fresh


def is_v(t):
    return z3.is_expr(t) and t.sort() == V


def to_v(t):
    if isinstance(t, PyVal):
        raise NotFormed('static value used where a term is needed in a spec')
    if isinstance(t, bool):
        return T.vbool(t)
    if isinstance(t, int):
        return T.vint(t)
    if isinstance(t, str):
        return T.vstr(t)
    if t is None:
        return T.NONE
    s = t.sort()
    if s == V:
        return t
    if s == T.I:
        return V.Int(t)
    if s == T.B:
        return V.Bool(t)
    if s == T.S:
        return V.Str(t)
    if s == T.R:
        return V.Float(t)
    raise NotFormed(f'cannot coerce sort {s} to V')


def to_int(t):
    if isinstance(t, bool):
        return z3.IntVal(int(t))
    if isinstance(t, int):
        return z3.IntVal(t)
    s = t.sort()
    if s == T.I:
        return t
    if s == V:
        return V.ival(t)
    if s == T.B:
        return z3.If(t, 1, 0)
    raise NotFormed(f'cannot coerce sort {s} to Int')


def to_real(t):
    if isinstance(t, (int, float)):
        return z3.RealVal(t)
    s = t.sort()
    if s == T.R:
        return t
    if s == T.I:
        return z3.ToReal(t)
    if s == V:
        return T.real_of(t)
    raise NotFormed(f'cannot coerce sort {s} to Real')


def to_str(t):
    if isinstance(t, str):
        return z3.StringVal(t)
    s = t.sort()
    if s == T.S:
        return t
    if s == V:
        return V.sval(t)
    raise NotFormed(f'cannot coerce sort {s} to String')


def to_bool(t):
    if isinstance(t, bool):
        return z3.BoolVal(t)
    s = t.sort()
    if s == T.B:
        return t
    if s == V:
        return T.truthy(t)
    if s == T.I:
        return t != 0
    raise NotFormed(f'cannot coerce sort {s} to Bool')


def _sort_of(t):
    if isinstance(t, bool):
        return T.B
    if isinstance(t, int):
        return T.I
    if isinstance(t, float):
        return T.R
    if isinstance(t, str):
        return T.S
    if t is None:
        return V
    return t.sort()


def _patterns(body, bound):
    """at(X, i) / user-function applications mentioning exactly the bound variables (R-TRIGGER)."""
    ids = {b.get_id() for b in bound}
    found = []
    seen = set()

    def mentions(e):
        st, ss = [e], set()
        got = set()
        while st:
            x = st.pop()
            if x.get_id() in ss:
                continue
            ss.add(x.get_id())
            if x.get_id() in ids:
                got.add(x.get_id())
            st.extend(x.children())
        return got

    def has_interp_arith(e):
        # patterns may not contain arithmetic on the bound variable in z3 reliably; we accept + constant
        return False

    todo = [body]
    while todo:
        x = todo.pop()
        if x.get_id() in seen:
            continue
        seen.add(x.get_id())
        if z3.is_app(x) and x.decl().kind() == z3.Z3_OP_UNINTERPRETED and x.num_args() > 0:
            m = mentions(x)
            if m and not _has_ite(x):
                found.append((x, m))
        if not z3.is_quantifier(x):
            todo.extend(x.children())
    # prefer the smallest terms covering all bound vars
    found.sort(key=lambda p: len(p[0].sexpr()))
    full = [t for t, m in found if m == ids]
    if full:
        # keep minimal ones (not containing another full pattern as a sub-term)
        keep = []
        for t in full:
            if not any(_contains(t, k) for k in keep):
                keep.append(t)
            if len(keep) >= 3:
                break
        return [k for k in keep]
    # multi-pattern: combine terms to cover all vars
    cover, pats = set(), []
    for t, m in found:
        if not m <= cover:
            pats.append(t)
            cover |= m
        if cover == ids:
            return [z3.MultiPattern(*pats)] if len(pats) > 1 else pats
    return []


def _has_ite(t):
    todo, seen = [t], set()
    while todo:
        x = todo.pop()
        if x.get_id() in seen:
            continue
        seen.add(x.get_id())
        if z3.is_app(x) and x.decl().kind() in (z3.Z3_OP_ITE, z3.Z3_OP_STORE):
            return True
        todo.extend(x.children())
    return False


def _contains(t, sub):
    todo, seen = [t], set()
    while todo:
        x = todo.pop()
        if x.get_id() in seen:
            continue
        seen.add(x.get_id())
        if x.get_id() == sub.get_id() and x is not t:
            return True
        todo.extend(x.children())
    return False


class SpecEval:
    """names: resolution for free names (params / locals); st: state whose heap is read; marks: named states."""

    def __init__(self, reg, st, names, marks=None, result=None, self_cls=None):
        self.reg, self.st, self.names, self.marks, self.result = reg, st, names, marks or {}, result
        self.binders = {}

    def sub(self, st=None, names=None):
        e = SpecEval(self.reg, st or self.st, names if names is not None else self.names, self.marks, self.result)
        e.binders = dict(self.binders)
        return e

    def eval_str(self, text):
        try:
            node = ast.parse(text.strip(), mode='eval').body
        except SyntaxError as e:
            raise NotFormed(f'spec syntax error in {text!r}: {e}')
        return to_bool(self.ev(node))

    # ------------------------------------------------------------------
    def ev(self, n):
        m = getattr(self, 'ev_' + type(n).__name__, None)
        if m is None:
            raise NotFormed(f'spec construct {type(n).__name__} unsupported')
        return m(n)

    def ev_Constant(self, n):
        v = n.value
        if v is None:
            return T.NONE
        if isinstance(v, bool):
            return z3.BoolVal(v)
        if isinstance(v, int):
            return z3.IntVal(v)
        if isinstance(v, float):
            return z3.RealVal(repr(v))
        if isinstance(v, str):
            return z3.StringVal(v)
        raise NotFormed(f'spec constant {v!r}')

    def ev_Name(self, n):
        i = n.id
        if i in self.binders:
            return self.binders[i]
        if i == 'result' and self.result is not None:
            return self.result
        if i in self.names:
            v = self.names[i]
            return v
        if i == 'EMPTY':
            return T.EMPTY
        if i == 'maxid':
            return self.st.maxid
        raise NotFormed(f'spec name {i} is not a parameter, local, binder or constant')

    def ev_Attribute(self, n):
        o = self.ev(n.value)
        if isinstance(o, PyVal):
            raise NotFormed('attribute of a static value in spec')
        return z3.Select(self.st.field(n.attr), V.oid(to_v(o)))

    def ev_Subscript(self, n):
        o = self.ev(n.value)
        if isinstance(n.slice, ast.Slice):
            raise NotFormed('slices are not supported in specs (use spec functions)')
        i = self.ev(n.slice)
        if isinstance(o, PyTuple):
            if isinstance(n.slice, ast.Constant):
                return o.items[n.slice.value]
            raise NotFormed('static tuple indexed by a non-constant in spec')
        if _sort_of(o) == T.S:
            return z3.SubString(o, to_int(i), 1)
        if _sort_of(i) in (T.S,) or (is_v(i) and False):
            return T.dget(to_v(o), to_v(i))
        return at(to_v(o), to_int(i))

    def ev_BoolOp(self, n):
        vals = [to_bool(self.ev(v)) for v in n.values]
        return z3.And(vals) if isinstance(n.op, ast.And) else z3.Or(vals)

    def ev_UnaryOp(self, n):
        v = self.ev(n.operand)
        if isinstance(n.op, ast.Not):
            return z3.Not(to_bool(v))
        if isinstance(n.op, ast.USub):
            return -to_real(v) if _sort_of(v) == T.R else -to_int(v)
        raise NotFormed('spec unary op')

    def ev_IfExp(self, n):
        c = to_bool(self.ev(n.test))
        a, b = self.ev(n.body), self.ev(n.orelse)
        a, b = self._unify(a, b)
        return z3.If(c, a, b)

    def _unify(self, a, b):
        sa, sb = _sort_of(a), _sort_of(b)
        if sa == sb:
            return self._lift(a), self._lift(b)
        if V in (sa, sb):
            return to_v(a), to_v(b)
        if T.R in (sa, sb):
            return to_real(a), to_real(b)
        if T.I in (sa, sb) and T.B in (sa, sb):
            return to_int(a), to_int(b)
        raise NotFormed(f'spec: cannot unify sorts {sa} and {sb}')

    def _lift(self, a):
        if z3.is_expr(a):
            return a
        if isinstance(a, bool):
            return z3.BoolVal(a)
        if isinstance(a, int):
            return z3.IntVal(a)
        if isinstance(a, str):
            return z3.StringVal(a)
        if a is None:
            return T.NONE
        return a

    def ev_BinOp(self, n):
        a, b = self.ev(n.left), self.ev(n.right)
        sa, sb = _sort_of(a), _sort_of(b)
        op = n.op
        if T.S in (sa, sb) and isinstance(op, ast.Add):
            return z3.Concat(to_str(a), to_str(b))
        if T.R in (sa, sb):
            x, y = to_real(a), to_real(b)
            if isinstance(op, ast.Add):
                return x + y
            if isinstance(op, ast.Sub):
                return x - y
            if isinstance(op, ast.Mult):
                return x * y
            if isinstance(op, ast.Div):
                return x / y
            raise NotFormed('spec real op')
        x, y = to_int(a), to_int(b)
        if isinstance(op, ast.Add):
            return x + y
        if isinstance(op, ast.Sub):
            return x - y
        if isinstance(op, ast.Mult):
            return x * y
        if isinstance(op, ast.FloorDiv):
            return x / y      # spec floor division: divisor must be positive
        if isinstance(op, ast.Mod):
            return x % y
        raise NotFormed('spec int op')

    def ev_Compare(self, n):
        left = self.ev(n.left)
        parts = []
        for op, rn in zip(n.ops, n.comparators):
            right = self.ev(rn)
            parts.append(self._cmp(op, left, right))
            left = right
        return z3.And(parts) if len(parts) > 1 else parts[0]

    def _cmp(self, op, a, b):
        sa, sb = _sort_of(a), _sort_of(b)
        if isinstance(op, (ast.Eq, ast.NotEq, ast.Is, ast.IsNot)):
            x, y = self._unify(a, b)
            r = x == y
            return z3.Not(r) if isinstance(op, (ast.NotEq, ast.IsNot)) else r
        if T.S in (sa, sb):
            x, y = to_str(a), to_str(b)
            if isinstance(op, ast.Lt):
                return x < y
            if isinstance(op, ast.LtE):
                return x <= y
            if isinstance(op, ast.Gt):
                return y < x
            if isinstance(op, ast.GtE):
                return y <= x
        if T.R in (sa, sb):
            x, y = to_real(a), to_real(b)
        else:
            x, y = to_int(a), to_int(b)
        if isinstance(op, ast.Lt):
            return x < y
        if isinstance(op, ast.LtE):
            return x <= y
        if isinstance(op, ast.Gt):
            return x > y
        if isinstance(op, ast.GtE):
            return x >= y
        raise NotFormed(f'spec comparison {type(op).__name__}')

    def ev_Tuple(self, n):
        return PyTuple([self.ev(e) for e in n.elts])

    def ev_Call(self, n):
        if not isinstance(n.func, ast.Name):
            raise NotFormed('spec: only plain function calls')
        f = n.func.id
        if f in ('all', 'any'):
            return self._quant(f, n)
        if f == 'old':
            return self.at_mark('old', n.args[0])
        if f == 'pre':
            # pre(expr) = value at entry of the innermost enclosing loop; pre(expr, k) = at entry of loop k
            name = 'loop' if len(n.args) == 1 else f'loop{n.args[1].value}'
            return self.at_mark(name, n.args[0])
        args = [self.ev(a) for a in n.args]
        if f == 'implies':
            return z3.Implies(to_bool(args[0]), to_bool(args[1]))
        if f == 'iff':
            return to_bool(args[0]) == to_bool(args[1])
        if f == 'ite':
            a, b = self._unify(args[1], args[2])
            return z3.If(to_bool(args[0]), a, b)
        if f == 'len':
            a = args[0]
            if _sort_of(a) == T.S:
                return z3.Length(a)
            if isinstance(a, PyTuple):
                return z3.IntVal(len(a.items))
            v = to_v(a)
            return z3.If(T.is_('Dict', v), T.dcount(v), ln(v))      # len of a dictionary is the number of its keys
        if f == 'slen':
            return z3.Length(to_str(args[0]))
        if f == 'I':
            return to_int(args[0])
        if f == 'N':
            return T.int_of(to_v(args[0]))
        if f == 'R':
            return to_real(args[0])
        if f == 'S':
            return to_str(args[0])
        if f == 'Bv':
            return V.bval(to_v(args[0]))
        if f == 'Vv':
            return to_v(args[0])
        if f == 'truthy':
            return to_bool(args[0]) if _sort_of(args[0]) != V else T.truthy(args[0])
        if f in ('is_int', 'is_str', 'is_bool', 'is_float', 'is_list', 'is_tuple', 'is_none', 'is_empty', 'is_dict',
                 'is_datetime', 'is_date', 'is_obj', 'is_fn'):
            tag = {'is_int': 'Int', 'is_str': 'Str', 'is_bool': 'Bool', 'is_float': 'Float', 'is_list': 'List',
                   'is_tuple': 'Tuple', 'is_none': 'NoneV', 'is_empty': 'Empty', 'is_dict': 'Dict',
                   'is_datetime': 'DateTime', 'is_date': 'Date', 'is_obj': 'Obj', 'is_fn': 'Fn'}[f]
            return is_(tag, to_v(args[0]))
        if f == 'is_num':
            return T.is_num(to_v(args[0]))
        if f == 'isinstance':
            cn = n.args[1]
            names = [e.id for e in cn.elts] if isinstance(cn, ast.Tuple) else [cn.id]
            return z3.Or([T.isinstance_static(to_v(args[0]), c) for c in names])
        if f == 'max':
            x, y = to_int(args[0]), to_int(args[1])
            return z3.If(x >= y, x, y)
        if f == 'min':
            x, y = to_int(args[0]), to_int(args[1])
            return z3.If(x <= y, x, y)
        if f == 'abs':
            x = to_int(args[0])
            return z3.If(x >= 0, x, -x)
        if f == 'has':       # has(d, k): key in dict
            return T.dhas(to_v(args[0]), to_v(args[1]))
        if f == 'get':       # get(d, k): d[k]
            return T.dget(to_v(args[0]), to_v(args[1]))
        if f == 'allocated':
            return z3.And(is_('Obj', to_v(args[0])), V.oid(to_v(args[0])) >= 1, V.oid(to_v(args[0])) <= self.st.maxid)
        if f == 'fresh_since':   # fresh_since(o, 'old'|'loop<k>'): allocated after the mark
            mark = self.marks.get(n.args[1].value)
            return z3.And(is_('Obj', to_v(args[0])), V.oid(to_v(args[0])) > mark.maxid,
                          V.oid(to_v(args[0])) <= self.st.maxid)
        if f == 'unchanged':     # unchanged('field', 'mark'): objects allocated at the mark keep that field
            fld, mk = n.args[0].value, n.args[1].value
            m = self.marks.get(mk)
            if m is None:
                raise NotFormed(f'spec: unknown mark {mk}')
            o = fresh('o', T.I)
            return z3.ForAll([o], z3.Implies(z3.And(o >= 1, o <= m.maxid),
                                             z3.Select(self.st.field(fld), o) == z3.Select(m.field(fld), o)),
                             patterns=[z3.Select(self.st.field(fld), o)])
        if f == 'unchanged_except':   # unchanged_except('field', 'mark', obj): every other object keeps that field
            fld, mk = n.args[0].value, n.args[1].value
            m = self.marks.get(mk)
            if m is None:
                raise NotFormed(f'spec: unknown mark {mk}')
            o = fresh('o', T.I)
            ex = [V.oid(to_v(a)) for a in args[2:]]
            return z3.ForAll([o], z3.Implies(z3.And(*[o != e for e in ex]),
                                             z3.Select(self.st.field(fld), o) == z3.Select(m.field(fld), o)),
                             patterns=[z3.Select(self.st.field(fld), o)])
        if f in self.reg.specfns:
            return self.reg.specfns[f].z3fn(*[self._lift(a) if not isinstance(a, PyVal) else a for a in args])
        raise NotFormed(f'spec function {f} unknown')

    def at_mark(self, name, node):
        m = self.marks.get(name)
        if m is None:
            raise NotFormed(f'spec: no state snapshot named {name}')
        names = dict(self.names)
        # names that existed at the mark are read from the mark's environment
        for k, v in m.env.items():
            names[k] = v
        e = SpecEval(self.reg, m, names, self.marks, self.result)
        e.binders = dict(self.binders)
        return e.ev(node)

    def _quant(self, f, n):
        g = n.args[0]
        if not isinstance(g, ast.GeneratorExp):
            raise NotFormed('spec: all/any need a generator expression')
        bound, guards = [], []
        saved = dict(self.binders)
        for comp in g.generators:
            if isinstance(comp.target, ast.Name) and isinstance(comp.iter, ast.Call) \
                    and isinstance(comp.iter.func, ast.Name) and comp.iter.func.id == 'keys':
                # for k in keys(d): k ranges over all values, guarded by membership in the dict
                d = to_v(self.ev(comp.iter.args[0]))
                v = fresh(comp.target.id, V)
                self.binders[comp.target.id] = v
                bound.append(v)
                guards.append(T.dhas(d, v))
                for c in comp.ifs:
                    guards.append(to_bool(self.ev(c)))
                continue
            if not (isinstance(comp.target, ast.Name) and isinstance(comp.iter, ast.Call)
                    and isinstance(comp.iter.func, ast.Name) and comp.iter.func.id == 'range'):
                raise NotFormed('spec: quantify as `for i in range(a, b)` or `for k in keys(d)`')
            ra = [to_int(self.ev(a)) for a in comp.iter.args]
            lo, hi = (z3.IntVal(0), ra[0]) if len(ra) == 1 else (ra[0], ra[1])
            v = fresh(comp.target.id, T.I)
            self.binders[comp.target.id] = v
            bound.append(v)
            guards += [lo <= v, v < hi]
            for c in comp.ifs:
                guards.append(to_bool(self.ev(c)))
        body = to_bool(self.ev(g.elt))
        self.binders = saved
        if f == 'all':
            full = z3.Implies(z3.And(guards), body)
            pats = _patterns(full, bound)
            return z3.ForAll(bound, full, patterns=pats) if pats else z3.ForAll(bound, full)
        full = z3.And(guards + [body])
        return z3.Exists(bound, full)


from .symspec_native import native_env, native_eval  # noqa: E402,F401
