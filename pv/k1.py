"""K1 driver: VC generation for one contract, discharge with z3, grouping into obligations, model decoding,
native replay of counterexamples, conformance (engine vs CPython) runs."""
import ast
import multiprocessing as mp
import os
import time
import traceback

import z3

from . import sorts as T
from . import source, native
from .core import Ob
from .sorts import V, is_, ln, at
from .symexec import NotFormed, feasible
from .symstmt import Executor

QUICK_MS = 10000
THOROUGH_MS = 60000


def build_executor(reg, con, concrete=False):
    node, text = source.get_def(con.target)
    kind = con.target.split(':')[0]
    cls = con.self_class
    modfns = {}
    if kind == 'repo':
        relpath = con.target.split(':')[1]
        tree, _ = source.parse_file(relpath)
        modfns = {n.name: n for n in tree.body if isinstance(n, ast.FunctionDef)}
    ex = Executor(reg, con, node, class_name=cls, module_functions=modfns, concrete=concrete)
    return ex


def _solve(vc, timeout_ms, seed=None):
    s = z3.Solver()
    s.set('timeout', timeout_ms)
    if seed is not None:
        s.set('random_seed', seed)
    s.add(*vc.facts)
    s.add(z3.Not(vc.goal))
    t0 = time.time()
    r = s.check()
    vc.seconds = time.time() - t0
    vc.backend = 'z3-' + z3.get_version_string()
    if r == z3.unsat:
        vc.status = 'discharged'
    elif r == z3.sat:
        vc.status = 'failed'
        vc.model = s.model()
    else:
        vc.status = 'unknown'
        vc.reason = s.reason_unknown()
        if os.environ.get('PV_DUMP_UNKNOWN'):
            d = os.environ['PV_DUMP_UNKNOWN']
            os.makedirs(d, exist_ok=True)
            import re as _re
            with open(os.path.join(d, _re.sub(r'[^A-Za-z0-9_.-]+', '_', vc.name) + f'-{id(vc) % 10000}.smt2'), 'w') as f:
                f.write(s.sexpr() + '\n(check-sat)\n')
        # candidate search 1: the same query without its quantified facts (weaker constraints: a model is only a
        # candidate input for native replay, never a verdict)
        try:
            from .symexec import _has_quant
            qf = [f for f in vc.facts if not _has_quant(f)]
            ng = z3.Not(vc.goal)
            s2 = z3.Solver()
            s2.set('timeout', min(timeout_ms, 5000))
            s2.add(*qf)
            s2.add(ng)
            t1 = time.time()
            if s2.check() == z3.sat:
                vc.model, vc.candidate = s2.model(), True
            vc.seconds += time.time() - t1
        except z3.Z3Exception:
            pass
        if vc.model is not None:
            return vc
        # ground refuter: own pattern instantiation; unsat is a proof, sat a candidate for native replay only
        try:
            from . import ground
            t1 = time.time()
            verdict, model = ground.refute(vc.facts, vc.goal, min(timeout_ms, 8000))
            vc.seconds += time.time() - t1
            if verdict == 'unsat':
                vc.status = 'discharged'
                vc.backend += ' (ground instantiation)'
            elif verdict == 'sat':
                vc.model, vc.candidate = model, True
        except z3.Z3Exception:
            pass
    return vc


# ------------------------------------------------------------------------------------------ model decoding
def _val(m, t):
    return m.eval(t, model_completion=True)


def decode(m, t, st, ex, spec=None, depth=0):
    """z3 V term under model m -> codec JSON."""
    v = _val(m, t)
    name = v.decl().name()
    if name == 'Int':
        return _val(m, V.ival(v)).as_long()
    if name == 'Bool':
        return z3.is_true(_val(m, V.bval(v)))
    if name == 'Float':
        r = _val(m, V.fval(v))
        try:
            f = float(r.numerator_as_long()) / float(r.denominator_as_long())
        except Exception:  # noqa  (algebraic)
            f = float(r.approx(12).as_fraction())
        return {'$f': repr(f)}
    if name == 'Str':
        return _val(m, V.sval(v)).as_string()
    if name == 'NoneV':
        return None
    if name == 'Empty':
        return {'$e': 1}
    if name in ('Date', 'DateTime'):
        import datetime
        o = _val(m, V.dord(v) if name == 'Date' else V.tord(v)).as_long()
        o = min(max(o, 1), 3652059)
        d = datetime.date.fromordinal(o)
        if name == 'Date':
            return {'$d': [d.year, d.month, d.day]}
        sec = _val(m, V.tsec(v)).as_long() % 86400
        return {'$dt': [d.year, d.month, d.day, sec // 3600, sec % 3600 // 60, sec % 60, 0]}
    if name in ('List', 'Tuple'):
        n = _val(m, ln(v)).as_long()
        n = max(0, min(n, 400 if depth == 0 else 48 if depth == 1 else 6))
        inner = spec[5:] if spec and spec.startswith('list:') else None
        items = [decode(m, at(v, i), st, ex, inner, depth + 1) if depth < 4 else None for i in range(n)]
        return items if name == 'List' else {'$t': items}
    if name == 'Dict':
        keys = []
        seen = set()
        for d_ in m.decls():
            if d_.name() in ('dhas', 'dget'):
                fi = m[d_]
                if not isinstance(fi, z3.FuncInterp):
                    continue
                for i in range(fi.num_entries()):
                    e = fi.entry(i)
                    k = e.arg_value(1)
                    if k.get_id() not in seen:
                        seen.add(k.get_id())
                        keys.append(k)
        for cst in ('uid', 'value', 'last_row', 'last_column', 'title', 'column', 'row'):
            keys.append(T.vstr(cst))
        pairs = []
        for k in keys:
            if z3.is_true(_val(m, T.dhas(v, k))):
                ek = decode(m, k, st, ex, None, depth + 1)
                if not any(p[0] == ek for p in pairs):
                    pairs.append([ek, decode(m, T.dget(v, k), st, ex, None, depth + 1)])
        return {'$m': pairs}
    if name == 'Obj':
        cls = spec[4:] if spec and spec.startswith('obj:') else None
        oid = V.oid(v)
        fields = {}
        info = ex.reg.classes.get(cls) if cls else None
        fnames = list(info['fields']) if info and info['fields'] else \
            [f for f in ex.c.fields if f not in _dataclass_fields(ex.reg)]
        for f in fnames:
            if f in st.heap and depth < 3:
                fields[f] = decode(m, z3.Select(st.heap[f], oid), st, ex, ex.c.field_sorts.get(f) if hasattr(ex.c, 'field_sorts') else None, depth + 1)
        if cls == 'Cell':
            return {'$cell': [fields.get('title'), fields.get('column'), fields.get('row'), fields.get('value'),
                              bool(fields.get('_handled_identifiers'))]}
        return {'$obj': {'cls': cls, 'fields': fields, 'id': _val(m, oid).as_long()}}
    if name == 'Fn':
        table = []
        for d_ in m.decls():
            if d_.name() == 'app1':
                fi = m[d_]
                if isinstance(fi, z3.FuncInterp):
                    for i in range(fi.num_entries()):
                        e = fi.entry(i)
                        if z3.eq(e.arg_value(0), v):
                            a = e.arg_value(1)
                            raises = z3.is_true(_val(m, T.app1_raises(v, a)))
                            table.append([decode(m, a, st, ex, None, depth + 1),
                                          {'$exc': 'RuntimeError'} if raises else decode(m, e.value(), st, ex, None, depth + 1)])
        dflt = None
        for d_ in m.decls():
            if d_.name() == 'app1' and isinstance(m[d_], z3.FuncInterp):
                try:
                    dflt = decode(m, m[d_].else_value(), st, ex, None, depth + 1)
                except Exception:  # noqa
                    dflt = None
        r0 = z3.is_true(_val(m, T.app0_raises(v)))
        return {'$fn': table, 'default': dflt,
                'nullary': ({'$exc': 'RuntimeError'} if r0 else decode(m, T.app0(v), st, ex, None, depth + 1)) if depth < 2 else None}
    if name == 'Cls':
        cid = _val(m, V.cid(v)).as_long()
        inv = {k_: n_ for n_, k_ in T.CLS.items()}
        return {'$cls': inv.get(cid, 'object')}
    if name == 'TimeDelta':
        return {'$td': [_val(m, V.tdays(v)).as_long(), _val(m, V.tdsec(v)).as_long()]}
    return {'$repr': str(v)}


def _dataclass_fields(reg):
    out = set()
    for info in reg.classes.values():
        out |= set(info['fields'])
    return out


def decode_args(vc, ex):
    st = ex.entry
    out = {}
    for p, spec in ex.c.params.items():
        try:
            out[p] = decode(vc.model, ex.param_terms[p], st, ex, spec)
        except Exception as e:  # noqa
            out[p] = {'$repr': f'<undecodable: {e!r}>'}
    return out


# ------------------------------------------------------------------------------------------ per-contract run
def _worker(args):
    modname, cname, tier, prefix = args
    import importlib
    try:
        from .contract import load_registry
        reg = load_registry(modname)
        con = reg.contracts[cname]
        return run_contract(reg, con, tier, prefix, modname)
    except BaseException as e:  # noqa
        return {'contract': cname, 'error': traceback.format_exc(), 'obs': [], 'stats': {}}


def run_contract(reg, con, tier='quick', prefix='', modname='', timeout_ms=None, retry=True):
    """Returns plain data: {'contract', 'obs': [dict], 'stats'}"""
    t0 = time.time()
    timeout = timeout_ms or (THOROUGH_MS if tier == 'thorough' else QUICK_MS)
    out = {'contract': con.name, 'obs': [], 'stats': {}, 'error': None, 'target': con.target,
           'hash': source.src_hash(con.target), 'imprecise': [], 'used_contracts': []}
    try:
        ex = build_executor(reg, con)
        vcs = ex.run()
    except NotFormed as e:
        out['obs'].append({'name': f'{prefix}{con.name}.formed', 'status': 'notformed', 'detail': str(e), 'decisive': False,
                           'seconds': 0, 'n': 1, 'witness': None, 'backend': ''})
        return out
    except source.SourceError as e:
        out['obs'].append({'name': f'{prefix}{con.name}.formed', 'status': 'notformed', 'detail': f'source: {e}',
                           'decisive': False, 'seconds': 0, 'n': 1, 'witness': None, 'backend': ''})
        return out
    out['imprecise'] = sorted(ex.imprecise)
    out['used_contracts'] = sorted(ex.used_contracts)
    gen_s = time.time() - t0
    groups = {}
    for vc in vcs:
        if vc.status == 'pending':
            _solve(vc, timeout)
            if retry and vc.status == 'unknown' and vc.model is None:
                # one retry with a larger budget and another seed: verdicts must not flip under machine load
                _solve(vc, timeout * 4, seed=7)
        groups.setdefault(vc.name, []).append(vc)
    # every ensures clause must have produced at least one VC (a function with no normal path proves nothing)
    for cname in con.ensures:
        nm = f'{con.name}.post.{cname}'
        if nm not in groups:
            out['obs'].append({'name': prefix + nm, 'status': 'notformed', 'decisive': True, 'seconds': 0, 'n': 0,
                               'detail': 'no normal return path reached this clause (vacuous)', 'witness': None,
                               'backend': ''})
    for name, g in groups.items():
        secs = sum(v.seconds for v in g)
        bad = [v for v in g if v.status == 'failed']
        unk = [v for v in g if v.status == 'unknown']
        ob = {'name': prefix + name, 'decisive': g[0].decisive, 'seconds': secs, 'n': len(g),
              'backend': next((v.backend for v in g if v.backend and v.backend != 'simplifier'), g[0].backend),
              'detail': g[0].info, 'witness': None}
        if bad:
            ob['status'] = 'failed'
            v = bad[0]
            args = decode_args(v, ex)
            ob['witness'] = {'kind': 'k1', 'module': modname, 'contract': con.name, 'args': args,
                             'clause': v.info, 'vc': name,
                             'solver': f'z3 {z3.get_version_string()}: sat; model (decoded arguments above)'}
            ob['detail'] = f'sat: {v.info[:200]}'
            if ex.imprecise:
                ob['imprecise'] = sorted(ex.imprecise)
        elif unk:
            ob['status'] = 'unknown'
            ob['detail'] = f'{len(unk)} of {len(g)} queries undecided ({getattr(unk[0], "reason", "")}) within {timeout} ms: {g[0].info[:120]}'
            cand = next((v for v in unk if v.model is not None), None)
            if cand is not None:
                ob['witness'] = {'kind': 'k1', 'module': modname, 'contract': con.name, 'args': decode_args(cand, ex),
                                 'clause': cand.info, 'vc': name, 'candidate': True,
                                 'solver': f'z3 {z3.get_version_string()}: unknown ({getattr(cand, "reason", "")}); '
                                           'candidate model from e-matching without MBQI'}
        else:
            ob['status'] = 'discharged'
        out['obs'].append(ob)
    out['stats'] = {'vcs': len(vcs), 'paths': ex.npaths, 'gen_s': round(gen_s, 2), 'total_s': round(time.time() - t0, 2)}
    return out


POOL_TIMEOUT_S = int(os.environ.get('PV_POOL_TIMEOUT_S', '1500'))


def run_contracts(modname, names, tier, prefix, procs=None):
    """Run several contracts of one contract module in a process pool; returns list of result dicts."""
    jobs = [(modname, n, tier, prefix) for n in names]
    procs = procs or min(len(jobs), max(1, (os.cpu_count() or 4)))
    if procs <= 1 or len(jobs) == 1:
        return [_worker(j) for j in jobs]
    # one process per contract.  A solver process can die (libz3 5.1 was seen to segfault once in some thousand runs): with
    # multiprocessing.Pool the lost task would make map() wait for ever, so futures are used - a broken pool is noticed, the
    # contracts that have no result yet are run again in a fresh pool (three rounds), and a contract whose process keeps dying
    # is reported as undecided (never as a violation, never as a hang).
    from concurrent.futures import ProcessPoolExecutor, as_completed
    ctx = mp.get_context('fork')
    results, pending, why = {}, list(range(len(jobs))), ''
    def one_round(idx, workers):
        nonlocal why
        try:
            with ProcessPoolExecutor(max_workers=workers, mp_context=ctx) as ex:
                futs = {ex.submit(_worker, jobs[i]): i for i in idx}
                for f in as_completed(futs, timeout=POOL_TIMEOUT_S):
                    try:
                        results[futs[f]] = f.result()
                    except Exception as e:  # noqa  BrokenProcessPool for the futures of a dead pool
                        why = repr(e)[:200]
        except Exception as e:  # noqa  timeout of as_completed, BrokenProcessPool on shutdown
            why = repr(e)[:200]
    one_round(pending, min(procs, len(pending)))                 # all contracts in one pool
    for _round in range(2):                                       # what is left: every contract in a pool of its own,
        pending = [i for i in pending if i not in results]        # so that a dying process takes only its own contract along
        for i in pending:
            one_round([i], 1)
    pending = [i for i in pending if i not in results]
    for i in pending:
        modname_, cname, _tier, pfx = jobs[i]
        results[i] = {'contract': cname, 'error': None, 'stats': {}, 'target': cname, 'hash': 'unknown', 'imprecise': [],
                      'obs': [{'name': f'{pfx}{cname}.solver_process', 'status': 'unknown', 'decisive': False, 'seconds': 0, 'n': 1,
                               'witness': None, 'backend': '',
                               'detail': f'the process that generates and solves the obligations of this contract died or did not '
                                         f'finish in three attempts ({why}): undecided'}]}
    return [results[i] for i in range(len(jobs))]


def to_obs(results, res, replay=True):
    """Result dicts -> Ob list (adds to PropResult res); replays counterexamples natively."""
    obs = []
    for r in results:
        if r.get('error'):
            raise RuntimeError(f'K1 worker crashed on {r["contract"]}:\n{r["error"]}')
        res.functions_under_contract[r['target']] = r['hash']
        for o in r['obs']:
            ob = Ob(o['name'], 'K1', decisive=o['decisive'], status=o['status'], detail=o['detail'],
                    backend=o['backend'], seconds=o['seconds'], function=r['target'], witness=o['witness'],
                    count=o['n'])
            if ob.status == 'unknown' and ob.witness is not None and replay:
                # undecided query with a candidate model: it counts only if the real code fails on it
                try:
                    rr = native.call('k1replay', 'replay', timeout=60, payload=ob.witness)
                    if rr['fails']:
                        ob.status, ob.confirmed = 'failed', True
                        ob.detail = f'candidate model confirmed on the real code: {rr["text"][:400]}'
                        ob.witness['native'] = rr['text'][:500]
                    else:
                        ob.witness = None
                except Exception as e:  # noqa
                    ob.witness = None
            elif ob.status == 'failed' and ob.witness is not None and replay:
                try:
                    rr = native.call('k1replay', 'replay', timeout=60, payload=ob.witness)
                    ob.confirmed = bool(rr['fails'])
                    ob.detail += f' | native replay: {rr["text"][:300]}'
                    ob.witness['native'] = rr['text'][:500]
                except Exception as e:  # noqa
                    ob.confirmed = None
                    ob.detail += f' | native replay not possible: {e!r}'[:300]
                if o.get('imprecise') and ob.confirmed is not True:
                    # DESIGN 3.1 step 3: a sat that may be an artefact of an imprecise symbol is "not formed"
                    ob.status = 'notformed'
                    ob.detail = 'sat only under imprecise symbols ' + ', '.join(o['imprecise']) + '; ' + ob.detail
            obs.append(ob)
        if r.get('imprecise'):
            res.notes.append(f'{r["contract"]}: imprecise symbols used: {", ".join(r["imprecise"])}')
    res.add(obs)
    return obs


# ------------------------------------------------------------------------------------------ conformance
def conformance(reg, con, argsets):
    """Engine-vs-CPython: run the symbolic semantics on concrete arguments, compare with the real function.
    argsets: list of {param: codec json}. Returns (n_checked, mismatches)."""
    from .concrete import eval_concrete
    return eval_concrete(reg, con, argsets)
