"""./check <PROPERTY> [--tier quick|thorough]   |   ./check --replay <file>   |   ./check --all [--tier ...]
   ./check --write-baseline   (maintenance: records which obligations are discharged on the current tree)

Exit codes: 0 held (possibly KNOWN-FINDING / DEGRADED lines) . 1 violation . 2 undecided . 3 checker fault.
"""
import argparse
import hashlib
import importlib
import json
import os
import re
import sys
import time
import traceback

from . import VERIF, REPO
from .core import Ctx, Ob, Bounded, PropResult, PROVED_KINDS, load_json, jsonable

PROPS = [f'C{i:02d}' for i in range(1, 21)]


def prop_module(pid):
    return importlib.import_module(f'props.{pid.lower()}')


def known_findings(pid):
    kf = load_json('known_findings.json', {'findings': []})
    return [f for f in kf['findings'] if f['property'] == pid]


def write_replay(pid, name, payload):
    d = os.path.join(os.environ.get('PV_REPLAY_DIR') or os.path.join(VERIF, 'replays'), pid)
    os.makedirs(d, exist_ok=True)
    h = hashlib.sha256(json.dumps(payload, sort_keys=True, default=repr).encode()).hexdigest()[:10]
    safe = re.sub(r'[^A-Za-z0-9_.-]+', '_', name)[:100]
    path = os.path.join(d, f'{safe}-{h}.json')
    with open(path, 'w') as f:
        json.dump(payload, f, indent=1, default=repr)
    return path


def run_property(pid, tier, seed, write_baseline=False):
    t0 = time.time()
    sys.path.insert(0, VERIF)
    mod = prop_module(pid)
    ctx = Ctx(pid, tier, seed)
    if tier == 'thorough':
        os.environ['PV_CROSSCHECK'] = '1'        # LEMMA obligations are also sent to cvc5 (solver diversity)
    res: PropResult = mod.run(ctx)
    lines = []
    exit_code = 0
    violations = 0
    baseline = load_json('baseline_obligations.json', {}).get(pid)
    findings = known_findings(pid)
    open_keys = {f['key']: f for f in findings if f.get('status') == 'open'}
    known_counts = {}
    reported_findings = []

    # ---- canaries and conformance: checker faults, never verdicts
    for name, caught in res.canaries:
        if not caught:
            lines.append(f'CHECKER-FAULT canary {name} was not caught')
            exit_code = 3
    for mm in (res.conformance or {}).get('mismatches', []):
        lines.append(f'CHECKER-FAULT encoding conformance: {mm.get("contract")} {str(mm.get("what"))[:200]} args={str(mm.get("args"))[:200]}')
        exit_code = 3
    proved = [o for o in res.obligations if o.kind in PROVED_KINDS]
    if not proved:
        lines.append('CHECKER-FAULT zero obligations generated')
        exit_code = 3

    # ---- obligations
    degraded = []
    seen_viol = set()
    for o in proved:
        if o.status == 'discharged':
            continue
        if o.status in ('unknown', 'notformed'):
            degraded.append({'obligation': o.name, 'reason': f'{o.status}: {o.detail[:200]}'})
            lines.append(f'DEGRADED obligation={o.name} reason={o.status}: {o.detail[:160]}')
            continue
        # failed
        if o.finding and o.finding in open_keys:
            reported_findings.append(o.finding)
            continue
        in_base = baseline is None or o.name in baseline
        if o.confirmed is True or (in_base and o.status == 'failed'):
            payload = {'property': pid, 'obligation': o.name, 'kind': o.kind, 'function': o.function,
                       'decisive': o.decisive, 'detail': o.detail, 'backend': o.backend,
                       'confirmed_on_real_code': o.confirmed, 'finding_key': o.finding,
                       'replay': o.witness, 'repo': REPO}
            path = write_replay(pid, o.name, payload)
            tail = '' if o.confirmed is True else ' no-failing-input-found'
            lines.append(f'VIOLATION property={pid} replay={path}{tail}')
            lines.append(f'  obligation={o.name} ({o.kind}) {o.detail[:300]}')
            violations += 1
        else:
            degraded.append({'obligation': o.name, 'reason': 'failed but not discharged on the unchanged tree '
                                                             'either and no failing input on the real code'})
            lines.append(f'DEGRADED obligation={o.name} reason=undischarged (not in baseline, no failing input)')

    # ---- bounded stand-ins
    for b in res.bounded:
        for fl in b.failures:
            key = fl.get('key', '')
            if key and key in open_keys:
                # an open finding names a class of failing inputs; where the monitor counts the failing evaluations of the
                # class, more of them than were recorded for this tier is a different violation and is reported
                m = re.search(r'(\d+) failing', fl.get('what', ''))
                cur = int(m.group(1)) if m else None
                rec = (open_keys[key].get('counts') or {}).get(f'{tier}:{seed}')      # counts are comparable for one tier and seed only
                known_counts[key] = cur
                if cur is None or rec is None or cur <= rec:
                    reported_findings.append(key)
                    continue
                fl = dict(fl, what=f'{cur} failing evaluations under the key of known finding {open_keys[key]["id"]} where '
                                   f'{rec} are recorded: ' + fl.get('what', ''))
            sig = (b.name, key or fl.get('what', '')[:80])
            if sig in seen_viol:
                continue
            seen_viol.add(sig)
            payload = {'property': pid, 'obligation': b.name, 'kind': 'K4', 'bound': b.bound,
                       'detail': fl.get('what', ''), 'finding_key': key, 'confirmed_on_real_code': True,
                       'replay': fl.get('replay'), 'repo': REPO}
            path = write_replay(pid, b.name, payload)
            lines.append(f'VIOLATION property={pid} replay={path}')
            lines.append(f'  bounded-check={b.name} {fl.get("what", "")[:300]}')
            violations += 1

    # ---- known findings: replay each open one, print the line
    kf_lines = []
    for f in findings:
        if f.get('status') != 'open':
            continue
        still = None
        try:
            still = mod.replay({**f['witness'], 'finding_key': f['key']})[0] if isinstance(f.get('witness'), dict) else \
                mod.replay(f['witness'])[0] if f.get('witness') is not None else None
        except Exception as e:  # noqa
            lines.append(f'NOTE known finding {f["id"]}: witness replay errored: {e!r}')
        if still is False:
            lines.append(f'NOTE known finding {f["id"]} no longer reproduces on this tree')
        else:
            kf_lines.append(f'KNOWN-FINDING: property={pid} {f["id"]} {f["what"]}')
    lines = kf_lines + lines

    if violations:
        exit_code = 1 if exit_code != 3 else 3

    # ---- evidence
    n_ob = sum(1 for o in proved)
    n_dis = sum(1 for o in proved if o.ok())
    n_known = sum(1 for o in proved if o.status == 'failed' and o.finding in open_keys)
    all_proved = n_ob > 0 and n_dis == n_ob and not degraded and violations == 0
    by_kind, by_backend = {}, {}
    for o in proved:
        k = by_kind.setdefault(o.kind, {'obligations': 0, 'discharged': 0, 'queries_or_elements': 0})
        k['obligations'] += 1
        k['discharged'] += o.ok()
        k['queries_or_elements'] += o.count
        if o.backend:
            by_backend[o.backend] = by_backend.get(o.backend, 0) + 1
    declared = getattr(mod, 'LEVEL', 'proof')
    level = declared if (all_proved or declared != 'proof') else 'other'
    evals = sum(b.evaluations for b in res.bounded)
    distinct = sum(b.distinct_nontrivial for b in res.bounded)
    samples = list(res.samples)
    for o in proved[:6]:
        samples.append({'obligation': o.name, 'kind': o.kind, 'status': o.status, 'detail': o.detail[:160]})
    for b in res.bounded:
        samples.extend(b.samples[:2])
    explanation = getattr(mod, 'EXPLANATION', '')
    if level == 'other' and declared == 'proof':
        explanation = ('proof-level claim not met on this run: ' +
                       f'{n_dis}/{n_ob} obligations discharged, {len(degraded)} degraded, '
                       f'{n_known} attributed to open known findings, {violations} violation(s). ' + explanation)
    cov = {
        'obligations': n_ob, 'discharged': n_dis,
        'checker_cmd': f'./check {pid} --tier {tier}',
        'trusted_base': res.trusted_base,
        'by_kind': by_kind, 'by_backend': by_backend,
        'solver_seconds': round(sum(o.seconds for o in proved), 3),
        'functions_under_contract': res.functions_under_contract,
        'obligation_list': [{'name': o.name, 'kind': o.kind, 'status': o.status, 'decisive': o.decisive,
                             'backend': o.backend, 'seconds': round(o.seconds, 3), 'n': o.count,
                             **({'finding': o.finding} if o.finding else {})} for o in proved],
        'failed_attributed_to_known_findings': n_known,
        'degraded': degraded,
        'bounded_checks': [{'name': b.name, 'bound': b.bound, 'evaluations': b.evaluations,
                            'distinct_nontrivial': b.distinct_nontrivial, 'rule': b.rule,
                            'failures': len(b.failures), 'exhaustive_within_bound': b.exhaustive,
                            'seconds': round(b.seconds, 2), 'counted_as': 'bounded (never proved)'}
                           for b in res.bounded],
        'evaluations': evals, 'distinct_nontrivial': distinct,
        'rule': '; '.join(f'{b.name}: {b.rule}' for b in res.bounded if b.rule)[:3000],
        'samples': jsonable(samples)[:24],
        'known_findings_reported': sorted(set(reported_findings)),
        'known_finding_counts': known_counts,
        'canaries': [{'name': n, 'caught': c} for n, c in res.canaries],
        'conformance': res.conformance,
        'explanation': explanation or 'see DESIGN.md',
        'notes': res.notes,
        'exhaustive': False,
    }
    ev = {'property_id': pid, 'tier': tier, 'seed': seed, 'level': level, 'coverage': cov,
          'assumptions': res.assumptions, 'wall_s': round(time.time() - t0, 2), 'violations': violations}
    evdir = os.environ.get('PV_EVIDENCE_DIR') or os.path.join(VERIF, 'evidence')    # selftest runs write elsewhere
    os.makedirs(evdir, exist_ok=True)
    with open(os.path.join(evdir, f'{pid}.json'), 'w') as f:
        json.dump(jsonable(ev), f, indent=1)

    if write_baseline:
        base = load_json('baseline_obligations.json', {})
        base[pid] = sorted(o.name for o in proved if o.ok())
        with open(os.path.join(VERIF, 'baseline_obligations.json'), 'w') as f:
            json.dump(base, f, indent=1, sort_keys=True)

    for ln in lines:
        print(ln)
    print(f'{pid} tier={tier} level={level} obligations={n_ob} discharged={n_dis} known={n_known} '
          f'degraded={len(degraded)} bounded_evals={evals} violations={violations} '
          f'wall={time.time() - t0:.1f}s exit={exit_code}')
    return exit_code


def do_replay(path):
    with open(path) as f:
        payload = json.load(f)
    pid = payload['property']
    sys.path.insert(0, VERIF)
    mod = prop_module(pid)
    print(f'replaying {payload.get("obligation")} of {pid} against {REPO}')
    if payload.get('replay') is None:
        print('no input to replay (structural / no-failing-input-found obligation); recorded detail:')
        print(payload.get('detail'))
        return 0
    fails, text = mod.replay(payload['replay'])
    print(text)
    print('RESULT:', 'the recorded input still violates the clause on this tree' if fails
          else 'the recorded input does not violate the clause on this tree')
    return 1 if fails else 0


def main(argv=None):
    ap = argparse.ArgumentParser()
    ap.add_argument('prop', nargs='?')
    ap.add_argument('--tier', default=os.environ.get('VERIF_TIER', 'quick'), choices=['quick', 'thorough'])
    ap.add_argument('--replay')
    ap.add_argument('--all', action='store_true')
    ap.add_argument('--write-baseline', action='store_true')
    a = ap.parse_args(argv)
    seed = int(os.environ.get('VERIF_SEED', '0') or 0)
    try:
        if a.replay:
            return do_replay(a.replay)
        if a.all:
            worst = 0
            for pid in PROPS:
                try:
                    importlib.import_module(f'props.{pid.lower()}')
                except ModuleNotFoundError:
                    continue
                rc = run_property(pid, a.tier, seed, a.write_baseline)
                worst = max(worst, rc)
            return worst
        if not a.prop:
            ap.error('property id required')
        return run_property(a.prop.upper(), a.tier, seed, a.write_baseline)
    except SystemExit:
        raise
    except BaseException:  # noqa
        traceback.print_exc()
        print('CHECKER-FAULT traceback (exit 3; no verdict)')
        return 3


if __name__ == '__main__':
    sys.path.insert(0, VERIF)
    sys.exit(main())
