"""The value universe V and the hand-written (trusted, conformance-tested) meaning of Python built-ins.

Everything here builds z3 terms; nothing here looks at repository code.
"""
import z3

I, B, R, S = z3.IntSort(), z3.BoolSort(), z3.RealSort(), z3.StringSort()

_V = z3.Datatype('V')
_V.declare('Int', ('ival', I))
_V.declare('Bool', ('bval', B))
_V.declare('Float', ('fval', R))
_V.declare('Str', ('sval', S))
_V.declare('NoneV')
_V.declare('Empty')                       # ExcelInPython.EmptyCell()  (int subclass, value 0)
_V.declare('Date', ('dord', I))           # datetime.date that is not a datetime
_V.declare('DateTime', ('tord', I), ('tsec', I))   # proleptic ordinal, second of day (microseconds not modelled)
_V.declare('List', ('lid', I))
_V.declare('Tuple', ('tid', I))
_V.declare('Dict', ('did', I))
_V.declare('Obj', ('oid', I))
_V.declare('Fn', ('fid', I))
_V.declare('Cls', ('cid', I))             # class objects (type(x), int, str, ...)
_V.declare('TimeDelta', ('tdays', I), ('tdsec', I))
_V.declare('Other', ('xid', I))           # anything else (opaque)
V = _V.create()

TAGS = ['Int', 'Bool', 'Float', 'Str', 'NoneV', 'Empty', 'Date', 'DateTime', 'List', 'Tuple', 'Dict', 'Obj', 'Fn',
        'Cls', 'TimeDelta', 'Other']
# class ids for Cls values
CLS = {'int': 0, 'bool': 1, 'float': 2, 'str': 3, 'NoneType': 4, 'EmptyCell': 5, 'date': 6, 'datetime': 7,
       'list': 8, 'tuple': 9, 'dict': 10, 'object': 11, 'function': 12, 'type': 13, 'timedelta': 14, 'other': 15}
TAG_CLS = {'Int': 'int', 'Bool': 'bool', 'Float': 'float', 'Str': 'str', 'NoneV': 'NoneType', 'Empty': 'EmptyCell',
           'Date': 'date', 'DateTime': 'datetime', 'List': 'list', 'Tuple': 'tuple', 'Dict': 'dict', 'Obj': 'object',
           'Fn': 'function', 'Cls': 'type', 'TimeDelta': 'timedelta', 'Other': 'other'}
# proper-subclass table (reflexive closure added in subclass_of)
SUPER = {'bool': ['int'], 'EmptyCell': ['int'], 'datetime': ['date']}


def is_(tag, x):
    return getattr(V, 'is_' + tag)(x)


def mk(tag, *a):
    c = getattr(V, tag)
    return c(*a) if a else c


NONE = V.NoneV
EMPTY = V.Empty
TRUE = V.Bool(True)
FALSE = V.Bool(False)


def vint(n):
    return V.Int(n if z3.is_expr(n) else z3.IntVal(n))


def vstr(s):
    return V.Str(s if z3.is_expr(s) else z3.StringVal(s))


def vbool(b):
    return V.Bool(b if z3.is_expr(b) else z3.BoolVal(b))


def vfloat(r):
    return V.Float(r if z3.is_expr(r) else z3.RealVal(r))


# views of lists / tuples / dicts / callables: uninterpreted, axioms are emitted at the point of use (R-VIEW)
ln = z3.Function('ln', V, I)
at = z3.Function('at', V, I, V)
dhas = z3.Function('dhas', V, V, B)
dget = z3.Function('dget', V, V, V)
dcount = z3.Function('dcount', V, I)
sorted_pos = z3.Function('sorted_pos', V, V, I)      # position of a key in the list that sorted(dict) returned
app0 = z3.Function('app0', V, V)            # value of calling a 0-ary callable (when it returns)
app0_raises = z3.Function('app0_raises', V, B)
app1 = z3.Function('app1', V, V, V)
app1_raises = z3.Function('app1_raises', V, V, B)
str_lower = z3.Function('str_lower', S, S)  # A-STR: uninterpreted except for the axioms added by users
str_of_real = z3.Function('str_of_real', R, S)   # imprecise: str(float)


def tag_id(x):
    """Cls id of type(x) as a z3 Int term."""
    e = z3.IntVal(CLS['other'])
    for t in reversed(TAGS):
        e = z3.If(is_(t, x), z3.IntVal(CLS[TAG_CLS[t]]), e)
    return e


def subclass_ids(cname):
    """ids of all classes that are `cname` or a subclass of it."""
    out = {CLS[cname]}
    for sub, sups in SUPER.items():
        if cname in sups:
            out |= subclass_ids(sub)
    return out


def isinstance_static(x, cname):
    """isinstance(x, <class cname>) for a statically known class."""
    m = {'int': ['Int', 'Bool', 'Empty'], 'bool': ['Bool'], 'float': ['Float'], 'str': ['Str'],
         'EmptyCell': ['Empty'], 'date': ['Date', 'DateTime'], 'datetime': ['DateTime'], 'list': ['List'],
         'tuple': ['Tuple'], 'dict': ['Dict'], 'NoneType': ['NoneV'], 'timedelta': ['TimeDelta']}
    return z3.Or([is_(t, x) for t in m[cname]])


def isinstance_dyn(x, c):
    """isinstance(x, c) where c is a V term holding a Cls."""
    tid = tag_id(x)
    cid = V.cid(c)
    cases = []
    for cname, k in CLS.items():
        subs = subclass_ids(cname) if cname in ('int', 'date') else {k}
        cases.append(z3.And(cid == k, z3.Or([tid == s for s in subs])))
    return z3.Or(cases)


def is_num(x):
    """int / float / bool / EmptyCell: Python numbers."""
    return z3.Or(is_('Int', x), is_('Bool', x), is_('Float', x), is_('Empty', x))


def is_intlike(x):
    return z3.Or(is_('Int', x), is_('Bool', x), is_('Empty', x))


def int_of(x):
    """the int value of an int-like (bool -> 0/1, Empty -> 0)."""
    return z3.If(is_('Int', x), V.ival(x), z3.If(is_('Bool', x), z3.If(V.bval(x), 1, 0), z3.IntVal(0)))


def real_of(x):
    """the real value of a number."""
    return z3.If(is_('Float', x), V.fval(x), z3.ToReal(int_of(x)))


def truthy(x):
    """bool(x)"""
    return z3.If(is_('Int', x), V.ival(x) != 0,
           z3.If(is_('Bool', x), V.bval(x),
           z3.If(is_('Float', x), V.fval(x) != 0,
           z3.If(is_('Str', x), z3.Length(V.sval(x)) > 0,
           z3.If(z3.Or(is_('NoneV', x), is_('Empty', x)), z3.BoolVal(False),
           z3.If(z3.Or(is_('List', x), is_('Tuple', x)), ln(x) > 0,
           z3.If(is_('Dict', x), dcount(x) > 0,
           z3.If(is_('TimeDelta', x), z3.Or(V.tdays(x) != 0, V.tdsec(x) != 0),
                 z3.BoolVal(True)))))))))


def dt_key(x):
    """(ordinal, second) of a date / datetime as a single integer key (86400*ord + sec)."""
    return z3.If(is_('DateTime', x), V.tord(x) * 86400 + V.tsec(x), V.dord(x) * 86400)


# -------------------------------------------------------------------- calendar (closed forms, linear in z3)
def _div(a, b):
    return a / b      # z3 Int division is floor division for positive divisors


def leap(y):
    return z3.And(y % 4 == 0, z3.Or(y % 100 != 0, y % 400 == 0))


def days_before_year(y):
    y1 = y - 1
    return y1 * 365 + _div(y1, 4) - _div(y1, 100) + _div(y1, 400)


_CUM = [0, 31, 59, 90, 120, 151, 181, 212, 243, 273, 304, 334]
_DIM = [31, 28, 31, 30, 31, 30, 31, 31, 30, 31, 30, 31]


def dim(y, m):
    e = z3.IntVal(31)
    for k in range(12, 0, -1):
        d = z3.IntVal(_DIM[k - 1])
        if k == 2:
            d = z3.If(leap(y), z3.IntVal(29), z3.IntVal(28))
        e = z3.If(m == k, d, e)
    return e


def days_before_month(y, m):
    e = z3.IntVal(0)
    for k in range(12, 0, -1):
        c = z3.IntVal(_CUM[k - 1])
        if k > 2:
            c = c + z3.If(leap(y), 1, 0)
        e = z3.If(m == k, c, e)
    return e


def ymd_to_ord(y, m, d):
    """datetime.date(y, m, d).toordinal() for valid y, m, d."""
    return days_before_year(y) + days_before_month(y, m) + d


def valid_ymd(y, m, d):
    return z3.And(1 <= y, y <= 9999, 1 <= m, m <= 12, 1 <= d, d <= dim(y, m))


# inverse: year/month/day of an ordinal are introduced as fresh constants constrained by ymd_to_ord (see symexec)


# the calendar decomposition of an ordinal: total functions characterised (per use) by valid_ymd and ymd_to_ord;
# uniqueness of the decomposition (K5, trusted) is supplied as an instance whenever an ordinal is built from fields
year_of = z3.Function('year_of', I, I)
month_of = z3.Function('month_of', I, I)
day_of = z3.Function('day_of', I, I)


def decomposition_facts(o):
    y, m, d = year_of(o), month_of(o), day_of(o)
    return [valid_ymd(y, m, d), ymd_to_ord(y, m, d) == o]


def ord_lex_instance(a, b):
    """lemma ORD-LEX (proved as a LEMMA obligation from the closed form, see ord_lex_lemma): ordinals are ordered as their
    (year, month, day) decompositions are ordered lexicographically - instance for the ordinals a, b"""
    def lt(p, q):
        return z3.Or(year_of(p) < year_of(q),
                     z3.And(year_of(p) == year_of(q), month_of(p) < month_of(q)),
                     z3.And(year_of(p) == year_of(q), month_of(p) == month_of(q), day_of(p) < day_of(q)))
    return [z3.Implies(a < b, lt(a, b)), z3.Implies(b < a, lt(b, a))]


def ord_lex_lemma():
    """(facts, goal) of ORD-LEX over the closed form: valid (y1,m1,d1) <lex valid (y2,m2,d2) implies ord1 < ord2; with
    totality of the lexicographic order and injectivity this is the instance form used by the engine"""
    y1, m1, d1, y2, m2, d2 = z3.Ints('ol_y1 ol_m1 ol_d1 ol_y2 ol_m2 ol_d2')
    lexlt = z3.Or(y1 < y2, z3.And(y1 == y2, m1 < m2), z3.And(y1 == y2, m1 == m2, d1 < d2))
    return [valid_ymd(y1, m1, d1), valid_ymd(y2, m2, d2), lexlt], ymd_to_ord(y1, m1, d1) < ymd_to_ord(y2, m2, d2)


def built_from_fields(o, y, m, d):
    """facts for an ordinal o == ord(y, m, d) built from valid fields: its decomposition is (y, m, d)"""
    return [year_of(o) == y, month_of(o) == m, day_of(o) == d]


# str(int): an uninterpreted function (decimal text); its digits matter only for the few obligations about the text
# itself, which add the defining instance int_str(i) == z3 IntToStr explicitly (see int_str_def)
int_str = z3.Function('py_int_str', I, S)


def int_str_def(i):
    """defining fact of int_str at i (SMT-LIB str.from_int with a sign)"""
    return int_str(i) == z3.If(i >= 0, z3.IntToStr(i), z3.Concat(z3.StringVal('-'), z3.IntToStr(-i)))
