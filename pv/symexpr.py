"""Expression semantics of the symbolic executor (Python meaning of the subset, over the value universe V).

Every method returns a list of outcomes: (state, value) pairs for normal completion and Flow('exc', ...)
for exceptional completion.  Type dispatch forks the path; infeasible forks are pruned.
"""
import ast

import z3

from . import sorts as T
from .sorts import V, is_, ln, at
from .symexec import (NotFormed, PyVal, Closure, Static, PyTuple, Flow, fresh, feasible, exc_isa)

py_int_of_str = z3.Function('py_int_of_str', T.S, T.I)
py_float_of_str = z3.Function('py_float_of_str', T.S, T.R)
py_float_ok = z3.Function('py_float_ok', T.S, T.B)
str_of_dt = z3.Function('str_of_dt', V, T.S)
list_eq = z3.Function('list_eq', V, V, T.B)
obj_dict = z3.Function('obj_dict', V, V)      # A-STATIC: attribute table of an instance / of its class

DIGITS = z3.Plus(z3.Range('0', '9'))
WS = z3.Star(z3.Union(z3.Re(' '), z3.Re('\t'), z3.Re('\n')))
INT_RE = z3.Concat(WS, z3.Option(z3.Union(z3.Re('+'), z3.Re('-'))), DIGITS, WS)

BUILTIN_CLASSES = {'int': 'int', 'str': 'str', 'float': 'float', 'bool': 'bool', 'list': 'list', 'tuple': 'tuple',
                   'dict': 'dict', 'object': 'object'}


def is_term(v):
    return z3.is_expr(v)


class ExprMixin:
    # ------------------------------------------------------------------ plumbing
    def seq(self, outs, f):
        res = []
        for o in outs:
            if isinstance(o, Flow):
                res.append(o)
            else:
                res.extend(f(o[0], o[1]))
        return res

    def ev_list(self, nodes, st):
        outs = [(st, [])]
        for n in nodes:
            nxt = []
            for o in outs:
                if isinstance(o, Flow):
                    nxt.append(o)
                    continue
                s, vals = o
                for r in self.ev(n, s):
                    if isinstance(r, Flow):
                        nxt.append(r)
                    else:
                        nxt.append((r[0], vals + [r[1]]))
            outs = nxt
        return outs

    def cases(self, st, alts):
        """alts: [(condition, fn(state) -> outcomes)]; conditions should be exhaustive."""
        out = []
        for cond, fn in alts:
            c = z3.simplify(cond) if z3.is_expr(cond) else z3.BoolVal(bool(cond))
            if z3.is_false(c):
                continue
            if z3.is_true(c):
                out.extend(fn(st))
                continue
            st2 = st.add(c)
            if not feasible(st2):
                continue
            out.extend(fn(st2))
        return out

    def exc(self, st, cls):
        s2 = st.copy()
        s2.ghost = dict(st.ghost)
        s2.ghost['exc_line'] = getattr(self, 'cur_line', None)      # where the exception arises (for reports only)
        return [Flow('exc', s2, cls)]

    def val(self, st, v):
        return [(st, v)]

    def need_term(self, v, what=''):
        if not is_term(v):
            raise NotFormed(f'static value {v!r} used as a run-time value {what}')
        return v

    # ------------------------------------------------------------------ dispatcher
    def ev(self, n, st):
        m = getattr(self, 'e_' + type(n).__name__, None)
        if m is None:
            raise NotFormed(f'expression {type(n).__name__} is outside the subset')
        return m(n, st)

    def e_Constant(self, n, st):
        v = n.value
        if v is None:
            return self.val(st, T.NONE)
        if isinstance(v, bool):
            return self.val(st, T.vbool(v))
        if isinstance(v, int):
            return self.val(st, T.vint(v))
        if isinstance(v, float):
            return self.val(st, T.vfloat(z3.RealVal(repr(v))))
        if isinstance(v, str):
            return self.val(st, T.vstr(v))
        raise NotFormed(f'constant {v!r}')

    def e_Name(self, n, st):
        i = n.id
        if i in st.env:
            return self.val(st, st.env[i])
        r = self.resolve_global(i)
        if r is not None:
            return self.val(st, r)
        raise NotFormed(f'name {i} is not bound')

    def resolve_global(self, i):
        if i in getattr(self.reg, 'constants', {}):
            return self.reg.constants[i]                  # a global name bound to a value term by the contract module
        if i in BUILTIN_CLASSES:
            return Static('class:' + i)
        if i in ('len', 'isinstance', 'type', 'abs', 'max', 'min', 'sum', 'any', 'all', 'repr', 'range', 'enumerate',
                 'zip', 'filter', 'map', 'sorted', 'trunc', 'ceil', 'floor', 'round', 'hasattr', 'getattr', 'open',
                 'print', 'set', 'frozenset', 'hash', 'callable'):
            return Static('builtin:' + i)
        if i in self.reg.classes:
            return Static('class:' + i)
        if i in self.reg.contracts or ('fn:' + i) in self.reg.externals:
            return Static('fn:' + i)
        if i in self.module_functions:
            return Static('fn:' + i)
        if i in ('datetime', 'calendar', 're', 'date_parser', 'relativedelta', 'zip_longest', 'math'):
            return Static('mod:' + i)
        if i in self.reg.externals:
            return Static(i)
        if i in EXC_NAMES or i.endswith('Exception') or i.endswith('Error'):
            return Static('exc:' + i)
        return None

    # ------------------------------------------------------------------ displays
    def new_list(self, st, items, tuple_=False):
        L = (V.Tuple if tuple_ else V.List)(fresh('tid' if tuple_ else 'lid', T.I))
        facts = [ln(L) == len(items)]
        for k, it in enumerate(items):
            facts.append(at(L, k) == self.need_term(it, 'inside a list display'))
        st = st.add(*facts).know(L, items)
        return st, L

    def e_List(self, n, st):
        return self._display(n, st, False)

    def e_Tuple(self, n, st):
        return self._display(n, st, True)

    def _display(self, n, st, tup):
        if any(isinstance(e, ast.Starred) for e in n.elts):
            # [*a, *b] with statically known pieces only
            def k(st2, vals):
                items = []
                for e, v in zip(n.elts, vals):
                    if isinstance(e, ast.Starred):
                        its = st2.known_items(v)
                        if its is None:
                            raise NotFormed('starred element of unknown length in a display')
                        items += its
                    else:
                        items.append(v)
                if any(not is_term(i) for i in items):
                    return [(st2, PyTuple(items))]
                s3, L = self.new_list(st2, items, tup)
                return [(s3, L)]
            return self.seq(self.ev_list([e.value if isinstance(e, ast.Starred) else e for e in n.elts], st), k)

        def k(st2, vals):
            if any(not is_term(v) for v in vals):
                return [(st2, PyTuple(vals))]
            s3, L = self.new_list(st2, vals, tup)
            return [(s3, L)]
        return self.seq(self.ev_list(n.elts, st), k)

    def new_dict(self, st, pairs):
        """pairs: [(key term, value term)] later keys win."""
        D = V.Dict(fresh('did', T.I))
        k = fresh('k')
        keys = [p[0] for p in pairs]
        facts = [z3.ForAll([k], T.dhas(D, k) == z3.Or([k == kk for kk in keys]) if keys else
                           z3.Not(T.dhas(D, k)), patterns=[T.dhas(D, k)])]
        for i, (kk, vv) in enumerate(pairs):
            later = [pairs[j][0] == kk for j in range(i + 1, len(pairs))]
            f = T.dget(D, kk) == vv
            facts.append(z3.Implies(z3.Not(z3.Or(later)), f) if later else f)
            facts.append(T.dhas(D, kk))
        facts.append(T.dcount(D) >= (1 if pairs else 0))
        facts.append(T.dcount(D) <= len(pairs))
        if not pairs:
            for lem in getattr(self.reg, 'dict_lemmas', ()):
                facts += lem('new', D, None, None)
        return st.add(*facts), D

    def e_Dict(self, n, st):
        if any(k is None for k in n.keys):
            # {**a, **b}: merge, later wins
            if not all(k is None for k in n.keys):
                raise NotFormed('mixed ** and key: value dict display')

            def km(st2, vals):
                cur = vals[0]
                for nxt in vals[1:]:
                    D = V.Dict(fresh('did', T.I))
                    k = fresh('k')
                    st2 = st2.add(
                        z3.ForAll([k], T.dhas(D, k) == z3.Or(T.dhas(cur, k), T.dhas(nxt, k)), patterns=[T.dhas(D, k)]),
                        z3.ForAll([k], T.dget(D, k) == z3.If(T.dhas(nxt, k), T.dget(nxt, k), T.dget(cur, k)),
                                  patterns=[T.dget(D, k)]),
                        T.dcount(D) >= T.dcount(cur), T.dcount(D) >= T.dcount(nxt),
                        T.dcount(D) <= T.dcount(cur) + T.dcount(nxt))
                    cur = D
                return [(st2, cur)]
            return self.seq(self.ev_list(n.values, st), km)

        def k(st2, vals):
            ks, vs = vals[:len(n.keys)], vals[len(n.keys):]
            s3, D = self.new_dict(st2, list(zip(ks, vs)))
            return [(s3, D)]
        return self.seq(self.ev_list(list(n.keys) + list(n.values), st), k)

    def e_DictComp(self, n, st):
        """{K(x): V(x) for x in xs} over a list of unknown length (no filter): key and value are evaluated once on the
        generic element; they must be single-path and exception-free.  Later elements win; the witness of a key is
        the Skolem function dc_last(D, key) = index of its last occurrence."""
        if len(n.generators) != 1 or n.generators[0].ifs or n.generators[0].is_async:
            raise NotFormed('dict comprehension with a filter / several generators')
        g = n.generators[0]

        def k(st2, src):
            src = self.need_term(src, 'as dict-comprehension iterable')
            if feasible(st2, z3.Not(z3.Or(is_('List', src), is_('Tuple', src)))):
                raise NotFormed('dict comprehension over a value that may not be a list')
            kq = fresh('kq', T.I)
            saved = {nm: st2.env.get(nm) for nm in self._target_names(g.target)}
            s = st2.add(0 <= kq, kq < ln(src))
            s = self.bind_target(s, g.target, at(src, kq))
            outs = [o for o in self.ev_list([n.key, n.value], s) if not (isinstance(o, Flow) and not feasible(o.st))]
            if len(outs) != 1 or isinstance(outs[0], Flow):
                raise NotFormed('dict comprehension whose key / value forks or may raise')
            s_after, (kt, vt) = outs[0]
            kt, vt = self.need_term(kt), self.need_term(vt)
            if len(s_after.axioms) > len(s.axioms):
                raise NotFormed('dict comprehension key / value with quantified side conditions')
            # exactly one path survived and every alternative was infeasible, so the path facts added on the way are
            # entailed for the generic element up to definitions of fresh locals; they are not needed below
            D = V.Dict(fresh('did', T.I))
            last = z3.Function(f'dc_last!{kq.get_id()}', V, T.I)
            j, key = fresh('j', T.I), fresh('key')
            Kj, Vj = z3.substitute(kt, (kq, j)), z3.substitute(vt, (kq, j))
            li = last(key)
            Kl, Vl = z3.substitute(kt, (kq, li)), z3.substitute(vt, (kq, li))
            j2 = fresh('j', T.I)
            K2 = z3.substitute(kt, (kq, j2))
            facts = [
                z3.ForAll([j], z3.Implies(z3.And(0 <= j, j < ln(src)), T.dhas(D, Kj)), patterns=[at(src, j)]),
                z3.ForAll([key], z3.Implies(T.dhas(D, key), z3.And(0 <= li, li < ln(src), Kl == key, T.dget(D, key) == Vl)),
                          patterns=[T.dhas(D, key)]),
                z3.ForAll([key, j2], z3.Implies(z3.And(T.dhas(D, key), li < j2, j2 < ln(src)), K2 != key),
                          patterns=[z3.MultiPattern(T.dhas(D, key), at(src, j2))]),
                T.dcount(D) >= 0, T.dcount(D) <= ln(src)]
            st3 = self._restore(st2, saved)
            return [(st3.add(*facts), D)]
        return self.seq(self.ev(g.iter, st), k)

    def e_SetComp(self, n, st):
        """{E(x) for x in xs}: abstracted to a set with UNCONSTRAINED membership (imprecise, flagged); the generator is
        not evaluated.  Only membership tests may follow."""
        self.imprecise.add('set comprehension (membership unconstrained)')
        D = V.Dict(fresh('setid', T.I))
        return [(st.add(T.dcount(D) >= 0), D)]

    def e_JoinedStr(self, n, st):
        parts = []
        nodes = []
        for v in n.values:
            if isinstance(v, ast.Constant):
                parts.append(('c', v.value))
            elif isinstance(v, ast.FormattedValue):
                if v.format_spec is not None or v.conversion not in (-1, 115):
                    raise NotFormed('f-string format spec / conversion')
                parts.append(('e', len(nodes)))
                nodes.append(v.value)

        def k(st2, vals):
            def go(i, st3, acc):
                if i == len(parts):
                    return [(st3, V.Str(acc))]
                kind, x = parts[i]
                if kind == 'c':
                    return go(i + 1, st3, z3.Concat(acc, z3.StringVal(x)) if acc is not None else z3.StringVal(x))
                return self.seq(self.p_str(st3, vals[x]),
                                lambda s4, sv: go(i + 1, s4, z3.Concat(acc, V.sval(sv)) if acc is not None else V.sval(sv)))
            return go(0, st2, z3.StringVal(''))
        return self.seq(self.ev_list(nodes, st), k)

    # ------------------------------------------------------------------ operators
    def e_BoolOp(self, n, st):
        is_and = isinstance(n.op, ast.And)

        def go(i, st2):
            def k(st3, v):
                if i == len(n.values) - 1:
                    return [(st3, v)]
                t = self.truth(v)
                stop = z3.Not(t) if is_and else t
                return self.cases(st3, [(stop, lambda s: [(s, v)]), (z3.Not(stop), lambda s: go(i + 1, s))])
            return self.seq(self.ev(n.values[i], st2), k)
        return go(0, st)

    def truth(self, v):
        if isinstance(v, PyVal):
            if isinstance(v, PyTuple):
                return z3.BoolVal(bool(v.items))
            return z3.BoolVal(True)
        return T.truthy(v)

    def e_UnaryOp(self, n, st):
        def k(st2, v):
            if isinstance(n.op, ast.Not):
                return [(st2, V.Bool(z3.Not(self.truth(v))))]
            if isinstance(n.op, ast.USub):
                v = self.need_term(v)
                return self.cases(st2, [
                    (T.is_intlike(v), lambda s: [(s, V.Int(-T.int_of(v)))]),
                    (is_('Float', v), lambda s: [(s, V.Float(-V.fval(v)))]),
                    (z3.Not(T.is_num(v)), lambda s: self.exc(s, 'TypeError'))])
            if isinstance(n.op, ast.UAdd):
                v = self.need_term(v)
                return self.cases(st2, [(T.is_num(v), lambda s: [(s, z3.If(is_('Float', v), v, V.Int(T.int_of(v))))]),
                                        (z3.Not(T.is_num(v)), lambda s: self.exc(s, 'TypeError'))])
            raise NotFormed('unary operator')
        return self.seq(self.ev(n.operand, st), k)

    def e_IfExp(self, n, st):
        def k(st2, c):
            t = self.truth(c)
            return self.cases(st2, [(t, lambda s: self.ev(n.body, s)), (z3.Not(t), lambda s: self.ev(n.orelse, s))])
        return self.seq(self.ev(n.test, st), k)

    def e_NamedExpr(self, n, st):
        return self.seq(self.ev(n.value, st), lambda s, v: [(s.setenv(n.target.id, v), v)])

    def e_BinOp(self, n, st):
        return self.seq(self.ev_list([n.left, n.right], st), lambda s, vs: self.p_binop(s, n.op, vs[0], vs[1]))

    def e_Compare(self, n, st):
        def go(i, st2, left):
            def k(st3, right):
                def k2(st4, r):
                    if i == len(n.ops) - 1:
                        return [(st4, r)]
                    t = self.truth(r)
                    return self.cases(st4, [(z3.Not(t), lambda s: [(s, r)]), (t, lambda s: go(i + 1, s, right))])
                return self.seq(self.p_compare(st3, n.ops[i], left, right), k2)
            return self.seq(self.ev(n.comparators[i], st2), k)
        return self.seq(self.ev(n.left, st), lambda s, v: go(0, s, v))

    # ------------------------------------------------------------------ primitive semantics
    def p_binop(self, st, op, a, b):
        a, b = self.need_term(a, 'in arithmetic'), self.need_term(b, 'in arithmetic')
        for hook in getattr(self.reg, 'binop_hooks', ()):
            h = hook(self, st, op, a, b)
            if h is not None:
                cond, fn = h
                rest = st.add(z3.Not(cond))
                outs = self.cases(st, [(cond, fn)])
                if feasible(rest):
                    outs = outs + self._p_binop(rest, op, a, b)
                return outs
        return self._p_binop(st, op, a, b)

    def _p_binop(self, st, op, a, b):
        both_int = z3.And(T.is_intlike(a), T.is_intlike(b))
        both_num = z3.And(T.is_num(a), T.is_num(b))
        some_float = z3.And(both_num, z3.Not(both_int))
        ia, ib, ra, rb = T.int_of(a), T.int_of(b), T.real_of(a), T.real_of(b)
        if isinstance(op, ast.Add):
            return self.cases(st, [
                (both_int, lambda s: [(s, V.Int(ia + ib))]),
                (some_float, lambda s: [(s, V.Float(ra + rb))]),
                (z3.And(is_('Str', a), is_('Str', b)), lambda s: [(s, V.Str(z3.Concat(V.sval(a), V.sval(b))))]),
                (z3.And(is_('List', a), is_('List', b)), lambda s: self.list_concat(s, a, b)),
                (z3.And(is_('DateTime', a), is_('TimeDelta', b)), lambda s: self.dt_add(s, a, b, 1)),
                (z3.And(is_('Date', a), is_('TimeDelta', b)), lambda s: [(s, V.Date(V.dord(a) + V.tdays(b)))]),
                (z3.Not(z3.Or(both_num, z3.And(is_('Str', a), is_('Str', b)), z3.And(is_('List', a), is_('List', b)),
                              z3.And(z3.Or(is_('DateTime', a), is_('Date', a)), is_('TimeDelta', b)))),
                 lambda s: self.exc(s, 'TypeError'))])
        if isinstance(op, ast.Sub):
            return self.cases(st, [
                (both_int, lambda s: [(s, V.Int(ia - ib))]),
                (some_float, lambda s: [(s, V.Float(ra - rb))]),
                (z3.And(is_('DateTime', a), is_('DateTime', b)), lambda s: self.dt_diff(s, a, b)),
                (z3.And(is_('Date', a), is_('Date', b)),
                 lambda s: [(s, V.TimeDelta(V.dord(a) - V.dord(b), z3.IntVal(0)))]),
                (z3.And(is_('DateTime', a), is_('TimeDelta', b)), lambda s: self.dt_add(s, a, b, -1)),
                (z3.And(is_('Date', a), is_('TimeDelta', b)), lambda s: [(s, V.Date(V.dord(a) - V.tdays(b)))]),
                (z3.Not(z3.Or(both_num, z3.And(is_('DateTime', a), is_('DateTime', b)),
                              z3.And(is_('Date', a), is_('Date', b)),
                              z3.And(z3.Or(is_('DateTime', a), is_('Date', a)), is_('TimeDelta', b)))),
                 lambda s: self.exc(s, 'TypeError'))])
        if isinstance(op, ast.Mult):
            return self.cases(st, [
                (both_int, lambda s: [(s, V.Int(ia * ib))]),
                (some_float, lambda s: [(s, V.Float(ra * rb))]),
                (z3.Not(both_num), lambda s: self._mult_other(s, a, b))])
        if isinstance(op, ast.Div):
            return self.cases(st, [
                (z3.And(both_num, rb == 0), lambda s: self.exc(s, 'ZeroDivisionError')),
                (z3.And(both_num, rb != 0), lambda s: [(s, V.Float(ra / rb))]),
                (z3.Not(both_num), lambda s: self.exc(s, 'TypeError'))])
        if isinstance(op, (ast.FloorDiv, ast.Mod)):
            q = z3.If(ib > 0, ia / ib, (-ia) / (-ib))
            r = ia - ib * q
            return self.cases(st, [
                (z3.And(both_int, ib == 0), lambda s: self.exc(s, 'ZeroDivisionError')),
                (z3.And(both_int, ib != 0), lambda s: [(s, V.Int(q if isinstance(op, ast.FloorDiv) else r))]),
                (z3.Not(both_int), lambda s: self._not_modelled(s, 'floor division / modulo on non-integers'))])
        raise NotFormed(f'binary operator {type(op).__name__}')

    def _not_modelled(self, st, what):
        if feasible(st):
            raise NotFormed(what + ' reachable')
        return []

    def _mult_other(self, st, a, b):
        seqs = z3.Or(is_('Str', a), is_('List', a), is_('Str', b), is_('List', b))
        return self.cases(st, [(seqs, lambda s: self._not_modelled(s, 'sequence repetition')),
                               (z3.Not(seqs), lambda s: self.exc(s, 'TypeError'))])

    def list_concat(self, st, a, b):
        L = V.List(fresh('lid', T.I))
        k = fresh('k', T.I)
        facts = [ln(L) == ln(a) + ln(b),
                 z3.ForAll([k], z3.Implies(z3.And(0 <= k, k < ln(a)), at(L, k) == at(a, k)), patterns=[at(L, k)]),
                 z3.ForAll([k], z3.Implies(z3.And(0 <= k, k < ln(b)), at(L, ln(a) + k) == at(b, k)),
                           patterns=[at(b, k)]),
                 z3.ForAll([k], z3.Implies(z3.And(ln(a) <= k, k < ln(a) + ln(b)), at(L, k) == at(b, k - ln(a))),
                           patterns=[at(L, k)])]
        st = st.add(*facts)
        ka, kb = st.known_items(a), st.known_items(b)
        if ka is not None and kb is not None:
            st = st.know(L, ka + kb)
        return [(st, L)]

    def dt_add(self, st, a, b, sign):
        tot = V.tord(a) * 86400 + V.tsec(a) + sign * (V.tdays(b) * 86400 + V.tdsec(b))
        o, s_ = fresh('ord', T.I), fresh('sec', T.I)
        st = st.add(tot == o * 86400 + s_, 0 <= s_, s_ < 86400)
        return self.cases(st, [(z3.And(o >= 1, o <= 3652059), lambda s: [(s, V.DateTime(o, s_))]),
                               (z3.Not(z3.And(o >= 1, o <= 3652059)), lambda s: self.exc(s, 'OverflowError'))])

    def dt_diff(self, st, a, b):
        tot = (V.tord(a) - V.tord(b)) * 86400 + (V.tsec(a) - V.tsec(b))
        d, s_ = fresh('days', T.I), fresh('sec', T.I)
        st = st.add(tot == d * 86400 + s_, 0 <= s_, s_ < 86400)
        return [(st, V.TimeDelta(d, s_))]

    def p_eq_builtin(self, a, b):
        """a == b for operands none of which is an EmptyCell (z3 Bool); lists compare by an uninterpreted
        relation (imprecise, flagged)."""
        same_kind_other = z3.And(z3.Not(T.is_num(a)), z3.Not(T.is_num(b)))
        return z3.If(z3.And(T.is_intlike(a), T.is_intlike(b)), T.int_of(a) == T.int_of(b),
               z3.If(z3.And(T.is_num(a), T.is_num(b)), T.real_of(a) == T.real_of(b),
               z3.If(z3.And(is_('Str', a), is_('Str', b)), V.sval(a) == V.sval(b),
               z3.If(z3.And(is_('DateTime', a), is_('DateTime', b)), T.dt_key(a) == T.dt_key(b),
               z3.If(z3.And(is_('Date', a), is_('Date', b)), V.dord(a) == V.dord(b),
               z3.If(z3.And(is_('List', a), is_('List', b)), z3.Or(a == b, list_eq(a, b)),
               z3.If(z3.And(is_('Tuple', a), is_('Tuple', b)), z3.Or(a == b, list_eq(a, b)),
                     z3.And(same_kind_other, a == b, z3.Not(is_('DateTime', a)), z3.Not(is_('Date', a)),
                            z3.Not(is_('Str', a))))))))))

    def p_eq(self, st, a, b, negate=False):
        """Python ==; returns outcomes with V.Bool values. Blank cells dispatch to the real EmptyCell.__eq__."""
        def fin(s, r):
            return [(s, V.Bool(z3.Not(r)) if negate else V.Bool(r))]

        if not is_term(a) or not is_term(b):
            if isinstance(a, Static) and isinstance(b, Static):
                return fin(st, z3.BoolVal(a.path == b.path))
            if (isinstance(a, Static) and a.path.startswith('class:')) or \
                    (isinstance(b, Static) and b.path.startswith('class:')):
                # a class object compared with a value: equal only to the Cls value of the same class
                a2, b2 = self.cls_value(a), self.cls_value(b)
                return fin(st, a2 == b2)
            raise NotFormed('== on static values')
        ea, eb = is_('Empty', a), is_('Empty', b)

        info = self.reg.classes.get('EmptyCell')
        has_ne = bool(info and '__ne__' in info['methods'])

        def via_empty(s, self_v, other):
            if negate and has_ne:
                return self.seq(self.call_empty_method(s, '__ne__', self_v, other),
                                lambda s2, r: [(s2, V.Bool(self.truth(r)))])
            if negate:
                # no __ne__ in the class: int.__ne__ answers for numbers and NotImplemented otherwise; the reflected
                # call answers NotImplemented too and Python falls back to identity (!= is then True)
                o = other
                return [(s, V.Bool(z3.If(T.is_num(o), T.real_of(o) != 0, z3.BoolVal(True))))]
            return self.seq(self.call_empty_method(s, '__eq__', self_v, other),
                            lambda s2, r: fin(s2, self.truth(r)))
        if is_('List', a) is not None and self._mentions_list_eq_needed(a, b):
            self.imprecise.add('list ==')
        return self.cases(st, [
            (ea, lambda s: via_empty(s, a, b)),
            # reflected call: int/bool (EmptyCell is a subclass: its method has priority) and every type whose own
            # __eq__ answers NotImplemented for an int subclass instance (str, None, dates, containers)
            (z3.And(z3.Not(ea), eb, z3.Not(is_('Float', a))), lambda s: via_empty(s, b, a)),
            (z3.And(z3.Not(ea), eb, is_('Float', a)), lambda s: fin(s, V.fval(a) == 0)),
            (z3.And(z3.Not(ea), z3.Not(eb)), lambda s: fin(s, self.p_eq_builtin(a, b)))])

    def _mentions_list_eq_needed(self, a, b):
        return False

    def p_order(self, st, opname, a, b):
        """a < b etc. for opname in lt le gt ge."""
        a, b = self.need_term(a, 'in a comparison'), self.need_term(b, 'in a comparison')
        ea, eb = is_('Empty', a), is_('Empty', b)
        refl = {'lt': 'gt', 'gt': 'lt', 'le': 'ge', 'ge': 'le'}[opname]

        def rel(x, y):
            return {'lt': x < y, 'le': x <= y, 'gt': x > y, 'ge': x >= y}[opname]

        def srel(x, y):
            return {'lt': x < y, 'le': x <= y, 'gt': y < x, 'ge': y <= x}[opname]

        def via_empty(s, meth, self_v, other):
            return self.seq(self.call_empty_method(s, f'__{meth}__', self_v, other),
                            lambda s2, r: [(s2, V.Bool(self.truth(r)))])
        nn = z3.And(z3.Not(ea), z3.Not(eb))
        num = z3.And(nn, T.is_num(a), T.is_num(b))
        strs = z3.And(is_('Str', a), is_('Str', b))
        dts = z3.And(is_('DateTime', a), is_('DateTime', b))
        ds = z3.And(is_('Date', a), is_('Date', b))
        return self.cases(st, [
            (ea, lambda s: via_empty(s, opname, a, b)),
            (z3.And(z3.Not(ea), eb, z3.Not(is_('Float', a))), lambda s: via_empty(s, refl, b, a)),
            (z3.And(z3.Not(ea), eb, is_('Float', a)), lambda s: [(s, V.Bool(rel(V.fval(a), z3.RealVal(0))))]),
            (num, lambda s: [(s, V.Bool(rel(T.real_of(a), T.real_of(b))))]),
            (strs, lambda s: [(s, V.Bool(srel(V.sval(a), V.sval(b))))]),
            (dts, lambda s: [(s, V.Bool(rel(T.dt_key(a), T.dt_key(b))))]),
            (ds, lambda s: [(s, V.Bool(rel(V.dord(a), V.dord(b))))]),
            (z3.And(nn, z3.Not(z3.Or(z3.And(T.is_num(a), T.is_num(b)), strs, dts, ds))),
             lambda s: self._order_other(s, a, b))])

    def _order_other(self, st, a, b):
        lists = z3.Or(z3.And(is_('List', a), is_('List', b)), z3.And(is_('Tuple', a), is_('Tuple', b)),
                      z3.And(is_('TimeDelta', a), is_('TimeDelta', b)))
        return self.cases(st, [(lists, lambda s: self._not_modelled(s, 'ordering of containers')),
                               (z3.Not(lists), lambda s: self.exc(s, 'TypeError'))])

    def p_compare(self, st, op, a, b):
        if isinstance(op, ast.Eq):
            return self.p_eq(st, a, b)
        if isinstance(op, ast.NotEq):
            return self.p_eq(st, a, b, negate=True)
        if isinstance(op, (ast.Is, ast.IsNot)):
            neg = isinstance(op, ast.IsNot)
            if isinstance(a, Static) or isinstance(b, Static):
                # type(x) is int / x.__class__ is C : handled through Cls values
                a2, b2 = self.cls_value(a), self.cls_value(b)
                r = a2 == b2
            elif is_term(a) and is_term(b) and (z3.eq(b, T.NONE) or z3.eq(a, T.NONE)):
                r = is_('NoneV', a if z3.eq(b, T.NONE) else b)
            else:
                a, b = self.need_term(a), self.need_term(b)
                # identity: exact for None / bools / objects; for other immutable scalars `is` is not used in the subset
                def ident_ok(x):     # values whose identity coincides with equality of the V term
                    return z3.Or(is_('NoneV', x), is_('Obj', x), is_('Bool', x), is_('Cls', x))
                if feasible(st, z3.And(z3.Not(ident_ok(a)), z3.Not(ident_ok(b)))):
                    raise NotFormed('`is` on values other than None / bool / objects / classes')
                r = a == b
            return [(st, V.Bool(z3.Not(r) if neg else r))]
        if isinstance(op, (ast.In, ast.NotIn)):
            return self.p_in(st, a, b, isinstance(op, ast.NotIn))
        name = {ast.Lt: 'lt', ast.LtE: 'le', ast.Gt: 'gt', ast.GtE: 'ge'}[type(op)]
        return self.p_order(st, name, a, b)

    def cls_value(self, v):
        if isinstance(v, Static):
            if v.path.startswith('class:'):
                c = v.path[6:]
                if c in T.CLS:
                    return V.Cls(z3.IntVal(T.CLS[c]))
                if c == 'EmptyCell':
                    return V.Cls(z3.IntVal(T.CLS['EmptyCell']))
                return V.Cls(z3.IntVal(1000 + sorted(self.reg.classes).index(c))) if c in self.reg.classes else \
                    V.Cls(z3.IntVal(2000 + (hash(c) % 1000)))
            raise NotFormed(f'{v} used as a class value')
        return v

    def p_in(self, st, a, b, negate):
        a = self.need_term(a, 'as left operand of in')
        items = st.known_items(b)
        if items is not None:
            # x in [c1, c2, ...]: identity-or-equality against each element, left to right
            def go(i, s):
                if i == len(items):
                    return [(s, V.Bool(z3.BoolVal(negate)))]

                def k(s2, r):
                    t = V.bval(r)
                    return self.cases(s2, [(t, lambda s3: [(s3, V.Bool(z3.BoolVal(not negate)))]),
                                           (z3.Not(t), lambda s3: go(i + 1, s3))])
                # `x in list` uses `x is e or x == e` with the list element on the RIGHT of ==
                return self.seq(self.p_eq(s, a, items[i]), k)
            return go(0, st)
        b = self.need_term(b)

        def in_dict(s):
            r = T.dhas(b, a)
            return [(s, V.Bool(z3.Not(r) if negate else r))]

        def in_str(s):
            return self.cases(s, [
                (is_('Str', a), lambda s2: [(s2, V.Bool(z3.Not(z3.Contains(V.sval(b), V.sval(a))) if negate
                                                        else z3.Contains(V.sval(b), V.sval(a))))]),
                (z3.Not(is_('Str', a)), lambda s2: self.exc(s2, 'TypeError'))])

        def in_list(s):
            # membership in a list of unknown length: only for scalar non-blank elements compared by ==
            k = fresh('k', T.I)
            r = z3.Exists([k], z3.And(0 <= k, k < ln(b), self.p_eq_builtin(a, at(b, k))))
            self.imprecise.add('in <list of unknown length> (blank-cell dispatch not applied)')
            return [(s, V.Bool(z3.Not(r) if negate else r))]
        return self.cases(st, [(is_('Dict', b), in_dict), (is_('Str', b), in_str),
                               (z3.Or(is_('List', b), is_('Tuple', b)), in_list),
                               (z3.Not(z3.Or(is_('Dict', b), is_('Str', b), is_('List', b), is_('Tuple', b))),
                                lambda s: self.exc(s, 'TypeError'))])

    def p_int(self, st, x):
        x = self.need_term(x)
        r = V.fval(x)
        trunc = z3.If(r >= 0, z3.ToInt(r), -z3.ToInt(-r))
        s_ = V.sval(x)
        ok = z3.InRe(s_, INT_RE)
        pure = z3.InRe(s_, DIGITS)
        return self.cases(st, [
            (T.is_intlike(x), lambda s: [(s, V.Int(T.int_of(x)))]),
            (is_('Float', x), lambda s: [(s, V.Int(trunc))]),
            (z3.And(is_('Str', x), ok), lambda s: [(s.add(z3.Implies(pure, py_int_of_str(s_) == z3.StrToInt(s_))),
                                                    V.Int(py_int_of_str(s_)))]),
            (z3.And(is_('Str', x), z3.Not(ok)), lambda s: self.exc(s, 'ValueError')),
            (z3.Not(z3.Or(T.is_num(x), is_('Str', x))), lambda s: self.exc(s, 'TypeError'))])

    def p_float(self, st, x):
        x = self.need_term(x)
        s_ = V.sval(x)
        pure = z3.InRe(s_, DIGITS)
        return self.cases(st, [
            (T.is_num(x), lambda s: [(s, V.Float(T.real_of(x)))]),
            (z3.And(is_('Str', x), py_float_ok(s_)),
             lambda s: [(s.add(z3.Implies(pure, py_float_of_str(s_) == z3.ToReal(z3.StrToInt(s_)))),
                         V.Float(py_float_of_str(s_)))]),
            (z3.And(is_('Str', x), z3.Not(py_float_ok(s_))),
             lambda s: self.exc(s.add(z3.Not(pure), z3.Not(z3.InRe(s_, INT_RE))), 'ValueError')),
            (z3.Not(z3.Or(T.is_num(x), is_('Str', x))), lambda s: self.exc(s, 'TypeError'))])

    def int_to_str(self, i):
        return T.int_str(i)

    def p_str(self, st, x):
        if isinstance(x, PyVal):
            raise NotFormed('str() of a static value')
        return self.cases(st, [
            (is_('Str', x), lambda s: [(s, x)]),
            (is_('Int', x), lambda s: [(s, V.Str(self.int_to_str(V.ival(x))))]),
            (is_('Bool', x), lambda s: [(s, V.Str(z3.If(V.bval(x), z3.StringVal('True'), z3.StringVal('False'))))]),
            (is_('NoneV', x), lambda s: [(s, T.vstr('None'))]),
            (is_('Empty', x), lambda s: [(s, T.vstr('0'))]),
            (is_('Float', x), lambda s: self._imprecise_val(s, 'str(float)', V.Str(T.str_of_real(V.fval(x))))),
            (z3.Not(z3.Or(is_('Str', x), is_('Int', x), is_('Bool', x), is_('NoneV', x), is_('Empty', x),
                          is_('Float', x))),
             lambda s: self._imprecise_val(s, 'str(<non-scalar>)', V.Str(str_of_dt(x))))])

    def _imprecise_val(self, st, what, v):
        self.imprecise.add(what)
        return [(st, v)]

    def p_len(self, st, x):
        x = self.need_term(x) if not isinstance(x, PyTuple) else x
        if isinstance(x, PyTuple):
            return [(st, T.vint(len(x.items)))]
        return self.cases(st, [
            (z3.Or(is_('List', x), is_('Tuple', x)), lambda s: [(s.add(ln(x) >= 0), V.Int(ln(x)))]),
            (is_('Str', x), lambda s: [(s, V.Int(z3.Length(V.sval(x))))]),
            (is_('Dict', x), lambda s: [(s.add(T.dcount(x) >= 0), V.Int(T.dcount(x)))]),
            (z3.Not(z3.Or(is_('List', x), is_('Tuple', x), is_('Str', x), is_('Dict', x))),
             lambda s: self.exc(s, 'TypeError'))])

    # ------------------------------------------------------------------ subscripts
    def e_Subscript(self, n, st):
        if isinstance(n.slice, ast.Slice):
            sl = n.slice
            parts = [sl.lower, sl.upper, sl.step]
            nodes = [p for p in parts if p is not None]

            def k(st2, vals):
                o = vals[0]
                it = iter(vals[1:])
                lo, hi, step = [next(it) if p is not None else None for p in parts]
                return self.p_slice(st2, o, lo, hi, step)
            return self.seq(self.ev_list([n.value] + nodes, st), k)
        return self.seq(self.ev_list([n.value, n.slice], st), lambda s, vs: self.p_getitem(s, vs[0], vs[1]))

    def p_getitem(self, st, o, i):
        if isinstance(o, PyTuple):
            if is_term(i):
                iv = z3.simplify(V.ival(i))
                if z3.is_int_value(iv):
                    k = iv.as_long()
                    if -len(o.items) <= k < len(o.items):
                        return [(st, o.items[k])]
                    return self.exc(st, 'IndexError')
            raise NotFormed('static sequence indexed by a symbolic index')
        o, i = self.need_term(o), self.need_term(i)

        def seq_index(s):
            n_ = ln(o)
            idx = T.int_of(i)
            real = z3.If(idx < 0, idx + n_, idx)
            s = s.add(n_ >= 0)
            return self.cases(s, [
                (z3.And(T.is_intlike(i), real >= 0, real < n_), lambda s2: [(s2, self._at(s2, o, real))]),
                (z3.And(T.is_intlike(i), z3.Not(z3.And(real >= 0, real < n_))), lambda s2: self.exc(s2, 'IndexError')),
                (z3.Not(T.is_intlike(i)), lambda s2: self.exc(s2, 'TypeError'))])

        def str_index(s):
            n_ = z3.Length(V.sval(o))
            idx = T.int_of(i)
            real = z3.If(idx < 0, idx + n_, idx)
            return self.cases(s, [
                (z3.And(T.is_intlike(i), real >= 0, real < n_),
                 lambda s2: [(s2, V.Str(z3.SubString(V.sval(o), real, 1)))]),
                (z3.And(T.is_intlike(i), z3.Not(z3.And(real >= 0, real < n_))), lambda s2: self.exc(s2, 'IndexError')),
                (z3.Not(T.is_intlike(i)), lambda s2: self.exc(s2, 'TypeError'))])

        def dict_index(s):
            return self.cases(s, [(T.dhas(o, i), lambda s2: [(s2, T.dget(o, i))]),
                                  (z3.Not(T.dhas(o, i)), lambda s2: self.exc(s2, 'KeyError'))])
        return self.cases(st, [
            (z3.Or(is_('List', o), is_('Tuple', o)), seq_index), (is_('Str', o), str_index),
            (is_('Dict', o), dict_index),
            (z3.Not(z3.Or(is_('List', o), is_('Tuple', o), is_('Str', o), is_('Dict', o))),
             lambda s: self.exc(s, 'TypeError'))])

    def _at(self, st, o, idx):
        items = st.known_items(o)
        iv = z3.simplify(idx)
        if items is not None and z3.is_int_value(iv) and 0 <= iv.as_long() < len(items):
            return items[iv.as_long()]
        return at(o, idx)

    def _clamp(self, v, n_, default):
        """Python slice bound normalisation for step 1."""
        if v is None:
            return default
        i = T.int_of(v)
        return z3.If(is_('NoneV', v), default, z3.If(i < 0, z3.If(i + n_ < 0, 0, i + n_), z3.If(i > n_, n_, i)))

    def p_slice(self, st, o, lo, hi, step):
        o = self.need_term(o)
        for b in (lo, hi):
            if b is not None and feasible(st, z3.Not(z3.Or(T.is_intlike(b), is_('NoneV', b)))):
                raise NotFormed('slice bound that may be neither int nor None')
        if step is not None:
            sv = z3.simplify(V.ival(step))
            if not (z3.is_int_value(sv) and sv.as_long() == -1 and lo is None and hi is None):
                raise NotFormed('only [::-1] is supported as extended slice')

            def rev(s):
                L = V.List(fresh('lid', T.I))
                k = fresh('k', T.I)
                return [(s.add(ln(L) == ln(o), ln(o) >= 0,
                               z3.ForAll([k], z3.Implies(z3.And(0 <= k, k < ln(o)), at(L, k) == at(o, ln(o) - 1 - k)),
                                         patterns=[at(L, k)]),
                               # the same fact, triggered from the source list (needed to map positions back)
                               z3.ForAll([k], z3.Implies(z3.And(0 <= k, k < ln(o)), at(o, k) == at(L, ln(o) - 1 - k)),
                                         patterns=[at(o, k)])), L)]
            return self.cases(st, [(is_('List', o), rev),
                                   (z3.Not(is_('List', o)), lambda s: self._not_modelled(s, '[::-1] on a non-list'))])

        def str_slice(s):
            n_ = z3.Length(V.sval(o))
            a, b = self._clamp(lo, n_, z3.IntVal(0)), self._clamp(hi, n_, n_)
            length = z3.If(b > a, b - a, 0)
            return [(s, V.Str(z3.SubString(V.sval(o), a, length)))]

        def list_slice(s):
            n_ = ln(o)
            a, b = self._clamp(lo, n_, z3.IntVal(0)), self._clamp(hi, n_, n_)
            L = V.List(fresh('lid', T.I))
            k = fresh('k', T.I)
            return [(s.add(n_ >= 0, ln(L) == z3.If(b > a, b - a, 0),
                           z3.ForAll([k], z3.Implies(z3.And(0 <= k, k < ln(L)), at(L, k) == at(o, a + k)),
                                     patterns=[at(L, k)])), L)]
        return self.cases(st, [(is_('Str', o), str_slice), (is_('List', o), list_slice),
                               (z3.Not(z3.Or(is_('Str', o), is_('List', o))), lambda s: self.exc(s, 'TypeError'))])

    # ------------------------------------------------------------------ attributes
    def e_Attribute(self, n, st):
        return self.seq(self.ev(n.value, st), lambda s, o: self.p_getattr(s, o, n.attr, n))

    DATE_ATTRS = ('year', 'month', 'day')

    def p_getattr(self, st, o, attr, node=None):
        if isinstance(o, Static):
            return [(st, self.static_attr(o, attr))]
        if isinstance(o, PyVal):
            raise NotFormed(f'attribute {attr} of {o!r}')
        if ('method:' + attr) in self.reg.externals:
            return [(st, BoundBuiltin(o, attr))]         # an assumed (external) contract takes precedence over source
        if ('attr:' + attr) in self.reg.externals and attr != '__class__':
            return self.reg.externals['attr:' + attr](self, st, [o], {}, node)
        # nested classes of the runtime class (self.EmptyCell, self.ExcelInPythonException)
        for cname, info in self.reg.classes.items():
            if attr in info.get('nested', {}):
                nd = info['nested'][attr]
                bases = [b.id for b in getattr(nd, 'bases', []) if isinstance(b, ast.Name)]
                if 'Exception' in bases:
                    return [(st, Static('exc:' + attr))]
                return [(st, Static('class:' + attr))]
        # properties / methods of repository classes, resolved by name
        owner = self.find_member(attr)
        if owner is not None:
            cname, kind, mnode = owner
            if kind == 'prop':
                return self.call_named(st, Closure(mnode, {}, name=f'{cname}.{attr}'), [o], {}, node)
            if kind == 'method':
                return [(st, Closure(mnode, {}, name=f'{cname}.{attr}', self_val=o))]
        if attr in self.DATE_ATTRS:
            alts = [(z3.Or(is_('DateTime', o), is_('Date', o)), lambda s: self.date_attr(s, o, attr))]
            if attr in st.heap:
                alts.append((is_('Obj', o), lambda s: [(s, z3.Select(s.heap[attr], V.oid(o)))]))
                alts.append((z3.Not(z3.Or(is_('DateTime', o), is_('Date', o), is_('Obj', o))),
                             lambda s: self.exc(s, 'AttributeError')))
            else:
                alts.append((z3.Not(z3.Or(is_('DateTime', o), is_('Date', o))),
                             lambda s: self.exc(s, 'AttributeError')))
            return self.cases(st, alts)
        if attr == 'days':
            return self.cases(st, [(is_('TimeDelta', o), lambda s: [(s, V.Int(V.tdays(o)))]),
                                   (z3.Not(is_('TimeDelta', o)), lambda s: self.exc(s, 'AttributeError'))])
        if attr == '__class__' and 'attr:__class__' in self.reg.externals:
            return self.reg.externals['attr:__class__'](self, st, [o], {}, node)
        if attr == '__class__':
            if is_term(o) and self.class_name and self.class_name in ('ExcelInPython',):
                # A-STATIC: the class of the runtime instance is the generated class; its attribute table is the
                # uninterpreted dict obj_dict(Cls) (methods as callables)
                return self.cases(st, [(is_('Obj', o), lambda s: [(s, V.Cls(z3.IntVal(900)))]),
                                       (z3.Not(is_('Obj', o)), lambda s: [(s, V.Cls(T.tag_id(o)))])])
            return [(st, V.Cls(T.tag_id(o)))]
        if attr == '__dict__':
            d = obj_dict(o)
            return [(st.add(is_('Dict', d), T.dcount(d) >= 0), d)]
        if attr in st.heap:
            return self.cases(st, [(is_('Obj', o), lambda s: [(s, z3.Select(s.heap[attr], V.oid(o)))]),
                                   (z3.Not(is_('Obj', o)), lambda s: self.exc(s, 'AttributeError'))])
        # method of a built-in value: resolved at the call
        return [(st, BoundBuiltin(o, attr))]

    def date_attr(self, st, o, attr):
        ordv = z3.simplify(z3.If(is_('DateTime', o), V.tord(o), V.dord(o)))
        st, y, m, d = self.ymd_of(st, ordv)
        return [(st, V.Int({'year': y, 'month': m, 'day': d}[attr]))]

    def ymd_of(self, st, ordv):
        """(year, month, day) of an ordinal through the decomposition functions year_of / month_of / day_of (shared
        with the specifications), with their characterisation added once per ordinal term and path."""
        hit = st.ymd.get(ordv.get_id())
        y, m, d = T.year_of(ordv), T.month_of(ordv), T.day_of(ordv)
        if hit is not None:
            return st, y, m, d
        st = st.add(*T.decomposition_facts(ordv))
        for (other, _, _, _) in st.ymd.values():          # lemma ORD-LEX, one instance per pair of decomposed ordinals
            st = st.add(*T.ord_lex_instance(other, ordv))
        st.ymd = dict(st.ymd)
        st.ymd[ordv.get_id()] = (ordv, y, m, d)
        return st, y, m, d

    def find_member(self, attr):
        found = []
        for cname, info in self.reg.classes.items():
            if attr in info['props']:
                found.append((cname, 'prop', info['props'][attr]))
            elif attr in info['methods']:
                found.append((cname, 'method', info['methods'][attr]))
        if len(found) == 1:
            return found[0]
        if len(found) > 1:
            pref = [f for f in found if f[0] == self.class_name]
            if len(pref) == 1:
                return pref[0]
            raise NotFormed(f'member {attr} is defined by several modelled classes')
        return None

    def static_attr(self, o, attr):
        p = o.path
        if p == 'self':
            raise NotFormed('static self')
        if p.startswith('mod:'):
            return Static(p[4:] + '.' + attr)
        if p.startswith('class:'):
            c = p[6:]
            if c in self.reg.classes:
                info = self.reg.classes[c]
                if attr in info['methods']:
                    return Closure(info['methods'][attr], {}, name=f'{c}.{attr}', self_val=o)
                if attr == '__name__':
                    return T.vstr(c)
            return Static(f'{c}.{attr}')
        return Static(p + '.' + attr)


class BoundBuiltin(PyVal):
    def __init__(self, obj, name):
        self.obj, self.name = obj, name


EXC_NAMES = {'IndexError', 'KeyError', 'ValueError', 'TypeError', 'ZeroDivisionError', 'AttributeError', 'Exception',
             'BaseException', 'RecursionError', 'RuntimeError', 'OverflowError', 'LookupError', 'ArithmeticError'}
