"""Obligations, bounded checks, property results (DESIGN 2.1, 3)."""
import dataclasses
import json
import os
import time
from dataclasses import dataclass, field
from typing import Any

from . import VERIF

PROVED_KINDS = ('K1', 'K2', 'K3', 'KS', 'LEMMA')


@dataclass
class Ob:
    """One obligation of a proved kind."""
    name: str
    kind: str                       # K1 SMT-VC | K2 finite-exhaustive | K3 structural | KS schema | LEMMA
    decisive: bool = True           # failure exhibits an input on which the property is false
    status: str = 'pending'         # discharged | failed | unknown | notformed
    detail: str = ''
    backend: str = ''
    seconds: float = 0.0
    function: str = ''
    witness: Any = None             # JSON-able replay payload (inputs, clause, solver output)
    confirmed: Any = None           # True: witness fails on the real code; False: it does not; None: not replayable
    finding: str = ''               # known-finding key this failure is attributed to ('' = none)
    count: int = 1                  # number of elements (K2) / queries (K1) behind this obligation

    def ok(self):
        return self.status == 'discharged'


@dataclass
class Bounded:
    """A K4 bounded stand-in: never counted as proved."""
    name: str
    bound: str
    evaluations: int = 0
    distinct_nontrivial: int = 0
    rule: str = ''
    failures: list = field(default_factory=list)   # [{'key': finding-key or '', 'what': str, 'replay': {...}}]
    samples: list = field(default_factory=list)
    seconds: float = 0.0
    exhaustive: bool = False


@dataclass
class PropResult:
    property_id: str
    obligations: list = field(default_factory=list)
    bounded: list = field(default_factory=list)
    functions_under_contract: dict = field(default_factory=dict)   # target -> source hash
    trusted_base: list = field(default_factory=list)
    assumptions: list = field(default_factory=list)
    notes: list = field(default_factory=list)
    samples: list = field(default_factory=list)
    canaries: list = field(default_factory=list)   # [(name, caught: bool)]
    conformance: dict = field(default_factory=dict)

    def add(self, *obs):
        for o in obs:
            if isinstance(o, (list, tuple)):
                self.add(*o)
            elif isinstance(o, Ob):
                self.obligations.append(o)
            elif isinstance(o, Bounded):
                self.bounded.append(o)
            else:
                raise TypeError(o)
        return self


class Ctx:
    """What a property module gets."""

    def __init__(self, prop, tier='quick', seed=0):
        self.prop, self.tier, self.seed = prop, tier, seed
        self.t0 = time.time()

    @property
    def thorough(self):
        return self.tier == 'thorough'

    def pick(self, quick, thorough):
        return thorough if self.thorough else quick


def load_json(name, default):
    p = os.path.join(VERIF, name)
    if os.path.exists(p):
        with open(p) as f:
            return json.load(f)
    return default


def jsonable(x):
    if dataclasses.is_dataclass(x):
        return jsonable(dataclasses.asdict(x))
    if isinstance(x, dict):
        return {str(k): jsonable(v) for k, v in x.items()}
    if isinstance(x, (list, tuple, set)):
        return [jsonable(i) for i in x]
    if isinstance(x, (str, int, float, bool)) or x is None:
        return x
    return repr(x)
