"""Calls, comprehensions, statements, loops and the per-function VC driver of the symbolic executor."""
import ast
import os
import time

import z3

from . import sorts as T
from . import source
from .sorts import V, is_, ln, at
from .symexec import EXC_SUPER  # noqa: E402
from .symexec import (NotFormed, PyVal, Closure, Static, PyTuple, Flow, VC, State, Contract, Registry, fresh,
                      feasible, exc_isa)
from .symexpr import ExprMixin, BoundBuiltin, is_term
from .symspec import SpecEval, to_bool, to_v

dv_key = z3.Function('dv_key', V, T.I, V)
dv_pos = z3.Function('dv_pos', V, V, T.I)
MAX_INLINE_DEPTH = 6
MAX_UNROLL = 40
GEN_BUDGET_S = int(os.environ.get('PV_GEN_BUDGET_S', '150'))


def register_class(reg, cname, target, nested=()):
    """Read a class definition from the real source: dataclass-style fields, methods, properties."""
    node, _ = source.get_def(target)
    info = {'fields': {}, 'methods': {}, 'props': {}, 'static': set(), 'classm': set(), 'target': target,
            'nested': {}}
    for b in node.body:
        if isinstance(b, ast.AnnAssign) and isinstance(b.target, ast.Name):
            info['fields'][b.target.id] = b.value
        elif isinstance(b, ast.FunctionDef):
            decos = {d.id if isinstance(d, ast.Name) else getattr(d, 'attr', '') for d in b.decorator_list}
            if 'property' in decos:
                info['props'][b.name] = b
            else:
                info['methods'][b.name] = b
                if 'staticmethod' in decos:
                    info['static'].add(b.name)
                if 'classmethod' in decos:
                    info['classm'].add(b.name)
        elif isinstance(b, ast.ClassDef):
            info['nested'][b.name] = b
    reg.classes[cname] = info
    return info


def _stored_names(nodes):
    names, fields = set(), set()
    for node in nodes:
        for n in ast.walk(node):
            if isinstance(n, ast.Name) and isinstance(n.ctx, (ast.Store, ast.Del)):
                names.add(n.id)
            elif isinstance(n, ast.Attribute) and isinstance(n.ctx, ast.Store):
                fields.add(n.attr)
            elif isinstance(n, ast.Subscript) and isinstance(n.ctx, ast.Store):
                b = n.value
                while isinstance(b, ast.Subscript):
                    b = b.value
                if isinstance(b, ast.Name):
                    names.add(b.id)
                elif isinstance(b, ast.Attribute):
                    fields.add(b.attr)
            elif isinstance(n, ast.Call) and isinstance(n.func, ast.Attribute) and n.func.attr in (
                    'append', 'extend', 'insert', 'pop', 'update', 'add', 'remove', 'clear', 'sort', 'reverse'):
                b = n.func.value
                while isinstance(b, ast.Subscript):
                    b = b.value
                if isinstance(b, ast.Name):
                    names.add(b.id)
                elif isinstance(b, ast.Attribute):
                    fields.add(b.attr)
            elif isinstance(n, ast.NamedExpr):
                names.add(n.target.id)
    return names, fields


def _local_names(fn):
    """Names that are local to a def (parameters and assigned names, not descending into nested defs)."""
    names = {a.arg for a in fn.args.args + fn.args.posonlyargs + fn.args.kwonlyargs}
    if fn.args.vararg:
        names.add(fn.args.vararg.arg)
    if fn.args.kwarg:
        names.add(fn.args.kwarg.arg)
    if isinstance(fn, ast.Lambda):
        return names

    def walk(nodes):
        for n in nodes:
            if isinstance(n, (ast.FunctionDef, ast.ClassDef)):
                names.add(n.name)
                continue
            if isinstance(n, ast.Lambda):
                continue
            if isinstance(n, ast.Name) and isinstance(n.ctx, ast.Store):
                names.add(n.id)
            walk(ast.iter_child_nodes(n))
    walk(fn.body)
    return names


class Executor(ExprMixin):
    def __init__(self, reg, contract, fn_node, class_name=None, module_functions=None, concrete=False):
        self.reg, self.c, self.fn, self.class_name = reg, contract, fn_node, class_name
        self.module_functions = module_functions or {}
        self.vcs = []
        self.loops = sorted([n for n in ast.walk(fn_node) if isinstance(n, (ast.For, ast.While))],
                            key=lambda n: (n.lineno, n.col_offset))     # R-LOOPID
        self.depth = 0
        self.imprecise = set()
        self.concrete = concrete      # conformance mode: no contracts, loops unrolled
        self.param_terms = {}
        self.entry = None
        self.used_contracts = set()
        self.npaths = 0
        self.deadline = None

    # ------------------------------------------------------------------ VCs
    def vc(self, st, name, goal, decisive, info=''):
        if self.concrete:
            return
        g = goal
        if not z3.is_quantifier(g):
            g = z3.simplify(g)
        v = VC(name, st.all_facts(), g, decisive, info, st)
        if z3.is_true(g):
            v.status, v.backend = 'discharged', 'simplifier'
        self.vcs.append(v)

    def spec_eval(self, st, names=None, result=None):
        return SpecEval(self.reg, st, names if names is not None else st.env, st.marks, result)

    def spec(self, text, st, names=None, result=None):
        return self.spec_eval(st, names, result).eval_str(text)

    # ------------------------------------------------------------------ calls
    def e_Lambda(self, n, st):
        return [(st, Closure(n, None, name='<lambda>'))]

    def e_Starred(self, n, st):
        raise NotFormed('starred expression outside a call / display')

    def e_Call(self, n, st):
        # special syntactic forms first
        f = n.func
        if isinstance(f, ast.Name) and f.id in ('list', 'any', 'all', 'sum', 'tuple', 'len', 'min', 'max') \
                and len(n.args) == 1 and isinstance(n.args[0], (ast.GeneratorExp, ast.ListComp)):
            return self.seq(self.comprehension(n.args[0], st), lambda s, L: self.call_builtin(s, f.id, [L], {}, n))
        if isinstance(f, ast.Attribute) and f.attr == 'join' and len(n.args) == 1:
            arg = n.args[0]
            inner = self.comprehension(arg, st) if isinstance(arg, (ast.GeneratorExp, ast.ListComp)) else self.ev(arg, st)
            return self.seq(inner, lambda s, L: self.seq(self.ev(f.value, s), lambda s2, sep: self.str_join(s2, sep, L)))

        def after_func(st2, fv):
            argnodes, kwnodes = [], []
            for a in n.args:
                argnodes.append(a.value if isinstance(a, ast.Starred) else a)
            for k in n.keywords:
                if k.arg is None:
                    raise NotFormed('**kwargs call')
                kwnodes.append(k.value)

            def after_args(st3, vals):
                args = []
                for a, v in zip(n.args, vals[:len(argnodes)]):
                    if isinstance(a, ast.Starred):
                        items = st3.known_items(v)
                        if items is None:
                            raise NotFormed('*args of statically unknown length')
                        args += items
                    else:
                        args.append(v)
                kwargs = {k.arg: v for k, v in zip(n.keywords, vals[len(argnodes):])}
                return self.call_value(st3, fv, args, kwargs, n)
            return self.seq(self.ev_list(argnodes + kwnodes, st2), after_args)
        return self.seq(self.ev(f, st), after_func)

    def call_value(self, st, fv, args, kwargs, node):
        if isinstance(fv, Closure):
            if fv.self_val is not None and not isinstance(fv.self_val, Static):
                cname, _, m = (fv.name or '').partition('.')
                if m not in self.reg.classes.get(cname, {}).get('static', ()):
                    if m in self.reg.classes.get(cname, {}).get('classm', ()):
                        # classmethod reached through a run-time class value (dynamic dispatch): cls is that value
                        cls_arg = fv.self_val if (is_term(fv.self_val) and self.c.params.get('cls')) else Static('class:' + cname)
                        args = [cls_arg] + list(args)
                    else:
                        args = [fv.self_val] + list(args)
            elif isinstance(fv.self_val, Static) and fv.name:
                cname, _, m = fv.name.partition('.')
                info = self.reg.classes.get(cname, {})
                if m in info.get('classm', ()):
                    args = [fv.self_val] + list(args)
            return self.call_named(st, fv, args, kwargs, node)
        if isinstance(fv, BoundBuiltin):
            return self.call_method(st, fv.obj, fv.name, args, kwargs, node)
        if isinstance(fv, Static):
            p = fv.path
            if p.startswith('builtin:'):
                return self.call_builtin(st, p[8:], args, kwargs, node)
            if p.startswith('class:'):
                return self.construct(st, p[6:], args, kwargs, node)
            if p.startswith('exc:'):
                return [(st, Static('excinst:' + p[4:]))]
            if p.startswith('localclass:') and not args and not kwargs:
                # instance of a field-less class defined inside the function (sentinel): an opaque value of that class
                return [(st, V.Other(z3.IntVal(self.local_class_id(p))))]
            if p.startswith('fn:'):
                name = p[3:]
                if ('fn:' + name) in self.reg.externals:
                    return self.reg.externals['fn:' + name](self, st, args, kwargs, node)
                if name in self.reg.contracts and not self.concrete and name not in self.c.inline:
                    return self.call_contract(st, self.reg.contracts[name], args, kwargs, node)
                if name in self.module_functions:
                    return self.call_closure(st, Closure(self.module_functions[name], {}, name=name), args, kwargs)
                if name in self.reg.contracts:      # inlined although contracted: take the source the contract names
                    tnode, _ = source.get_def(self.reg.contracts[name].target)
                    return self.call_closure(st, Closure(tnode, {}, name=name), args, kwargs)
                raise NotFormed(f'function {name} has neither contract nor source')
            if p in self.reg.externals:
                return self.reg.externals[p](self, st, args, kwargs, node)
            raise NotFormed(f'call of {p} is not modelled')
        if is_term(fv) and 'construct:cls' in self.reg.externals and not feasible(st, z3.Not(is_('Cls', fv))):
            return self.reg.externals['construct:cls'](self, st, [fv] + list(args), kwargs, node)
        if is_term(fv):
            return self.call_fn_value(st, fv, args, kwargs, node)
        raise NotFormed(f'call of {fv!r}')

    def call_fn_value(self, st, f, args, kwargs, node):
        """Call of a callable held in a run-time value (criteria lambdas, condition_function)."""
        if kwargs or len(args) > 1:
            raise NotFormed('callable value with several / keyword arguments')
        total = any(z3.eq(f, st.env.get(p)) if is_term(st.env.get(p)) else False for p in self.c.total_fns) or \
            any(f.get_id() == t.get_id() for t in st.ghost.get('total_fns', ()))
        if not args:
            raises, val = T.app0_raises(f), T.app0(f)
        else:
            a = self.need_term(args[0])
            raises, val = T.app1_raises(f, a), T.app1(f, a)
        if total:
            return self.cases(st, [(is_('Fn', f), lambda s: [(s.add(z3.Not(raises)), val)]),
                                   (z3.Not(is_('Fn', f)), lambda s: self.exc(s, 'TypeError'))])
        return self.cases(st, [
            (z3.And(is_('Fn', f), z3.Not(raises)), lambda s: [(s, val)]),
            (z3.And(is_('Fn', f), raises), lambda s: self.exc(s, 'Exception')),
            (z3.Not(is_('Fn', f)), lambda s: self.exc(s, 'TypeError'))])

    def call_named(self, st, clo, args, kwargs, node):
        """Call of a function with source: modular if it has a contract (or is the function under verification:
        its own contract is the induction hypothesis), inlined otherwise."""
        name = clo.name or ''
        bare = name.split('.')[-1]
        cname = self.c.callees.get(bare) or (name if name in self.reg.contracts else None) or \
            (bare if bare in self.reg.contracts else None)
        if cname and not self.concrete and bare not in self.c.inline:
            con = self.reg.contracts[cname]
            tnode = None
            try:
                tnode, _ = source.get_def(con.target)
            except source.SourceError:
                pass
            if tnode is not None and ast.dump(tnode) == ast.dump(clo.node):
                return self.call_contract(st, con, args, kwargs, node)
        return self.call_closure(st, clo, args, kwargs)

    def bind_params(self, fnode, args, kwargs, st):
        a = fnode.args
        params = [p.arg for p in a.posonlyargs + a.args]
        env = {}
        defaults = list(a.defaults)
        dstart = len(params) - len(defaults)
        args = list(args)
        for i, p in enumerate(params):
            if i < len(args):
                env[p] = args[i]
            elif p in kwargs:
                env[p] = kwargs[p]
            elif i >= dstart:
                d = defaults[i - dstart]
                if not isinstance(d, ast.Constant):
                    raise NotFormed('non-constant default argument')
                env[p] = self.e_Constant(d, st)[0][1]
            else:
                raise NotFormed(f'missing argument {p}')
        extra = args[len(params):]
        if a.vararg:
            env[a.vararg.arg] = PyTuple(extra)
        elif extra:
            raise NotFormed('too many positional arguments')
        for k in a.kwonlyargs:
            if k.arg in kwargs:
                env[k.arg] = kwargs[k.arg]
        return env

    def call_closure(self, st, clo, args, kwargs):
        if self.depth >= MAX_INLINE_DEPTH:
            raise NotFormed(f'inlining depth exceeded at {clo.name}')
        fnode = clo.node
        caller_env = st.env
        base = dict(caller_env) if clo.env is None else dict(clo.env)
        params = self.bind_params(fnode, args, kwargs, st)
        base.update(params)
        st2 = st.copy()
        st2.env = base
        locals_ = _local_names(fnode)
        self.depth += 1
        try:
            if isinstance(fnode, ast.Lambda):
                outs = self.ev(fnode.body, st2)
                flows = [o if isinstance(o, Flow) else Flow('ret', o[0], o[1]) for o in outs]
            else:
                flows = self.ex_block(fnode.body, st2)
        finally:
            self.depth -= 1
        res = []
        for fl in flows:
            s = fl.st.copy()
            env = dict(caller_env)
            if clo.env is None:
                for k, v in fl.st.env.items():      # free variables mutated through the closure
                    if k in caller_env and k not in locals_:
                        env[k] = v
            s.env = env
            if fl.kind == 'ret':
                res.append((s, fl.val))
            elif fl.kind == 'fall':
                res.append((s, T.NONE))
            elif fl.kind == 'exc':
                res.append(Flow('exc', s, fl.val))
            else:
                raise NotFormed('break/continue escaping a function')
        return res

    def call_empty_method(self, st, name, self_v, other):
        info = self.reg.classes.get('EmptyCell')
        if info is None or name not in info['methods']:
            raise NotFormed(f'EmptyCell.{name} source is not registered')
        return self.call_closure(st, Closure(info['methods'][name], {}, name=f'EmptyCell.{name}'), [self_v, other], {})

    def call_contract(self, st, con, args, kwargs, node):
        """Modular call: assert requires, havoc modifies, assume ensures; one extra path per raises clause."""
        self.used_contracts.add(con.name)
        pnames = list(con.params)
        names = {}
        args = list(args)
        for i, p in enumerate(pnames):
            if i < len(args):
                names[p] = args[i]
            elif p in kwargs:
                names[p] = kwargs[p]
            else:
                names[p] = T.NONE
        for p, v in names.items():
            if not is_term(v):
                raise NotFormed(f'static value passed to contracted callee {con.name}.{p}')
        pre = st.mark('old')
        ev_pre = SpecEval(self.reg, st, names, pre.marks)
        site = f'call.{con.name}@{getattr(node, "lineno", 0)}'
        for p, spec in con.params.items():
            for f in self.sort_facts(names[p], spec, st):
                self.vc(st, f'{site}.pre.sort.{p}', f, False)
        for i, r in enumerate(con.requires):
            self.vc(st, f'{site}.pre.{i}', ev_pre.eval_str(r), False, r)
        outs = []
        conds = []
        for exc, cond in con.raises.items():
            c = ev_pre.eval_str(cond)
            conds.append(c)
            s2 = st.add(c)
            if feasible(s2):
                if con.ensures_on_raise:
                    s3 = s2.copy()
                    s3.marks = pre.marks
                    for f in con.modifies:
                        s3.heap[f] = fresh(f'fld_{f}', z3.ArraySort(T.I, V))
                    nm = fresh('maxid', T.I)
                    s3 = s3.add(nm >= st.maxid)
                    s3.maxid = nm
                    evx = SpecEval(self.reg, s3, names, s3.marks, None)
                    s3 = s3.add(*[evx.eval_str(e) for e in con.ensures_on_raise.values()])
                    s3.marks = st.marks
                    s2 = s3
                outs.append(Flow('exc', s2, exc))
        normal = st.add(*[z3.Not(c) for c in conds]) if conds else st
        if not feasible(normal):
            return outs
        # exceptions the callee's contract leaves unspecified may be raised from any state that satisfies no
        # `raises` condition (over-approximation: the caller must cope with them)
        for exc in sorted(con.free_exceptions):
            outs.append(Flow('exc', normal, exc))
        post = normal.copy()
        post.marks = pre.marks
        for f in con.modifies:
            post.heap[f] = fresh(f'fld_{f}', z3.ArraySort(T.I, V))
        newmax = fresh('maxid', T.I)
        post = post.add(newmax >= st.maxid)
        post.maxid = newmax
        result = fresh('res')
        ev_post = SpecEval(self.reg, post, names, post.marks, result)
        facts = [ev_post.eval_str(e) for e in con.ensures.values()]
        post = post.add(*facts)
        # restore caller's marks (the 'old' mark above is local to this call)
        post.marks = st.marks
        outs.append((post, result))
        return outs

    # ------------------------------------------------------------------ constructors / builtins / methods
    def construct(self, st, cname, args, kwargs, node):
        if cname == 'EmptyCell':
            return [(st, T.EMPTY)]
        if cname == 'int':
            return self.p_int(st, args[0]) if args else [(st, T.vint(0))]
        if cname == 'float':
            return self.p_float(st, args[0])
        if cname == 'str':
            return self.p_str(st, args[0]) if args else [(st, T.vstr(''))]
        if cname == 'bool':
            return [(st, V.Bool(self.truth(args[0])))]
        if cname == 'object' and not args:
            newid = fresh('oid', T.I)
            st2 = st.add(newid == st.maxid + 1)
            st2.maxid = newid
            return [(st2, V.Obj(newid))]
        if cname == 'list':
            if not args:
                s2, L = self.new_list(st, [])
                return [(s2, L)]
            return self.copy_list(st, args[0])
        if cname == 'tuple' and len(args) == 1 and not isinstance(args[0], PyTuple):
            x = self.need_term(args[0])

            def tp(s):
                t = V.Tuple(fresh('tid', T.I))
                k = fresh('k', T.I)
                return [(s.add(ln(t) == ln(x), ln(x) >= 0,
                               z3.ForAll([k], z3.Implies(z3.And(0 <= k, k < ln(x)), at(t, k) == at(x, k)),
                                         patterns=[at(t, k)])), t)]
            return self.cases(st, [(z3.Or(is_('List', x), is_('Tuple', x)), tp),
                                   (z3.Not(z3.Or(is_('List', x), is_('Tuple', x))),
                                    lambda s: self._not_modelled(s, 'tuple() of a non-sequence'))])
        if cname in self.reg.classes and self.reg.classes[cname]['fields']:
            info = self.reg.classes[cname]
            fields = list(info['fields'])
            vals = {}
            for i, a in enumerate(args):
                vals[fields[i]] = a
            vals.update(kwargs)
            newid = fresh('oid', T.I)
            st2 = st.add(newid == st.maxid + 1)
            st2.maxid = newid
            o = V.Obj(newid)
            for f in fields:
                if f in vals:
                    v = vals[f]
                else:
                    d = info['fields'][f]
                    if d is None:
                        raise NotFormed(f'{cname}() missing {f}')
                    v = self.e_Constant(d, st2)[0][1]
                st2 = self.heap_store(st2, f, V.oid(o), self.need_term(v))
            return [(st2, o)]
        if ('class:' + cname) in self.reg.externals:
            return self.reg.externals['class:' + cname](self, st, args, kwargs, node)
        raise NotFormed(f'constructor of {cname} is not modelled')

    def heap_store(self, st, field, oid, val):
        """fld' == store(fld, oid, val) with fld' a fresh array constant (so that quantifier patterns over heap
        reads never contain an interpreted store)."""
        h = fresh(f'fld_{field}', z3.ArraySort(T.I, V))
        s2 = st.add(h == z3.Store(st.field(field), oid, val))
        s2.heap[field] = h
        return s2

    def copy_list(self, st, x):
        if isinstance(x, PyTuple):
            s2, L = self.new_list(st, x.items)
            return [(s2, L)]
        items = st.known_items(x)
        if items is not None:
            s2, L = self.new_list(st, items)
            return [(s2, L)]

        def cp(s):
            L = V.List(fresh('lid', T.I))
            k = fresh('k', T.I)
            return [(s.add(ln(L) == ln(x), ln(x) >= 0,
                           z3.ForAll([k], z3.Implies(z3.And(0 <= k, k < ln(x)), at(L, k) == at(x, k)),
                                     patterns=[at(L, k)])), L)]
        return self.cases(st, [(z3.Or(is_('List', x), is_('Tuple', x)), cp),
                               (z3.Not(z3.Or(is_('List', x), is_('Tuple', x))),
                                lambda s: self._not_modelled(s, 'list() of a non-list'))])

    def call_builtin(self, st, name, args, kwargs, node):
        if name == 'len':
            return self.p_len(st, args[0])
        if name == 'isinstance':
            return [(st, V.Bool(self.isinstance_(st, args[0], args[1])))]
        if name == 'type':
            return [(st, V.Cls(T.tag_id(self.need_term(args[0]))))]
        if name == 'callable':
            a0 = args[0]
            if not is_term(a0):
                return [(st, T.TRUE)]             # a static function / class / bound method
            return [(st, V.Bool(z3.Or(is_('Fn', a0), is_('Cls', a0))))]
        if name == 'abs':
            x = self.need_term(args[0])
            return self.cases(st, [
                (T.is_intlike(x), lambda s: [(s, V.Int(z3.If(T.int_of(x) >= 0, T.int_of(x), -T.int_of(x))))]),
                (is_('Float', x), lambda s: [(s, V.Float(z3.If(V.fval(x) >= 0, V.fval(x), -V.fval(x))))]),
                (z3.Not(T.is_num(x)), lambda s: self.exc(s, 'TypeError'))])
        if name in ('max', 'min'):
            if len(args) == 2:
                a, b = args
                opn = 'gt' if name == 'max' else 'lt'
                # max(a, b): b if b > a else a

                def k(s, r):
                    return [(s, z3.If(V.bval(r), b, a))]
                return self.seq(self.p_order(st, opn, b, a), k)
            return self.fold_minmax(st, name, args[0])
        if name == 'sorted' and len(args) == 1 and is_term(args[0]) and set(kwargs) <= {'reverse'}:
            # sorted(dictionary of integer keys[, reverse=...]): the keys in strictly increasing / decreasing order
            d = args[0]
            rev = kwargs.get('reverse')
            if rev is not None and not (is_term(rev) and z3.is_true(z3.simplify(V.bval(rev))) or
                                        is_term(rev) and z3.is_false(z3.simplify(V.bval(rev)))):
                raise NotFormed('sorted(..., reverse=<not a constant>)')
            down = rev is not None and z3.is_true(z3.simplify(V.bval(rev)))

            def srt(s):
                L = V.List(fresh('lid', T.I))
                i, j, kk = fresh('i', T.I), fresh('j', T.I), fresh('k')
                pos = lambda key: T.sorted_pos(L, key)
                return [(s.add(ln(L) == T.dcount(d), ln(L) >= 0,
                               z3.ForAll([i], z3.Implies(z3.And(0 <= i, i < ln(L)), z3.And(T.dhas(d, at(L, i)), is_('Int', at(L, i)))),
                                         patterns=[at(L, i)]),
                               z3.ForAll([kk], z3.Implies(T.dhas(d, kk), z3.And(0 <= pos(kk), pos(kk) < ln(L), at(L, pos(kk)) == kk)),
                                         patterns=[T.dhas(d, kk)]),
                               z3.ForAll([i, j], z3.Implies(z3.And(0 <= i, i < j, j < ln(L)),
                                                            (V.ival(at(L, i)) > V.ival(at(L, j))) if down else
                                                            (V.ival(at(L, i)) < V.ival(at(L, j)))),
                                         patterns=[z3.MultiPattern(at(L, i), at(L, j))])), L)]
            return self.cases(st, [(is_('Dict', d), srt),
                                   (z3.Not(is_('Dict', d)), lambda s: self._not_modelled(s, 'sorted() of a non-dict'))])
        if name == 'sum':
            return self.fold_sum(st, args[0])
        if name in ('any', 'all'):
            return self.fold_anyall(st, name, args[0])
        if name == 'repr':
            return self.p_repr(st, args[0])
        if name == 'trunc':
            x = self.need_term(args[0])
            r = V.fval(x)
            return self.cases(st, [
                (T.is_intlike(x), lambda s: [(s, V.Int(T.int_of(x)))]),
                (is_('Float', x), lambda s: [(s, V.Int(z3.If(r >= 0, z3.ToInt(r), -z3.ToInt(-r))))]),
                (z3.Not(T.is_num(x)), lambda s: self.exc(s, 'TypeError'))])
        if name == 'tuple':
            return self.copy_list(st, args[0])
        raise NotFormed(f'builtin {name} is not modelled')

    def isinstance_(self, st, x, c):
        x = self.need_term(x, 'in isinstance')
        if isinstance(c, PyTuple):
            return z3.Or([self.isinstance_(st, x, i) for i in c.items])
        items = st.known_items(c) if is_term(c) else None
        if items is not None:
            return z3.Or([self.isinstance_(st, x, i) for i in items])
        if isinstance(c, Static):
            p = c.path
            if p.startswith('class:'):
                cn = p[6:]
                if cn in ('int', 'bool', 'float', 'str', 'list', 'tuple', 'dict', 'EmptyCell'):
                    return T.isinstance_static(x, cn)
                if cn in self.reg.classes:
                    return is_('Obj', x) if self.reg.classes[cn]['fields'] or cn != 'Undefined' else z3.BoolVal(False)
            if p in ('datetime.datetime',):
                return T.isinstance_static(x, 'datetime')
            if p in ('datetime.date',):
                return T.isinstance_static(x, 'date')
            if p.startswith('localclass:'):
                return z3.And(is_('Other', x), V.xid(x) == self.local_class_id(p))
            raise NotFormed(f'isinstance against {p}')
        if is_term(c):
            return T.isinstance_dyn(x, c)
        raise NotFormed('isinstance second argument')

    def local_class_id(self, p):
        return 7000 + (sum(ord(ch) for ch in p) % 500)

    def p_repr(self, st, x):
        x = self.need_term(x)
        self.imprecise.add('repr()')
        return [(st, V.Str(z3.Function('py_repr', V, T.S)(x)))]

    # ---- folds over lists
    def _list_items_or_none(self, st, L):
        return st.known_items(L)

    def fold_sum(self, st, L):
        items = st.known_items(L)
        if items is not None:
            def go(i, s, acc):
                if i == len(items):
                    return [(s, acc)]
                return self.seq(self.p_binop(s, ast.Add(), acc, items[i]), lambda s2, r: go(i + 1, s2, r))
            return go(0, st, T.vint(0))
        L = self.need_term(L)
        # sum over a list of unknown length: defined for lists of numbers through a recursive function over the
        # index bound (R-SNOC); result is Int when all elements are int-like, Float otherwise (A-REAL)
        psum = z3.RecFunction(f'psum!{L.get_id()}', T.I, T.R)
        j = z3.Int('j')
        z3.RecAddDefinition(psum, [j], z3.If(j <= 0, z3.RealVal(0), psum(j - 1) + T.real_of(at(L, j - 1))))
        k = fresh('k', T.I)
        allnum = z3.ForAll([k], z3.Implies(z3.And(0 <= k, k < ln(L)), T.is_num(at(L, k))), patterns=[at(L, k)])
        k2 = fresh('k', T.I)
        allint = z3.ForAll([k2], z3.Implies(z3.And(0 <= k2, k2 < ln(L)), T.is_intlike(at(L, k2))), patterns=[at(L, k2)])
        self.vc(st, f'{self.c.name}.sum.elements_numeric', allnum, False, 'sum() over a list whose elements are numbers')
        res = fresh('sum')
        fact = z3.And(T.real_of(res) == psum(ln(L)), z3.Implies(allint, is_('Int', res)),
                      z3.Implies(z3.Not(allint), is_('Float', res)), z3.Or(is_('Int', res), is_('Float', res)))
        st = st.copy()
        st.ghost = dict(st.ghost)
        st.ghost['sums'] = st.ghost.get('sums', []) + [(L, psum)]
        return [(st.add(allnum, fact, ln(L) >= 0), res)]

    def fold_minmax(self, st, name, L):
        items = st.known_items(L)
        if items is not None:
            if not items:
                return self.exc(st, 'ValueError')

            def go(i, s, acc):
                if i == len(items):
                    return [(s, acc)]
                opn = 'gt' if name == 'max' else 'lt'
                return self.seq(self.p_order(s, opn, items[i], acc),
                                lambda s2, r: go(i + 1, s2, z3.If(V.bval(r), items[i], acc)))
            return go(1, st, items[0])
        L = self.need_term(L)
        k = fresh('k', T.I)
        allnum = z3.ForAll([k], z3.Implies(z3.And(0 <= k, k < ln(L)), z3.Or(is_('Int', at(L, k)), is_('Float', at(L, k)))),
                           patterns=[at(L, k)])
        self.vc(st, f'{self.c.name}.{name}.elements_numeric', allnum, False, f'{name}() over plain numbers only')
        res = fresh(name)
        w = fresh('w', T.I)
        k2 = fresh('k', T.I)
        rel = (lambda a, b: a >= b) if name == 'max' else (lambda a, b: a <= b)
        facts = [0 <= w, w < ln(L), res == at(L, w),
                 z3.ForAll([k2], z3.Implies(z3.And(0 <= k2, k2 < ln(L)), rel(T.real_of(res), T.real_of(at(L, k2)))),
                           patterns=[at(L, k2)])]
        return self.cases(st.add(allnum, ln(L) >= 0), [
            (ln(L) == 0, lambda s: self.exc(s, 'ValueError')),
            (ln(L) > 0, lambda s: [(s.add(*facts), res)])])

    def fold_anyall(self, st, name, L):
        items = st.known_items(L)
        if items is not None:
            ts = [self.truth(i) for i in items]
            r = z3.Or(ts) if name == 'any' else z3.And(ts)
            return [(st, V.Bool(r if ts else z3.BoolVal(name == 'all')))]
        L = self.need_term(L)
        k = fresh('k', T.I)
        if name == 'any':
            r = z3.Exists([k], z3.And(0 <= k, k < ln(L), T.truthy(at(L, k))))
        else:
            r = z3.ForAll([k], z3.Implies(z3.And(0 <= k, k < ln(L)), T.truthy(at(L, k))), patterns=[at(L, k)])
        b = fresh('b', T.B)
        return [(st.add(b == r), V.Bool(b))]

    def str_join(self, st, sep, L):
        items = st.known_items(L)
        if items is None:
            raise NotFormed('join over a list of unknown length')
        sep = self.need_term(sep)
        for i in items:
            if feasible(st, z3.Not(is_('Str', self.need_term(i)))):
                raise NotFormed('join over values that may not be strings')
        if not items:
            return [(st, T.vstr(''))]
        acc = V.sval(items[0])
        for i in items[1:]:
            acc = z3.Concat(acc, V.sval(sep), V.sval(i))
        return [(st, V.Str(acc))]

    def call_method(self, st, o, name, args, kwargs, node):
        if isinstance(o, PyVal):
            raise NotFormed(f'method {name} of a static value')
        if name == 'append':
            raise NotFormed('append used as an expression (only as a statement)')
        if name == 'copy':
            return self.copy_list(st, o)
        if name == 'lower':
            def low(s):
                self.imprecise.add('str.lower (uninterpreted outside the axioms idempotence / length)')
                r = T.str_lower(V.sval(o))
                return [(s.add(z3.Length(r) == z3.Length(V.sval(o)), T.str_lower(r) == r), V.Str(r))]
            return self.cases(st, [(is_('Str', o), low), (z3.Not(is_('Str', o)), lambda s: self.exc(s, 'AttributeError'))])
        if name == 'get' and len(args) in (1, 2):
            d = args[1] if len(args) == 2 else T.NONE
            kx = self.need_term(args[0])
            return self.cases(st, [
                (is_('Dict', o), lambda s: [(s, z3.If(T.dhas(o, kx), T.dget(o, kx), self.need_term(d)))]),
                (z3.Not(is_('Dict', o)), lambda s: self.exc(s, 'AttributeError'))])
        if name == 'find':
            sub = self.need_term(args[0])
            start = T.int_of(args[1]) if len(args) > 1 else z3.IntVal(0)
            if len(args) > 1 and feasible(st, start < 0):
                raise NotFormed('str.find with a negative start')
            return self.cases(st, [
                (z3.And(is_('Str', o), is_('Str', sub)), lambda s: [(s, V.Int(z3.IndexOf(V.sval(o), V.sval(sub), start)))]),
                (z3.Not(z3.And(is_('Str', o), is_('Str', sub))), lambda s: self.exc(s, 'TypeError'))])
        if name == 'isdigit':
            self.imprecise.add('str.isdigit (ASCII digits only)')
            return self.cases(st, [(is_('Str', o), lambda s: [(s, V.Bool(z3.InRe(V.sval(o), z3.Plus(z3.Range('0', '9')))))]),
                                   (z3.Not(is_('Str', o)), lambda s: self.exc(s, 'AttributeError'))])
        if name == 'index':
            items = st.known_items(o)
            raise NotFormed('list.index')
        if name == 'date':
            return self.cases(st, [(is_('DateTime', o), lambda s: [(s, V.Date(V.tord(o)))]),
                                   (z3.Not(is_('DateTime', o)), lambda s: self.exc(s, 'AttributeError'))])
        if name == 'weekday':
            ordv = z3.If(is_('DateTime', o), V.tord(o), V.dord(o))
            return self.cases(st, [(z3.Or(is_('DateTime', o), is_('Date', o)), lambda s: [(s, V.Int((ordv + 6) % 7))]),
                                   (z3.Not(z3.Or(is_('DateTime', o), is_('Date', o))),
                                    lambda s: self.exc(s, 'AttributeError'))])
        ext = self.reg.externals.get('method:' + name)
        if ext is not None:
            return ext(self, st, [o] + list(args), kwargs, node)
        if name == 'values' and not args:
            # list(d.values()): one element per key; witnesses: dv_key(L, j) = key of the j-th value, dv_pos(L, key) = its
            # position (A-ORDER: insertion order, not otherwise constrained)
            def vals(s):
                L = V.List(fresh('lid', T.I))
                j, key = fresh('j', T.I), fresh('key')
                kj = dv_key(L, j)
                return [(s.add(ln(L) == T.dcount(o), T.dcount(o) >= 0,
                               z3.ForAll([j], z3.Implies(z3.And(0 <= j, j < ln(L)),
                                                         z3.And(T.dhas(o, kj), T.dget(o, kj) == at(L, j), dv_pos(L, kj) == j)),
                                         patterns=[at(L, j)]),
                               z3.ForAll([key], z3.Implies(T.dhas(o, key),
                                                           z3.And(0 <= dv_pos(L, key), dv_pos(L, key) < ln(L),
                                                                  dv_key(L, dv_pos(L, key)) == key,
                                                                  at(L, dv_pos(L, key)) == T.dget(o, key))),
                                         patterns=[T.dhas(o, key)])), L)]
            return self.cases(st, [(is_('Dict', o), vals), (z3.Not(is_('Dict', o)), lambda s: self.exc(s, 'AttributeError'))])
        raise NotFormed(f'method .{name}() is not modelled')

    # ------------------------------------------------------------------ comprehensions
    def e_ListComp(self, n, st):
        return self.comprehension(n, st)

    def e_GeneratorExp(self, n, st):
        return self.comprehension(n, st)

    def comprehension(self, n, st):
        if len(n.generators) != 1:
            raise NotFormed('comprehension with several generators')
        g = n.generators[0]
        if g.is_async:
            raise NotFormed('async comprehension')

        def over(st2, src):
            items = st2.known_items(src)
            if items is not None:
                return self.comp_unrolled(n, g, st2, items)
            return self.comp_symbolic(n, g, st2, self.need_term(src))
        if isinstance(g.iter, ast.Call) and isinstance(g.iter.func, ast.Name) and g.iter.func.id == 'range':
            raise NotFormed('comprehension over range()')
        return self.seq(self.ev(g.iter, st), over)

    def bind_target(self, st, target, val):
        if isinstance(target, ast.Name):
            return st.setenv(target.id, val)
        if isinstance(target, (ast.Tuple, ast.List)):
            items = st.known_items(val)
            if items is None:
                if not is_term(val):
                    raise NotFormed('unpacking a static non-sequence')
                # unpack a list of unknown length: require exactly len(target) elements
                n_ = len(target.elts)
                st = st.add(ln(val) == n_)      # callers check feasibility; ValueError otherwise (see ex_unpack)
                items = [at(val, i) for i in range(n_)]
            if len(items) != len(target.elts):
                raise NotFormed('unpacking length mismatch')
            for t, v in zip(target.elts, items):
                st = self.bind_target(st, t, v)
            return st
        raise NotFormed('comprehension / loop target')

    def comp_unrolled(self, n, g, st, items):
        saved = {k: st.env.get(k) for k in self._target_names(g.target)}

        def go(i, s, acc):
            if i == len(items):
                s = self._restore(s, saved)
                if any(not is_term(a) for a in acc):
                    return [(s, PyTuple(acc))]
                s2, L = self.new_list(s, acc)
                return [(s2, L)]
            s = self.bind_target(s, g.target, items[i])

            def conds(j, s2):
                if j == len(g.ifs):
                    return self.seq(self.ev(n.elt, s2), lambda s3, v: go(i + 1, s3, acc + [v]))

                def k(s3, c):
                    t = self.truth(c)
                    return self.cases(s3, [(t, lambda s4: conds(j + 1, s4)), (z3.Not(t), lambda s4: go(i + 1, s4, acc))])
                return self.seq(self.ev(g.ifs[j], s2), k)
            return conds(0, s)
        return go(0, st, [])

    def _target_names(self, t):
        return [x.id for x in ast.walk(t) if isinstance(x, ast.Name)]

    def _restore(self, st, saved):
        s = st.copy()
        for k, v in saved.items():
            if v is None:
                s.env.pop(k, None)
            else:
                s.env[k] = v
        return s

    def comp_symbolic(self, n, g, st, src):
        """[E(x) for x in xs if C(x)] over a list of unknown length: the element expression and the filter are
        evaluated once on the generic element at(xs, kq); they must be single-path and exception-free."""
        if feasible(st, z3.Not(z3.Or(is_('List', src), is_('Tuple', src)))):
            raise NotFormed('comprehension over a value that may not be a list')
        kq = fresh('kq', T.I)
        saved = {k: st.env.get(k) for k in self._target_names(g.target)}
        base_pc, base_ax = len(st.pc), len(st.axioms)
        s = st.add(0 <= kq, kq < ln(src))
        s = self.bind_target(s, g.target, at(src, kq))
        cond = z3.BoolVal(True)
        for c in g.ifs:
            outs = self.ev(c, s)
            outs = [o for o in outs if not (isinstance(o, Flow) and not feasible(o.st))]
            if len(outs) != 1 or isinstance(outs[0], Flow):
                raise NotFormed('comprehension filter that forks or may raise')
            s, cv = outs[0]
            cond = z3.And(cond, self.truth(cv))
        # the element is evaluated under the filter
        s_el = s.add(cond)
        outs = [o for o in self.ev(n.elt, s_el) if not (isinstance(o, Flow) and not feasible(o.st))]
        if len(outs) != 1 or isinstance(outs[0], Flow):
            # several paths: merge values if none raises
            if any(isinstance(o, Flow) for o in outs) or not outs:
                raise NotFormed('comprehension element that may raise')
            # merge by path conditions (each out's extra pc beyond s_el)
            val = None
            extra_facts = []
            for (so, vo) in reversed(outs):
                guard = z3.And(*so.pc[len(s_el.pc):]) if len(so.pc) > len(s_el.pc) else z3.BoolVal(True)
                if len(so.axioms) > len(s_el.axioms):
                    raise NotFormed('comprehension element allocating under a fork')
                val = self.need_term(vo) if val is None else z3.If(guard, self.need_term(vo), val)
            elem, s_after = val, s_el
        else:
            s_after, elem = outs[0]
            elem = self.need_term(elem)
        local_pc = [f for f in s_after.pc[base_pc:] if not (z3.eq(f, 0 <= kq) or z3.eq(f, kq < ln(src)) or z3.eq(f, z3.simplify(cond)))]
        local_pc = list(s_after.pc[base_pc + 2:])
        local_ax = list(s_after.axioms[base_ax:])
        R = V.List(fresh('lid', T.I))
        j = fresh('j', T.I)
        st2 = self._restore(st, saved)
        inrange = z3.And(0 <= j, j < ln(src))
        if not g.ifs:
            pos = j
            facts = [ln(R) == ln(src), ln(src) >= 0]
        else:
            cnt = z3.RecFunction(f'cnt!{kq.get_id()}', T.I, T.I)
            jj = z3.Int('jj')
            z3.RecAddDefinition(cnt, [jj], z3.If(jj <= 0, z3.IntVal(0),
                                                 cnt(jj - 1) + z3.If(z3.substitute(cond, (kq, jj - 1)), 1, 0)))
            pos = cnt(j)
            jm = fresh('j', T.I)
            facts = [ln(R) == cnt(ln(src)), ln(src) >= 0,
                     z3.ForAll([jm], z3.Implies(z3.And(0 <= jm, jm <= ln(src)), z3.And(0 <= cnt(jm), cnt(jm) <= jm)),
                               patterns=[cnt(jm)])]
            st2 = st2.copy()
            st2.ghost = dict(st2.ghost)
            st2.ghost.setdefault('comps', [])
            st2.ghost['comps'] = st2.ghost['comps'] + [(R, src, cnt, kq, cond, elem)]
        # facts local to the generic element are re-stated for every index; a fresh value created by the element
        # expression (e.g. the list display in `[x] for x in xs`) becomes the element itself (Skolemised by position)
        body_facts = list(local_pc) + list(local_ax)
        sub = [(kq, j)]
        if self._is_fresh_const(elem) and not z3.eq(elem, at(src, kq)):
            sub.append((elem, at(R, pos)))
            elem_fact = is_(elem.decl().name(), at(R, pos))      # the fresh element keeps its constructor
        else:
            elem_fact = at(R, pos) == elem
        for f in body_facts:
            for c in self._fresh_consts(f):
                if not any(z3.eq(c, s_[0]) for s_ in sub) and c.decl().name().split('!')[0] in ('lid', 'did', 'tid') \
                        and not self._occurs(c, st.all_facts()):
                    if not (is_term(elem) and self._occurs(c, [elem])):
                        raise NotFormed(f'comprehension element with nested allocation ({c}) in {str(f)[:300]}')
        guard = z3.And(inrange, z3.substitute(cond, (kq, j))) if g.ifs else inrange
        allf = z3.And([z3.substitute(f, *sub) for f in body_facts if not _is_cond(f, cond)] +
                      [z3.substitute(elem_fact, *sub)])
        pat = [at(src, j)]
        facts.append(z3.ForAll([j], z3.Implies(guard, allf), patterns=pat))
        if not g.ifs:
            j2 = fresh('j', T.I)
            facts.append(z3.ForAll([j2], z3.Implies(z3.And(0 <= j2, j2 < ln(src)),
                                                    z3.substitute(allf, (j, j2))), patterns=[at(R, j2)]))
        return [(st2.add(*facts), R)]

    def _is_fresh_const(self, t):
        return z3.is_app(t) and t.num_args() == 1 and z3.is_const(t.arg(0)) and '!' in t.arg(0).decl().name() \
            and t.decl().name() in ('List', 'Dict', 'Tuple')

    def _fresh_consts(self, f):
        out, todo, seen = [], [f], set()
        while todo:
            x = todo.pop()
            if x.get_id() in seen:
                continue
            seen.add(x.get_id())
            if z3.is_const(x) and x.decl().kind() == z3.Z3_OP_UNINTERPRETED and '!' in x.decl().name():
                out.append(x)
            if z3.is_quantifier(x):
                todo.append(x.body())
            else:
                todo.extend(x.children())
        return out

    def _occurs(self, c, facts):
        for f in facts:
            todo, seen = [f], set()
            while todo:
                x = todo.pop()
                if x.get_id() in seen:
                    continue
                seen.add(x.get_id())
                if x.get_id() == c.get_id():
                    return True
                if z3.is_quantifier(x):
                    todo.append(x.body())
                else:
                    todo.extend(x.children())
        return False

    # ------------------------------------------------------------------ statements
    def ex_block(self, stmts, st):
        flows = [Flow('fall', st)]
        for s in stmts:
            nxt = []
            for fl in flows:
                if fl.kind != 'fall':
                    nxt.append(fl)
                    continue
                nxt.extend(self.ex(s, fl.st))
            flows = nxt
            if len(flows) > self.c.max_paths:
                raise NotFormed(f'more than {self.c.max_paths} paths')
        return flows

    def ex(self, n, st):
        if self.deadline and time.time() > self.deadline:
            raise NotFormed(f'path exploration exceeded its budget of {GEN_BUDGET_S} s (too many paths: '
                            'a loop without invariant, or an unsplit case analysis)')
        if self.depth == 0:
            self.cur_line = getattr(n, 'lineno', None)
        m = getattr(self, 's_' + type(n).__name__, None)
        if m is None:
            raise NotFormed(f'statement {type(n).__name__} is outside the subset')
        return m(n, st)

    def lift(self, outs, f):
        """outcomes of an expression -> flows"""
        res = []
        for o in outs:
            if isinstance(o, Flow):
                res.append(o)
            else:
                res.extend(f(o[0], o[1]))
        return res

    def s_Pass(self, n, st):
        return [Flow('fall', st)]

    def s_Import(self, n, st):
        return [Flow('fall', st)]

    s_ImportFrom = s_Import

    def s_Expr(self, n, st):
        v = n.value
        if isinstance(v, ast.Constant):
            return [Flow('fall', st)]
        if isinstance(v, ast.Call) and isinstance(v.func, ast.Attribute) and v.func.attr in ('append', 'update', 'add', 'discard'):
            return self.mutating_call(v, st)
        return self.lift(self.ev(v, st), lambda s, _: [Flow('fall', s)])

    def mutating_call(self, call, st):
        tgt = call.func.value

        def k(st2, vals):
            cur, arg = vals[0], vals[1]
            if call.func.attr == 'append':
                cur = self.need_term(cur)
                arg = self.need_term(arg, 'appended to a list')

                def app(s):
                    L = V.List(fresh('lid', T.I))
                    kk = fresh('k', T.I)
                    s = s.add(ln(L) == ln(cur) + 1, ln(cur) >= 0, at(L, ln(cur)) == arg,
                              z3.ForAll([kk], z3.Implies(z3.And(0 <= kk, kk < ln(cur)), at(L, kk) == at(cur, kk)),
                                        patterns=[at(L, kk)]))
                    for lem in getattr(self.reg, 'append_lemmas', ()):
                        # lemmas about prefix-determined spec functions (proved by induction as LEMMA obligations of the
                        # property that registers them): f(cur + [x], k) == f(cur, k) for k <= len(cur)
                        s = s.add(*lem(L, cur))
                    items = s.known_items(cur)
                    if items is not None:
                        s = s.know(L, items + [arg])
                    return self.assign_to(tgt, L, s)
                return self.cases(st2, [(is_('List', cur), app),
                                        (z3.Not(is_('List', cur)), lambda s: [Flow('exc', s, 'AttributeError')])])
            if call.func.attr in ('add', 'discard'):
                # sets are modelled by their membership only (a Dict whose values are never read)
                cur, arg = self.need_term(cur), self.need_term(arg)
                D = V.Dict(fresh('setid', T.I))
                kk = fresh('k')
                add = call.func.attr == 'add'
                s = st2.add(z3.ForAll([kk], T.dhas(D, kk) == (z3.Or(T.dhas(cur, kk), kk == arg) if add else
                                                               z3.And(T.dhas(cur, kk), kk != arg)), patterns=[T.dhas(D, kk)]),
                            T.dcount(D) >= 0)
                return self.cases_flow(s, [(is_('Dict', cur), lambda s_: self.assign_to(tgt, D, s_)),
                                           (z3.Not(is_('Dict', cur)), lambda s_: [Flow('exc', s_, 'AttributeError')])])
            if call.func.attr == 'update':
                cur, arg = self.need_term(cur), self.need_term(arg)
                D = V.Dict(fresh('did', T.I))
                kk = fresh('k')
                s = st2.add(
                    z3.ForAll([kk], T.dhas(D, kk) == z3.Or(T.dhas(cur, kk), T.dhas(arg, kk)), patterns=[T.dhas(D, kk)]),
                    z3.ForAll([kk], T.dget(D, kk) == z3.If(T.dhas(arg, kk), T.dget(arg, kk), T.dget(cur, kk)),
                              patterns=[T.dget(D, kk)]),
                    T.dcount(D) >= T.dcount(cur), T.dcount(D) >= T.dcount(arg),
                    T.dcount(D) <= T.dcount(cur) + T.dcount(arg))
                return self.assign_to(tgt, D, s)
            raise NotFormed('mutating call')
        return self.lift(self.ev_list([tgt, call.args[0]], st), k)

    def assign_to(self, target, val, st):
        """Store val into target (Name / Attribute / Subscript, nested: functional update, A-ALIAS)."""
        if isinstance(target, ast.Name):
            return [Flow('fall', st.setenv(target.id, val))]
        if isinstance(target, ast.Attribute):
            def k(s, o):
                if isinstance(o, PyVal):
                    raise NotFormed('attribute store on a static value')
                s2 = self.heap_store(s, target.attr, V.oid(o), self.need_term(val))
                return self.cases_flow(s2, [(is_('Obj', o), lambda x: [Flow('fall', x)]),
                                            (z3.Not(is_('Obj', o)), lambda x: [Flow('exc', x, 'AttributeError')])])
            return self.lift(self.ev(target.value, st), k)
        if isinstance(target, ast.Subscript):
            def k(s, vals):
                cont, idx = self.need_term(vals[0]), self.need_term(vals[1])
                v = self.need_term(val)

                def list_store(s2):
                    n_ = ln(cont)
                    i = T.int_of(idx)
                    real = z3.If(i < 0, i + n_, i)

                    def ok(s3):
                        L = V.List(fresh('lid', T.I))
                        kk = fresh('k', T.I)
                        s3 = s3.add(ln(L) == n_, at(L, real) == v,
                                    z3.ForAll([kk], z3.Implies(z3.And(0 <= kk, kk < n_, kk != real), at(L, kk) == at(cont, kk)),
                                              patterns=[at(L, kk)]))
                        return self.assign_to(target.value, L, s3)
                    return self.cases_flow(s2.add(n_ >= 0), [
                        (z3.And(T.is_intlike(idx), 0 <= real, real < n_), ok),
                        (z3.Not(z3.And(T.is_intlike(idx), 0 <= real, real < n_)), lambda s3: [Flow('exc', s3, 'IndexError')])])

                def dict_store(s2):
                    D = V.Dict(fresh('did', T.I))
                    kk = fresh('k')
                    s2 = s2.add(z3.ForAll([kk], T.dhas(D, kk) == z3.Or(T.dhas(cont, kk), kk == idx), patterns=[T.dhas(D, kk)]),
                                z3.ForAll([kk], T.dget(D, kk) == z3.If(kk == idx, v, T.dget(cont, kk)), patterns=[T.dget(D, kk)]),
                                T.dcount(D) >= T.dcount(cont), T.dcount(D) <= T.dcount(cont) + 1, T.dcount(D) >= 1)
                    for lem in getattr(self.reg, 'dict_lemmas', ()):
                        # instances of the defining equations of spec functions over dictionaries (registered by the contract
                        # module, like append_lemmas for lists): f(d with key := v) in terms of f(d)
                        s2 = s2.add(*lem('store', D, cont, idx))
                    return self.assign_to(target.value, D, s2)
                return self.cases_flow(s, [(is_('List', cont), list_store), (is_('Dict', cont), dict_store),
                                           (z3.Not(z3.Or(is_('List', cont), is_('Dict', cont))),
                                            lambda s2: [Flow('exc', s2, 'TypeError')])])
            if isinstance(target.slice, ast.Slice):
                raise NotFormed('slice assignment')
            return self.lift(self.ev_list([target.value, target.slice], st), k)
        if isinstance(target, (ast.Tuple, ast.List)):
            items = st.known_items(val)
            if items is None:
                if not is_term(val):
                    raise NotFormed('unpacking a static value')
                n_ = len(target.elts)
                if any(isinstance(e, ast.Starred) for e in target.elts):
                    raise NotFormed('starred unpacking of a list of unknown length')
                items = [at(val, i) for i in range(n_)]
                return self.cases_flow(st, [
                    (ln(val) == n_, lambda s: self._assign_many(target.elts, items, s)),
                    (ln(val) != n_, lambda s: [Flow('exc', s, 'ValueError')])])
            elts = target.elts
            star = [i for i, e in enumerate(elts) if isinstance(e, ast.Starred)]
            if star:
                i = star[0]
                after = len(elts) - i - 1
                if len(items) < len(elts) - 1:
                    return [Flow('exc', st, 'ValueError')]
                mid = items[i:len(items) - after]
                if all(is_term(m) for m in mid):
                    st, midv = self.new_list(st, mid)
                else:
                    midv = PyTuple(mid)
                vals = items[:i] + [midv] + items[len(items) - after:]
                tg = [e.value if isinstance(e, ast.Starred) else e for e in elts]
                return self._assign_many(tg, vals, st)
            if len(items) != len(elts):
                return [Flow('exc', st, 'ValueError')]
            return self._assign_many(elts, items, st)
        raise NotFormed('assignment target')

    def _assign_many(self, targets, vals, st):
        flows = [Flow('fall', st)]
        for t, v in zip(targets, vals):
            nxt = []
            for fl in flows:
                nxt.extend(self.assign_to(t, v, fl.st) if fl.kind == 'fall' else [fl])
            flows = nxt
        return flows

    def cases_flow(self, st, alts):
        out = []
        for cond, fn in alts:
            c = z3.simplify(cond)
            if z3.is_false(c):
                continue
            if z3.is_true(c):
                out.extend(fn(st))
                continue
            s2 = st.add(c)
            if feasible(s2):
                out.extend(fn(s2))
        return out

    def s_Assign(self, n, st):
        v0 = n.value
        if isinstance(v0, ast.Call) and isinstance(v0.func, ast.Attribute) and v0.func.attr == 'pop' and \
                isinstance(v0.func.value, ast.Name) and len(v0.args) == 1 and not v0.keywords:
            # x = d.pop(key): the value under the key, the dictionary without the key (KeyError when absent)
            def kp(s, vals):
                cur, key = self.need_term(vals[0]), self.need_term(vals[1])

                def ok(s2):
                    D = V.Dict(fresh('did', T.I))
                    kk = fresh('k')
                    s2 = s2.add(z3.ForAll([kk], T.dhas(D, kk) == z3.And(T.dhas(cur, kk), kk != key), patterns=[T.dhas(D, kk)]),
                                z3.ForAll([kk], z3.Implies(kk != key, T.dget(D, kk) == T.dget(cur, kk)), patterns=[T.dget(D, kk)]),
                                T.dcount(D) == T.dcount(cur) - 1, T.dcount(D) >= 0)
                    for lem in getattr(self.reg, 'dict_lemmas', ()):
                        s2 = s2.add(*lem('pop', D, cur, key))
                    out = []
                    for fl in self.assign_to(v0.func.value, D, s2):
                        if fl.kind != 'fall':
                            out.append(fl)
                            continue
                        flows = [fl]
                        for t in n.targets:
                            nxt = []
                            for f2 in flows:
                                nxt.extend(self.assign_to(t, T.dget(cur, key), f2.st) if f2.kind == 'fall' else [f2])
                            flows = nxt
                        out.extend(flows)
                    return out
                if not isinstance(cur, z3.ExprRef):
                    raise NotFormed('pop on a static value')
                return self.cases_flow(s, [(z3.And(is_('Dict', cur), T.dhas(cur, key)), ok),
                                           (z3.And(is_('Dict', cur), z3.Not(T.dhas(cur, key))), lambda s2: [Flow('exc', s2, 'KeyError')]),
                                           (z3.Not(is_('Dict', cur)), lambda s2: self._not_modelled(s2, 'pop on a non-dict'))])
            return self.lift(self.ev_list([v0.func.value, v0.args[0]], st), kp)

        def k(s, v):
            flows = [Flow('fall', s)]
            for t in n.targets:
                nxt = []
                for fl in flows:
                    nxt.extend(self.assign_to(t, v, fl.st) if fl.kind == 'fall' else [fl])
                flows = nxt
            return flows
        return self.lift(self.ev(n.value, st), k)

    def s_AnnAssign(self, n, st):
        if n.value is None:
            return [Flow('fall', st)]
        return self.lift(self.ev(n.value, st), lambda s, v: self.assign_to(n.target, v, s))

    def s_AugAssign(self, n, st):
        load = ast.copy_location(_as_load(n.target), n.target)

        def k(s, vals):
            return self.lift(self.p_binop(s, n.op, vals[0], vals[1]), lambda s2, r: self.assign_to(n.target, r, s2))
        return self.lift(self.ev_list([load, n.value], st), k)

    def s_Return(self, n, st):
        if n.value is None:
            return [Flow('ret', st, T.NONE)]
        return self.lift(self.ev(n.value, st), lambda s, v: [Flow('ret', s, v)])

    def s_Raise(self, n, st):
        if n.exc is None:
            raise NotFormed('bare raise')
        # raise SomeError(<message ...>): the message arguments are not evaluated (they only build text)
        if isinstance(n.exc, ast.Call):
            f = n.exc.func
            nm = f.id if isinstance(f, ast.Name) else f.attr if isinstance(f, ast.Attribute) else None
            if nm and (nm in EXC_SUPER or nm.endswith('Exception') or nm.endswith('Error')):
                return [Flow('exc', st, nm)]

        def k(s, v):
            if isinstance(v, Static) and (v.path.startswith('excinst:') or v.path.startswith('exc:')):
                return [Flow('exc', s, v.path.split(':', 1)[1].split('.')[-1])]
            raise NotFormed('raise of a non-static exception')
        return self.lift(self.ev(n.exc, st), k)

    def s_If(self, n, st):
        def k(s, c):
            t = self.truth(c)
            return self.cases_flow(s, [(t, lambda s2: self.ex_block(n.body, s2)),
                                       (z3.Not(t), lambda s2: self.ex_block(n.orelse, s2))])
        return self.lift(self.ev(n.test, st), k)

    def s_Break(self, n, st):
        return [Flow('brk', st)]

    def s_Continue(self, n, st):
        return [Flow('cont', st)]

    def s_FunctionDef(self, n, st):
        return [Flow('fall', st.setenv(n.name, Closure(n, None, name=n.name)))]

    def s_ClassDef(self, n, st):
        if all(isinstance(b, ast.Pass) for b in n.body) and not n.bases:
            return [Flow('fall', st.setenv(n.name, Static('localclass:' + n.name)))]
        raise NotFormed('class definition inside a function')

    def s_Try(self, n, st):
        out = self._try_handlers(n, st)
        if not n.finalbody:
            return out
        # finally: the final block runs after every way of leaving the statement; when it falls through, the original
        # way of leaving (fall / return value / break / continue / exception) is resumed, otherwise its own leave wins
        res = []
        for fl in out:
            for f2 in self.ex_block(n.finalbody, fl.st):
                res.append(Flow(fl.kind, f2.st, fl.val) if f2.kind == 'fall' else f2)
        return res

    def _try_handlers(self, n, st):
        flows = self.ex_block(n.body, st)
        out = []
        for fl in flows:
            if fl.kind == 'fall' and n.orelse:
                out.extend(self.ex_block(n.orelse, fl.st))      # exceptions of the else block are not handled here
                continue
            if fl.kind != 'exc':
                out.append(fl)
                continue
            handled = False
            for h in n.handlers:
                if h.name is not None:
                    raise NotFormed('except ... as name')
                if h.type is None:
                    names = ['BaseException']
                else:
                    names = self._exc_names(h.type)
                if any(exc_isa(fl.val, nm) for nm in names):
                    out.extend(self.ex_block(h.body, fl.st))
                    handled = True
                    break
            if not handled:
                out.append(fl)
        return out

    def _exc_names(self, t):
        if isinstance(t, ast.Tuple):
            r = []
            for e in t.elts:
                r += self._exc_names(e)
            return r
        if isinstance(t, ast.Name):
            return [t.id]
        if isinstance(t, ast.Attribute):
            return [t.attr]
        raise NotFormed('except clause type')

    def s_Match(self, n, st):
        def k(s, subj):
            def go(i, s2):
                if i == len(n.cases):
                    return [Flow('fall', s2)]
                c = n.cases[i]
                p = c.pattern
                if isinstance(p, ast.MatchValue):
                    def kv(s3, pv):
                        def kr(s4, r):
                            t = V.bval(r)
                            return self._match_guard(c, s4, t, lambda s5: go(i + 1, s5))
                        return self.lift(self.p_eq(s3, subj, pv), kr)
                    return self.lift(self.ev(p.value, s2), kv)
                if isinstance(p, ast.MatchAs):
                    s3 = s2 if p.name is None else s2.setenv(p.name, subj)
                    if p.pattern is not None:
                        raise NotFormed('match-as with sub-pattern')
                    return self._match_guard(c, s3, z3.BoolVal(True), lambda s5: go(i + 1, s5))
                if isinstance(p, ast.MatchSingleton):
                    sv = {None: T.NONE, True: T.TRUE, False: T.FALSE}[p.value]
                    return self._match_guard(c, s2, subj == sv, lambda s5: go(i + 1, s5))
                raise NotFormed(f'match pattern {type(p).__name__}')
            return go(0, s)
        return self.lift(self.ev(n.subject, st), k)

    def _match_guard(self, case, st, matched, otherwise):
        def body(s):
            if case.guard is None:
                return self.ex_block(case.body, s)

            def kg(s2, g):
                t = self.truth(g)
                return self.cases_flow(s2, [(t, lambda s3: self.ex_block(case.body, s3)), (z3.Not(t), otherwise)])
            return self.lift(self.ev(case.guard, s), kg)
        return self.cases_flow(st, [(matched, body), (z3.Not(matched), otherwise)])

    def s_With(self, n, st):
        ext = self.reg.externals.get('stmt:with')
        if ext is not None:
            return ext(self, st, n)
        raise NotFormed('with statement')

    # ------------------------------------------------------------------ loops
    def loop_id(self, n):
        for i, l in enumerate(self.loops):
            if l is n:
                return i
        return None

    def written_fields(self, stmts, seen=None):
        seen = seen if seen is not None else set()
        names, fields = _stored_names(stmts)
        for node in stmts:
            for c in ast.walk(node):
                if not isinstance(c, ast.Call):
                    continue
                f = c.func
                bare = f.attr if isinstance(f, ast.Attribute) else f.id if isinstance(f, ast.Name) else None
                if bare is None or bare in seen:
                    continue
                seen.add(bare)
                cname = self.c.callees.get(bare) or bare
                con = self.reg.contracts.get(cname)
                if con is None:
                    for k, v in self.reg.contracts.items():
                        if k.split('.')[-1] == bare:
                            con = v
                            break
                if con is not None and bare not in self.c.inline:
                    fields |= set(con.modifies)
                    continue
                m = None
                for info in self.reg.classes.values():
                    m = info['methods'].get(bare) or info['props'].get(bare) or m
                m = m or self.module_functions.get(bare)
                if m is not None:
                    fields |= self.written_fields(m.body, seen)
                if bare in self.reg.classes and self.reg.classes[bare]['fields']:
                    fields |= set(self.reg.classes[bare]['fields'])
        return fields

    def havoc(self, st, names, fields):
        s = st.copy()
        for nm in sorted(names):
            if nm in s.env and is_term(s.env[nm]):
                s.env[nm] = fresh(nm)
            elif nm in s.env:
                pass        # static values (closures) are not havocked
        for f in sorted(fields):
            if f in s.heap:
                s.heap[f] = fresh(f'fld_{f}', z3.ArraySort(T.I, V))
        newmax = fresh('maxid', T.I)
        s = s.add(newmax >= st.maxid)
        s.maxid = newmax
        return s

    def check_invs(self, st, lid, invs, phase, extra_names=None):
        for cname, text in invs.items():
            names = dict(st.env)
            if extra_names:
                names.update(extra_names)
            g = SpecEval(self.reg, st, names, st.marks).eval_str(text)
            self.vc(st, f'{self.c.name}.inv{lid}.{cname}.{phase}', g, False, text)

    def assume_invs(self, st, invs, extra_names=None):
        names = dict(st.env)
        if extra_names:
            names.update(extra_names)
        ev = SpecEval(self.reg, st, names, st.marks)
        return st.add(*[ev.eval_str(t) for t in invs.values()])

    def s_While(self, n, st):
        lid = self.loop_id(n)
        invs = self.c.invariants.get(lid) if lid is not None else None
        if n.orelse:
            raise NotFormed('while/else')
        if invs is None or self.concrete:
            return self.unroll_while(n, st, 0)
        names, _ = _stored_names(n.body)
        fields = self.written_fields(n.body)
        st = st.mark('loop').mark(f'loop{lid}')
        self.check_invs(st, lid, invs, 'establish')
        h = self.assume_invs(self.havoc(st, names, fields), invs)
        out = []

        def after_test(s, c):
            t = self.truth(c)

            def body(s2):
                res = []
                for fl in self.ex_block(n.body, s2):
                    if fl.kind in ('fall', 'cont'):
                        self.check_invs(fl.st, lid, invs, 'preserve')
                    elif fl.kind == 'brk':
                        res.append(Flow('fall', fl.st))
                    else:
                        res.append(fl)
                return res
            return self.cases_flow(s, [(t, body), (z3.Not(t), lambda s2: [Flow('fall', s2)])])
        out.extend(self.lift(self.ev(n.test, h), after_test))
        return out

    def unroll_while(self, n, st, i):
        if i > MAX_UNROLL:
            raise NotFormed('while loop without invariant does not terminate within the unrolling bound')

        def after_test(s, c):
            t = self.truth(c)

            def body(s2):
                res = []
                for fl in self.ex_block(n.body, s2):
                    if fl.kind in ('fall', 'cont'):
                        res.extend(self.unroll_while(n, fl.st, i + 1))
                    elif fl.kind == 'brk':
                        res.append(Flow('fall', fl.st))
                    else:
                        res.append(fl)
                return res
            return self.cases_flow(s, [(t, body), (z3.Not(t), lambda s2: [Flow('fall', s2)])])
        return self.lift(self.ev(n.test, st), after_test)

    def s_For(self, n, st):
        if n.orelse:
            raise NotFormed('for/else')
        it = n.iter
        lid = self.loop_id(n)
        invs = self.c.invariants.get(lid) if lid is not None else None
        # ---- shapes of the iterable
        if isinstance(it, ast.Call) and isinstance(it.func, ast.Name) and it.func.id == 'range':
            def kr(s, vals):
                for v in vals:
                    if feasible(s, z3.Not(T.is_intlike(self.need_term(v)))):
                        raise NotFormed('range() bound that may not be an int')
                ints = [T.int_of(v) for v in vals]
                if len(ints) == 1:
                    lo, hi = z3.IntVal(0), ints[0]
                elif len(ints) == 2:
                    lo, hi = ints
                else:
                    raise NotFormed('range() with a step')
                return self.for_index(n, s, lid, invs, lo, hi, lambda s2, k: (s2, V.Int(k)), n.target)
            return self.lift(self.ev_list(it.args, st), kr)
        if isinstance(it, ast.Call) and isinstance(it.func, ast.Name) and it.func.id == 'enumerate':
            def ke(s, src):
                return self.for_seq(n, s, lid, invs, src, lambda k, x: PyTuple([V.Int(k), x]))
            return self.lift(self.ev(it.args[0], st), ke)
        if isinstance(it, ast.Call) and isinstance(it.func, ast.Name) and it.func.id == 'filter':
            # for x in filter(f, xs): B   ==   for x in xs: if f(x): B
            fnode, src = it.args
            call = ast.Call(func=fnode, args=[_as_load(n.target)], keywords=[])
            new = ast.For(target=n.target, iter=src, body=[ast.If(test=call, body=n.body, orelse=[])], orelse=[])
            ast.copy_location(new, n)
            ast.fix_missing_locations(new)
            if lid is not None:
                self.loops[lid] = new
            return self.s_For(new, st)
        if isinstance(it, ast.Call) and isinstance(it.func, ast.Name) and it.func.id == 'zip':
            def kz(s, srcs):
                lists = [s.known_items(x) for x in srcs]
                if all(l is not None for l in lists):
                    m = min(len(l) for l in lists)
                    return self.for_items(n, s, [PyTuple([l[i] for l in lists]) for i in range(m)])
                raise NotFormed('zip over lists of unknown length (needs a contract-level rewrite)')
            return self.lift(self.ev_list(it.args, st), kz)
        if isinstance(it, ast.Call) and isinstance(it.func, ast.Attribute) and it.func.attr in ('items', 'values', 'keys'):
            raise NotFormed('iteration over a dict view')
        return self.lift(self.ev(it, st), lambda s, src: self.for_seq(n, s, lid, invs, src, lambda k, x: x))

    def for_items(self, n, st, items):
        def go(i, s):
            if i == len(items):
                return [Flow('fall', s)]
            res = []
            for fl0 in self.assign_to(n.target, items[i], s) if not isinstance(items[i], PyTuple) or True else []:
                if fl0.kind != 'fall':
                    res.append(fl0)
                    continue
                for fl in self.ex_block(n.body, fl0.st):
                    if fl.kind in ('fall', 'cont'):
                        res.extend(go(i + 1, fl.st))
                    elif fl.kind == 'brk':
                        res.append(Flow('fall', fl.st))
                    else:
                        res.append(fl)
            return res
        return go(0, st)

    def for_seq(self, n, st, lid, invs, src, mk):
        items = st.known_items(src)
        if items is not None and (invs is None or self.concrete):
            return self.for_items(n, st, [mk(T.vint(i) if False else z3.IntVal(i), x) for i, x in enumerate(items)])
        src = self.need_term(src, 'as loop iterable')
        if feasible(st, z3.Not(z3.Or(is_('List', src), is_('Tuple', src)))):
            alt = self.cases_flow(st, [(z3.Not(z3.Or(is_('List', src), is_('Tuple', src))),
                                        lambda s: self._iter_nonlist(s, src))])
        else:
            alt = []
        st = st.add(z3.Or(is_('List', src), is_('Tuple', src)), ln(src) >= 0)
        if not feasible(st):
            return alt
        st = st.setenv(f'seq{lid}', src)            # ghost name: the sequence a for loop iterates over (for its invariants)
        return alt + self.for_index(n, st, lid, invs, z3.IntVal(0), ln(src),
                                    lambda s2, k: (s2, mk(k, at(src, k))), n.target)

    def _iter_nonlist(self, st, src):
        return self.cases_flow(st, [(z3.Or(is_('Str', src), is_('Dict', src)),
                                     lambda s: (_ for _ in ()).throw(NotFormed('iteration over str/dict'))),
                                    (z3.Not(z3.Or(is_('Str', src), is_('Dict', src))), lambda s: [Flow('exc', s, 'TypeError')])])

    def for_index(self, n, st, lid, invs, lo, hi, elem, target):
        """for target in <indexable>: iterations k = lo .. hi-1, element elem(state, k)."""
        if invs is None or self.concrete:
            return self.unroll_for(n, st, lo, hi, elem, 0)
        names, _ = _stored_names(n.body)
        names |= set(self._target_names(target))
        fields = self.written_fields(n.body)
        st = st.mark('loop').mark(f'loop{lid}')
        kname = f'k{lid}'
        end = z3.If(hi >= lo, hi, lo)
        self.check_invs(st, lid, invs, 'establish', {kname: lo})
        k = fresh(kname, T.I)
        h = self.havoc(st, names, fields)
        h = self.assume_invs(h, invs, {kname: k})
        out = []
        # ---- an arbitrary iteration
        it_st = h.add(lo <= k, k < hi)
        if feasible(it_st):
            s2, x = elem(it_st, k)
            s2 = s2.setenv(kname, k)
            for fl0 in self.assign_to(target, x, s2):
                if fl0.kind != 'fall':
                    out.append(fl0)
                    continue
                for fl in self.ex_block(n.body, fl0.st):
                    if fl.kind in ('fall', 'cont'):
                        self.check_invs(fl.st, lid, invs, 'preserve', {kname: k + 1})
                    elif fl.kind == 'brk':
                        out.append(Flow('fall', fl.st))
                    else:
                        out.append(fl)
        # ---- exit
        ex_st = self.assume_invs(self.havoc(st, names, fields), invs, {kname: end})
        ex_st = ex_st.setenv(kname, end)
        if feasible(ex_st):
            out.append(Flow('fall', ex_st))
        return out

    def unroll_for(self, n, st, lo, hi, elem, i):
        if i > MAX_UNROLL:
            raise NotFormed('for loop without invariant exceeds the unrolling bound')
        k = z3.simplify(lo + i)

        def body(s):
            s2, x = elem(s, k)
            res = []
            for fl0 in self.assign_to(n.target, x, s2):
                if fl0.kind != 'fall':
                    res.append(fl0)
                    continue
                for fl in self.ex_block(n.body, fl0.st):
                    if fl.kind in ('fall', 'cont'):
                        res.extend(self.unroll_for(n, fl.st, lo, hi, elem, i + 1))
                    elif fl.kind == 'brk':
                        res.append(Flow('fall', fl.st))
                    else:
                        res.append(fl)
            return res
        return self.cases_flow(st, [(k < hi, body), (z3.Not(k < hi), lambda s: [Flow('fall', s)])])

    # ------------------------------------------------------------------ sorts of parameters
    def sort_facts(self, term, spec, st):
        facts = []
        if spec in ('V', 'any', None):
            return facts
        alts = spec.split('|')
        if len(alts) > 1:
            return [z3.Or([z3.And(self.sort_facts(term, a, st) or [z3.BoolVal(True)]) for a in alts])]
        m = {'int': 'Int', 'str': 'Str', 'bool': 'Bool', 'float': 'Float', 'list': 'List', 'tuple': 'Tuple',
             'dict': 'Dict', 'none': 'NoneV', 'empty': 'Empty', 'datetime': 'DateTime', 'date': 'Date', 'fn': 'Fn',
             'cls': 'Cls'}
        if spec in m:
            facts.append(is_(m[spec], term))
            if spec in ('list', 'tuple'):
                facts.append(ln(term) >= 0)
            if spec == 'dict':
                facts.append(T.dcount(term) >= 0)
            if spec == 'datetime':
                facts += [V.tsec(term) >= 0, V.tsec(term) < 86400, V.tord(term) >= 1, V.tord(term) <= 3652059]
            if spec == 'date':
                facts += [V.dord(term) >= 1, V.dord(term) <= 3652059]
        elif spec == 'num':
            facts.append(z3.Or(is_('Int', term), is_('Float', term)))
        elif spec == 'scalar':
            facts.append(z3.Or(is_('Int', term), is_('Float', term), is_('Bool', term), is_('Str', term),
                               is_('NoneV', term), is_('Empty', term), is_('DateTime', term), is_('Date', term)))
            facts.append(z3.Implies(is_('DateTime', term), z3.And(V.tsec(term) >= 0, V.tsec(term) < 86400,
                                                                  V.tord(term) >= 1, V.tord(term) <= 3652059)))
            facts.append(z3.Implies(is_('Date', term), z3.And(V.dord(term) >= 1, V.dord(term) <= 3652059)))
        elif spec.startswith('obj:'):
            facts += [is_('Obj', term), V.oid(term) >= 1, V.oid(term) <= st.maxid]
        elif spec.startswith('list:'):
            facts += [is_('List', term), ln(term) >= 0]
            k = fresh('k', T.I)
            inner = self.sort_facts(at(term, k), spec[5:], st)
            if inner:
                facts.append(z3.ForAll([k], z3.Implies(z3.And(0 <= k, k < ln(term)), z3.And(inner)),
                                       patterns=[at(term, k)]))
        else:
            raise NotFormed(f'unknown sort spec {spec}')
        return facts

    # ------------------------------------------------------------------ the driver
    def initial_state(self):
        st = State()
        st.maxid = fresh('maxid0', T.I)
        st = st.add(st.maxid >= 0)
        xl = z3.Const('len_x', V)
        bg = [z3.ForAll([xl], ln(xl) >= 0, patterns=[ln(xl)]),     # lengths are never negative
              z3.ForAll([xl], T.dcount(xl) >= 0, patterns=[T.dcount(xl)])]
        for ax in getattr(self.reg, 'axioms', ()):      # defining axioms of recursive spec functions (triggered unfolding)
            bg += list(ax())
        st.bg = tuple(bg)
        fields = set(self.c.fields) | set(self.c.modifies)
        for info in self.reg.classes.values():
            fields |= set(info['fields'])
        for f in sorted(fields):
            st.heap[f] = fresh(f'fld_{f}', z3.ArraySort(T.I, V))
        for p, spec in self.c.params.items():
            t = z3.Const(f'arg_{p}', V)
            st.env[p] = t
            self.param_terms[p] = t
            st = st.add(*self.sort_facts(t, spec, st))
        return st

    def run(self):
        """Generates all VCs of the function against its contract."""
        self.deadline = time.time() + GEN_BUDGET_S
        st = self.initial_state()
        st = st.mark('old')
        ev = SpecEval(self.reg, st, st.env, st.marks)
        req = [ev.eval_str(r) for r in self.c.requires]
        st = st.add(*req)
        st = st.mark('old')
        self.entry = st
        # bind python parameters: contract param names must be the function's parameter names
        fparams = [a.arg for a in self.fn.args.posonlyargs + self.fn.args.args]
        vparams = list(getattr(self.c, 'vararg_params', ()) or ())
        if self.fn.args.vararg:
            if vparams or getattr(self.c, 'vararg_params', None) is not None:
                # fixed-arity instance of a *args function: the extra positionals are named contract parameters
                st = st.setenv(self.fn.args.vararg.arg, PyTuple([st.env[p] for p in vparams]))
                fparams = fparams + vparams
            else:
                fparams.append(self.fn.args.vararg.arg)
        missing = [p for p in fparams if p not in self.c.params]
        for p in missing:
            a = self.fn.args
            allp = a.posonlyargs + a.args
            idx = [x.arg for x in allp].index(p) if p in [x.arg for x in allp] else None
            nd = len(a.defaults)
            if idx is not None and idx >= len(allp) - nd:
                d = a.defaults[idx - (len(allp) - nd)]
                st = st.setenv(p, self.e_Constant(d, st)[0][1])
            elif p in ('cls',):
                st = st.setenv(p, Static('class:' + (self.class_name or '')))
            else:
                raise NotFormed(f'parameter {p} of the function is not described by the contract')
        extra = [p for p in self.c.params if p not in fparams]
        if extra:
            raise NotFormed(f'contract parameters {extra} are not parameters of the function')
        if self.fn.args.vararg and self.fn.args.vararg.arg in self.c.params:
            raise NotFormed('contract on *args must bind it through params as a tuple')
        flows = self.ex_block(self.fn.body, st)
        raise_conds = {}
        ev_old = SpecEval(self.reg, self.entry, self.entry.env, self.entry.marks)
        for exc, cond in self.c.raises.items():
            raise_conds[exc] = ev_old.eval_str(cond)
        for fl in flows:
            self.npaths += 1
            if fl.kind in ('ret', 'fall'):
                result = fl.val if fl.kind == 'ret' else T.NONE
                if isinstance(result, PyTuple) and all(is_term(i) for i in result.items):
                    s2, result = self.new_list(fl.st, result.items, tuple_=True)
                    fl = Flow(fl.kind, s2, result)
                if not is_term(result):
                    raise NotFormed('function returns a static value')
                names = dict(self.entry.env)
                names.update({k: v for k, v in fl.st.env.items() if k in self.c.params})
                evp = SpecEval(self.reg, fl.st, names, fl.st.marks, result)
                for cname, text in self.c.ensures.items():
                    self.vc(fl.st, f'{self.c.name}.post.{cname}', evp.eval_str(text), True, text)
                for exc, cond in raise_conds.items():
                    self.vc(fl.st, f'{self.c.name}.raises.{exc}.only_normal_when_not', z3.Not(cond), True,
                            f'returns normally although the raises condition of {exc} holds: {self.c.raises[exc]}')
            elif fl.kind == 'exc':
                if self.c.ensures_on_raise:
                    names = dict(self.entry.env)
                    names.update({k: v for k, v in fl.st.env.items() if k in self.c.params})
                    evx = SpecEval(self.reg, fl.st, names, fl.st.marks, None)
                    for cname, text in self.c.ensures_on_raise.items():
                        self.vc(fl.st, f'{self.c.name}.on_raise.{cname}', evx.eval_str(text), True,
                                f'at an exceptional exit ({fl.val}): {text}')
                listed = [e for e in raise_conds if exc_isa(fl.val, e)]
                if listed:
                    self.vc(fl.st, f'{self.c.name}.raises.{listed[0]}.only_when', raise_conds[listed[0]], True,
                            f'{fl.val} raised outside its condition: {self.c.raises[listed[0]]}')
                elif any(exc_isa(fl.val, e) for e in self.c.free_exceptions):
                    continue
                else:
                    self.vc(fl.st, f'{self.c.name}.no_raise.{fl.val}', z3.BoolVal(False), True,
                            f'{fl.val} is reachable (statement at line {fl.st.ghost.get("exc_line")} of the function\'s module) '
                            'but not allowed by the contract')
            else:
                raise NotFormed('break/continue outside a loop')
        return self.vcs


def _as_load(t):
    import copy
    t2 = copy.deepcopy(t)
    for x in ast.walk(t2):
        if hasattr(x, 'ctx'):
            x.ctx = ast.Load()
    return t2


def _is_cond(f, cond):
    try:
        return z3.eq(f, z3.simplify(cond)) or z3.eq(f, cond)
    except Exception:  # noqa
        return False
