"""Ground refuter: a bounded, home-made round of pattern-based quantifier instantiation.

z3 proves the quantified VCs (unsat) quickly but, on a failing VC, runs into its time limit without a model.
Here the negated goal is Skolemised, the quantified facts are instantiated on the ground terms that match their
patterns (two rounds), and the resulting quantifier-free formula is solved.  `unsat` is a proof (instances are
consequences of the facts); `sat` gives a *candidate* model that is believed only after native replay.
"""
import itertools

import z3

_ctr = itertools.count()


def _fresh_like(sort, name):
    return z3.Const(f'sk_{name}!{next(_ctr)}', sort)


def neg_skolem(goal):
    """A formula implying Not(goal), with the universally quantified variables of the goal replaced by constants."""
    if z3.is_quantifier(goal) and goal.is_forall():
        n = goal.num_vars()
        consts = [_fresh_like(goal.var_sort(i), goal.var_name(i)) for i in range(n)]
        body = z3.substitute_vars(goal.body(), *reversed(consts))
        return neg_skolem(body)
    if z3.is_and(goal):
        return z3.Or([neg_skolem(c) for c in goal.children()])
    if z3.is_implies(goal):
        return z3.And(goal.arg(0), neg_skolem(goal.arg(1)))
    if z3.is_app(goal) and goal.decl().kind() == z3.Z3_OP_ITE and goal.sort() == z3.BoolSort():
        c, a, b = goal.children()
        return z3.Or(z3.And(c, neg_skolem(a)), z3.And(z3.Not(c), neg_skolem(b)))
    return z3.Not(goal)


def split_facts(facts):
    """-> (ground facts, quantified facts as (vars count, sorts, names, body, patterns))"""
    ground, quants = [], []

    def visit(f, positive=True):
        if z3.is_quantifier(f) and f.is_forall():
            quants.append(f)
        elif z3.is_and(f):
            for c in f.children():
                visit(c)
        else:
            # exists-facts and formulas that hide quantifiers are kept as they are (z3 Skolemises / instantiates them itself)
            ground.append(f)
    for f in facts:
        visit(f)
    return ground, quants


def ground_terms(formulas):
    """All applications of uninterpreted functions / selects without free variables."""
    out, seen = {}, set()
    todo = list(formulas)
    while todo:
        x = todo.pop()
        i = x.get_id()
        if i in seen:
            continue
        seen.add(i)
        if z3.is_quantifier(x):
            continue       # terms under binders are not ground
        if z3.is_app(x):
            k = x.decl().kind()
            if x.num_args() > 0 and (k == z3.Z3_OP_UNINTERPRETED or k == z3.Z3_OP_SELECT or k == z3.Z3_OP_RECURSIVE):
                out.setdefault(_head(x), []).append(x)
            todo.extend(x.children())
    return out


def _head(t):
    k = t.decl().kind()
    if k == z3.Z3_OP_SELECT:
        return 'select'
    return t.decl().name()


def match(pat, term, binding, nvars):
    """Syntactic one-way matching of a pattern (with de Bruijn variables) against a ground term."""
    if z3.is_var(pat):
        idx = z3.get_var_index(pat)
        if idx in binding:
            return binding if z3.eq(binding[idx], term) else None
        if pat.sort() != term.sort():
            return None
        b = dict(binding)
        b[idx] = term
        return b
    if not z3.is_app(pat) or not z3.is_app(term):
        return None
    if pat.num_args() == 0:
        return binding if z3.eq(pat, term) else None
    if pat.decl().kind() != term.decl().kind() or pat.num_args() != term.num_args():
        return None
    if pat.decl().kind() in (z3.Z3_OP_UNINTERPRETED, z3.Z3_OP_RECURSIVE) and pat.decl().name() != term.decl().name():
        return None
    # arithmetic offsets in patterns (k + c): match by solving for the variable
    if pat.decl().kind() == z3.Z3_OP_ADD and pat.num_args() == 2 and z3.is_var(pat.arg(0)) and not _has_var(pat.arg(1)):
        return match(pat.arg(0), z3.simplify(term - pat.arg(1)), binding, nvars)
    b = binding
    for pa, ta in zip(pat.children(), term.children()):
        b = match(pa, ta, b, nvars)
        if b is None:
            return None
    return b


def _has_var(t):
    todo = [t]
    while todo:
        x = todo.pop()
        if z3.is_var(x):
            return True
        todo.extend(x.children())
    return False


def _pattern_terms(q):
    pats = []
    for i in range(q.num_patterns()):
        p = q.pattern(i)
        pats.append(list(p.children()))      # a (multi-)pattern: list of terms
    return pats


def _auto_patterns(q):
    """For pattern-less quantifiers: every uninterpreted application in the body that contains all bound variables."""
    n = q.num_vars()
    res = []
    todo, seen = [q.body()], set()
    while todo:
        x = todo.pop()
        if x.get_id() in seen or z3.is_quantifier(x):
            continue
        seen.add(x.get_id())
        if z3.is_app(x):
            if x.num_args() > 0 and x.decl().kind() in (z3.Z3_OP_UNINTERPRETED, z3.Z3_OP_SELECT, z3.Z3_OP_RECURSIVE):
                vs = set()
                t2 = [x]
                while t2:
                    y = t2.pop()
                    if z3.is_var(y):
                        vs.add(z3.get_var_index(y))
                    t2.extend(y.children())
                if len(vs) == n:
                    res.append([x])
            todo.extend(x.children())
    return res[:4]


def instantiate(quants, gterms, limit=4000):
    insts = []
    seen = set()
    for q in quants:
        n = q.num_vars()
        pats = _pattern_terms(q) or _auto_patterns(q)
        for multi in pats:
            bindings = [{}]
            for p in multi:
                cands = gterms.get(_head(p), []) if z3.is_app(p) else []
                nb = []
                for b in bindings:
                    for t in cands:
                        m = match(p, t, b, n)
                        if m is not None:
                            nb.append(m)
                    if len(nb) > 600:
                        break
                bindings = nb
                if not bindings:
                    break
            for b in bindings:
                if len(b) != n:
                    continue
                key = (q.get_id(), tuple(b[i].get_id() for i in range(n)))
                if key in seen:
                    continue
                seen.add(key)
                # de Bruijn: variable index 0 is the LAST bound variable
                args = [b[i] for i in range(n)]
                inst = z3.substitute_vars(q.body(), *args)
                insts.append(inst)
                if len(insts) >= limit:
                    return insts
    return insts


def refute(facts, goal, timeout_ms=8000, rounds=2):
    """-> (verdict, model) with verdict in 'unsat' (proved), 'sat' (candidate model), 'unknown'."""
    ng = neg_skolem(goal)
    ground, quants = split_facts(list(facts))
    # the negated goal may itself contain positive universal hypotheses: And(hyp, ...) - split again
    g2, q2 = split_facts([ng])
    ground += g2
    quants += q2
    allinst = []
    cur = list(ground)
    for _ in range(rounds):
        gts = ground_terms(cur + allinst)
        new = instantiate(quants, gts)
        fresh_new = [i for i in new if all(not z3.eq(i, o) for o in allinst[-50:])]
        if len(new) == len(allinst):
            break
        allinst = new
        # instances may contain nested universals: split them
        more_ground, more_q = split_facts(allinst)
        for mq in more_q:
            if all(mq.get_id() != q.get_id() for q in quants):
                quants.append(mq)
        allinst = more_ground
    s = z3.Solver()
    s.set('timeout', timeout_ms)
    s.add(*ground)
    s.add(*allinst)
    r = s.check()
    if r == z3.unsat:
        return 'unsat', None
    if r == z3.sat:
        model = s.model()
        # prefer a small candidate: bound every integer-valued ground term, relaxing step by step
        ints = _int_terms(ground + allinst)
        for bound in (3, 12, 120):
            s.push()
            s.set('timeout', min(timeout_ms, 3000))
            for t in ints:
                s.add(t >= -bound, t <= bound)
            if s.check() == z3.sat:
                model = s.model()
                s.pop()
                break
            s.pop()
        return 'sat', model
    return 'unknown', None


def _int_terms(formulas, cap=400):
    out, seen = [], set()
    todo = list(formulas)
    while todo and len(out) < cap:
        x = todo.pop()
        if x.get_id() in seen or z3.is_quantifier(x):
            continue
        seen.add(x.get_id())
        if z3.is_app(x):
            if x.sort() == z3.IntSort() and not z3.is_int_value(x) and x.decl().kind() in (
                    z3.Z3_OP_UNINTERPRETED, z3.Z3_OP_DT_ACCESSOR, z3.Z3_OP_SELECT):
                out.append(x)
            todo.extend(x.children())
    return out
