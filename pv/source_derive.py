"""Mechanical extraction of a sub-expression of a real function (shared by both interpreter sides)."""
import ast


class SourceError(Exception):
    pass


def derive(fn, what):
    """A sub-expression of a real function as a function of its bound variables (mechanical extraction):
    filter<k> / elt<k>: the condition / element expression of the k-th comprehension (source order) with parameters
    (comprehension variables..., the function's own parameters...); lambda<k>: the k-th lambda as a def.
    Dropped: everything of the function outside that expression (stated in the evidence of the obligation)."""
    import copy
    import re
    mh = re.fullmatch(r'head(\d+):(\w+)', what)
    if mh:
        # the function without its last N top-level statements, returning one local: exposes the state before the
        # final fold to a contract (dropped: those N statements, which have their own obligations)
        n, var = int(mh.group(1)), mh.group(2)
        new = copy.deepcopy(fn)
        if n >= len(new.body):
            raise SourceError(f'{fn.name} has fewer than {n + 1} statements')
        new.body = new.body[:len(new.body) - n] + [ast.Return(value=ast.Name(id=var, ctx=ast.Load()))]
        new.name = f'{fn.name}__head{n}'
        ast.fix_missing_locations(new)
        return new
    m = re.fullmatch(r'(filter|elt|lambda)(\d+)', what)
    if not m:
        raise SourceError(f'bad derived target {what}')
    kind, k = m.group(1), int(m.group(2))
    own = [a.arg for a in fn.args.posonlyargs + fn.args.args]
    if kind == 'lambda':
        lams = sorted([n for n in ast.walk(fn) if isinstance(n, ast.Lambda)], key=lambda n: (n.lineno, n.col_offset))
        if k >= len(lams):
            raise SourceError(f'{fn.name} has no lambda #{k}')
        lam = lams[k]
        params = [a.arg for a in lam.args.args]
        body = lam.body
    else:
        comps = sorted([n for n in ast.walk(fn) if isinstance(n, (ast.ListComp, ast.GeneratorExp, ast.SetComp))],
                       key=lambda n: (n.lineno, n.col_offset))
        if k >= len(comps):
            raise SourceError(f'{fn.name} has no comprehension #{k}')
        comp = comps[k]
        if len(comp.generators) != 1:
            raise SourceError('nested comprehension generators')
        g = comp.generators[0]
        params = [n.id for n in ast.walk(g.target) if isinstance(n, ast.Name)]
        if kind == 'filter':
            if not g.ifs:
                raise SourceError(f'comprehension #{k} of {fn.name} has no filter')
            body = g.ifs[0] if len(g.ifs) == 1 else ast.BoolOp(op=ast.And(), values=list(g.ifs))
        else:
            body = comp.elt
    used = {n.id for n in ast.walk(body) if isinstance(n, ast.Name)}
    stored = {n.id for n in ast.walk(fn) if isinstance(n, ast.Name) and isinstance(n.ctx, ast.Store)}
    inner = {n.id for n in ast.walk(body) if isinstance(n, ast.Name) and isinstance(n.ctx, ast.Store)}
    params = params + [p for p in own if p not in params and p in used] + \
        sorted(v for v in stored if v in used and v not in params and v not in own and v not in inner)
    new = ast.FunctionDef(name=f'{fn.name}__{what}', args=ast.arguments(
        posonlyargs=[], args=[ast.arg(arg=p) for p in params], vararg=None, kwonlyargs=[], kw_defaults=[], kwarg=None,
        defaults=[]), body=[ast.Return(value=copy.deepcopy(body))], decorator_list=[], returns=None, type_comment=None)
    if hasattr(new, 'type_params'):
        new.type_params = []
    ast.copy_location(new, fn)
    ast.fix_missing_locations(new)
    return new


