"""K-S (schema) obligations: the REAL Lexer -> AstBuilder -> translators -> Context are run on schema formulas whose
operands are distinguished placeholders (900001, 900002, ...); the emitted expression (sub-expression methods inlined)
is parsed with CPython's ast and compared with the shape the property statement prescribes.

Expected shapes are written as Python expression templates with three macros:
    CELL(t, c, r)                 -> self._cell_preprocessor('_t_c_r')
    AREA(t, c1, r1, c2, r2)       -> [[CELL(t,c1,r1), ..., CELL(t,c2,r1)], ..., [...]]      (row-major)
    ANY                            -> matches any sub-expression
"""
import ast

from . import native
from .core import Ob


def _cell(t, c, r):
    return ast.parse(f"self._cell_preprocessor('_{t}_{c}_{r}')", mode='eval').body


class _Expand(ast.NodeTransformer):
    def visit_Call(self, n):
        self.generic_visit(n)
        if isinstance(n.func, ast.Name) and n.func.id in ('CELL', 'AREA', 'COLUMNAREA', 'FLAT'):
            a = [x.value if isinstance(x, ast.Constant) else -x.operand.value for x in n.args]
            if n.func.id == 'CELL':
                return _cell(*a)
            t, c1, r1, c2, r2 = a
            rows = [ast.List(elts=[_cell(t, c, r) for c in range(c1, c2 + 1)], ctx=ast.Load()) for r in range(r1, r2 + 1)]
            if n.func.id == 'FLAT':
                return ast.List(elts=[e for row in rows for e in row.elts], ctx=ast.Load())
            return ast.List(elts=rows, ctx=ast.Load())
        return n


def expected_ast(template):
    tree = ast.parse(template, mode='eval').body
    tree = _Expand().visit(tree)
    ast.fix_missing_locations(tree)
    return tree


def _show(x):
    try:
        return ast.unparse(x)[:100] if isinstance(x, ast.AST) else repr(x)[:100]
    except Exception:  # noqa
        return repr(x)[:100]


def match(got, exp):
    """structural equality with ANY wildcards in exp; returns (ok, first difference)"""
    if isinstance(exp, ast.Name) and exp.id == 'ANY':
        return True, ''
    if type(got) is not type(exp):
        return False, f'{_show(got)} where {_show(exp)} is prescribed'
    if isinstance(got, ast.AST):
        for f in got._fields:
            if f in ('ctx', 'kind', 'type_comment'):
                continue
            ok, why = match(getattr(got, f, None), getattr(exp, f, None))
            if not ok:
                return False, why if isinstance(getattr(got, f, None), (ast.AST, list)) and why else \
                    f'{_show(got)} where {_show(exp)} is prescribed'
        return True, ''
    if isinstance(got, list):
        if len(got) != len(exp):
            return False, f'{len(got)} elements where {len(exp)} are prescribed'
        for a, b in zip(got, exp):
            ok, why = match(a, b)
            if not ok:
                return False, why
        return True, ''
    return (got == exp), ('' if got == exp else f'{got!r} where {exp!r} is prescribed')


def run_table(res, prop, table, cells=None, titles=('S',)):
    """table: [(clause name, formula, expected template or callable(ast)->(ok, text), note)].
    One KS obligation per row; decisive (a wrong emitted shape is an input on which the statement fails)."""
    formulas = [row[1] for row in table]
    try:
        r = native.call('schema', 'emit_each', formulas=formulas, cells=cells or [], titles=list(titles))
    except native.NativeError:
        # the real pipeline failed outside its own error reporting on some schema formula (e.g. the emitted module does not
        # compile): run the formulas one by one, so that the failing ones are reported as failed obligations, not as a crash
        r = {'codes': [], 'errors': []}
        for f in formulas:
            try:
                one = native.call('schema', 'emit_each', formulas=[f], cells=cells or [], titles=list(titles))
                r['codes'].append(one['codes'][0])
                r['errors'].append(one['errors'][0])
            except native.NativeError as e:
                last = [ln for ln in str(e).strip().splitlines() if ln.strip()]
                r['codes'].append(None)
                r['errors'].append('the real pipeline raised outside its error reporting: ' + (last[-1][:200] if last else 'unknown'))
    obs = []
    # PARAM: the side condition that turns one schema run into a statement about all operands (L-SUBST)
    from . import param
    n, problems = param.check()
    po = Ob(f'{prop}.PARAM.translators_only_concatenate', 'K3', decisive=False, function='translators/*.py (every function)')
    po.count = n
    po.status = 'failed' if problems else 'discharged'
    po.detail = ('; '.join(problems[:4]) if problems else
                 f'{n} translator functions: a child translation is only interpolated, concatenated, joined, registered, '
                 'returned or tested for truth - never indexed, sliced, compared or passed to another function')
    res.add(po)
    for (name, formula, exp, note), code, err in zip(table, r['codes'], r['errors']):
        o = Ob(f'{prop}.{name}', 'KS', decisive=True, function='translators (real pipeline on a schema formula)')
        o.witness = {'kind': 'schema', 'formula': formula, 'expected': exp if isinstance(exp, str) else note,
                     'cells': cells or [], 'titles': list(titles)}
        if code is None:
            o.status = 'failed'
            o.detail = f'{formula}: no expression emitted ({err})'
            o.confirmed = True
        else:
            got = ast.parse(code, mode='eval').body
            if callable(exp):
                ok, why = exp(got)
            else:
                ok, why = match(got, expected_ast(exp))
            o.status = 'discharged' if ok else 'failed'
            o.detail = f'{formula} -> {code[:160]}' + ('' if ok else f' | {why}') + (f' | {note}' if note else '')
            if not ok:
                o.confirmed = True      # the emitted text itself is the failing observation on the real code
        res.add(o)
        obs.append(o)
    return obs


def replay(p):
    r = native.call('schema', 'emit_each', formulas=[p['formula']], cells=p.get('cells') or [], titles=p.get('titles') or ['S'])
    code = r['codes'][0]
    if code is None:
        return True, f'{p["formula"]}: no expression emitted ({r["errors"][0]})'
    exp = p.get('expected')
    if isinstance(exp, str):
        try:
            ok, why = match(ast.parse(code, mode='eval').body, expected_ast(exp))
            return (not ok), f'{p["formula"]} -> {code} ; prescribed: {exp} ; {why}'
        except SyntaxError:
            pass
    return False, f'{p["formula"]} -> {code} (prescribed shape: {exp})'
