"""Source acquisition (DESIGN 2.0): the verified text is the code that runs.

Every call re-reads the working tree of REPO; nothing is cached across runs.
"""
import ast
import hashlib
import os

from . import SRC, native

_cache = {}


from .source_derive import SourceError  # noqa: E402


def read(relpath):
    with open(os.path.join(SRC, relpath), encoding='utf-8') as f:
        return f.read()


def parse_file(relpath):
    key = ('file', relpath)
    if key not in _cache:
        text = read(relpath)
        _cache[key] = (ast.parse(text), text)
    return _cache[key]


def runtime():
    """(ast.Module, text, template_fields) of the emitted runtime (rendered by the real Context)."""
    if 'rt' not in _cache:
        r = native.call('basic', 'runtime_text')
        _cache['rt'] = (ast.parse(r['text']), r['text'], r['fields'])
    return _cache['rt']


def _find(body, parts):
    for node in body:
        if isinstance(node, (ast.FunctionDef, ast.ClassDef)) and node.name == parts[0]:
            if len(parts) == 1:
                return node
            return _find(node.body, parts[1:])
    return None


def get_def(target):
    """target: 'repo:<relpath>:<Qual.name>' | 'runtime:<Qual.name>' | 'abstract:<Qual.name>'
    returns (node, source_text_of_module)."""
    target, _, derived = target.partition('#')
    kind, _, rest = target.partition(':')
    if kind == 'repo':
        relpath, _, qual = rest.partition(':')
        tree, text = parse_file(relpath)
        node = _find(tree.body, qual.split('.'))
    elif kind == 'runtime':
        tree, text, _ = runtime()
        node = _find(tree.body, ['ExcelInPython'] + rest.split('.'))
    elif kind == 'abstract':
        tree, text = parse_file('utilities/abstract_excel_in_python_class.py')
        node = _find(tree.body, ['AbstractExcelInPython'] + rest.split('.'))
    elif kind == 'verif':
        # engine self-test functions kept under /verif (never a property's evidence)
        relpath, _, qual = rest.partition(':')
        import os
        text = open(os.path.join(os.path.dirname(os.path.dirname(os.path.abspath(__file__))), relpath), encoding='utf-8').read()
        tree = ast.parse(text)
        node = _find(tree.body, qual.split('.'))
    else:
        raise SourceError(f'bad target {target}')
    if node is None:
        raise SourceError(f'{target}: definition not found')
    if derived:
        node = derive(node, derived)
    return node, text


from .source_derive import derive  # noqa: E402


def segment(target):
    node, text = get_def(target.partition('#')[0])
    return ast.get_source_segment(text, node)


def src_hash(target):
    try:
        return hashlib.sha256(segment(target).encode()).hexdigest()[:16]
    except SourceError:
        return 'missing'


def strip_doc_and_annotations(node):
    """A copy of a def with docstrings, annotations and type comments removed (what extraction drops)."""
    node = ast.parse(ast.unparse(node)).body[0]

    class T(ast.NodeTransformer):
        def visit_FunctionDef(self, n):
            self.generic_visit(n)
            n.returns = None
            for a in n.args.posonlyargs + n.args.args + n.args.kwonlyargs:
                a.annotation = None
            if n.args.vararg:
                n.args.vararg.annotation = None
            if n.args.kwarg:
                n.args.kwarg.annotation = None
            if n.body and isinstance(n.body[0], ast.Expr) and isinstance(n.body[0].value, ast.Constant) \
                    and isinstance(n.body[0].value.value, str):
                n.body = n.body[1:] or [ast.Pass()]
            return n

        def visit_ClassDef(self, n):
            self.generic_visit(n)
            if n.body and isinstance(n.body[0], ast.Expr) and isinstance(n.body[0].value, ast.Constant) \
                    and isinstance(n.body[0].value.value, str):
                n.body = n.body[1:] or [ast.Pass()]
            return n

        def visit_AnnAssign(self, n):
            self.generic_visit(n)
            if n.value is None:
                return None
            return ast.copy_location(ast.Assign(targets=[n.target], value=n.value), n)

    node = T().visit(node)
    ast.fix_missing_locations(node)
    return node


def class_members(kind):
    """{name: node} for the methods and nested classes of the runtime class of `kind`."""
    if kind == 'runtime':
        tree, _, _ = runtime()
        cls = _find(tree.body, ['ExcelInPython'])
    else:
        tree, _ = parse_file('utilities/abstract_excel_in_python_class.py')
        cls = _find(tree.body, ['AbstractExcelInPython'])
    return {n.name: n for n in cls.body if isinstance(n, (ast.FunctionDef, ast.ClassDef))}


def module_imports(kind):
    """Top-level import bindings {local name: 'module.attr'} of the module holding the runtime class."""
    if kind == 'runtime':
        tree, _, _ = runtime()
    else:
        tree, _ = parse_file('utilities/abstract_excel_in_python_class.py')
    out = {}
    for n in tree.body:
        if isinstance(n, ast.Import):
            for a in n.names:
                out[a.asname or a.name.split('.')[0]] = a.name if a.asname else a.name.split('.')[0]
        elif isinstance(n, ast.ImportFrom):
            for a in n.names:
                out[a.asname or a.name] = f'{n.module}.{a.name}'
    return out
