"""pv - contract-based verification machinery for py-bc-excel2pycl (see /verif/DESIGN.md).

Orchestrator side runs under python3-vt (CPython 3.11 + z3-solver); the real code runs in
sub-processes of /venv/bin/python (CPython 3.12 + openpyxl + dateutil) through pv.native.
"""
import os

VERIF = os.path.dirname(os.path.dirname(os.path.abspath(__file__)))
# The tree under verification.  Registered commands always use /repo; the variable exists so
# that the selftest and seeded-change runs can aim the same machinery at a scratch copy.
REPO = os.environ.get('E2PYCL_REPO', '/repo')
SRC = os.path.join(REPO, 'excel2pycl', 'src')
NATIVE_PY = os.environ.get('E2PYCL_NATIVE_PY', '/venv/bin/python')
