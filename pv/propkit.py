"""Shared building blocks of the property modules (props/cNN.py)."""
import importlib
import os
import time

import z3

from . import k1, native, source
from .core import Ob, Bounded


def k1_block(res, ctx, modname, names, prefix, procs=None):
    """Run K1 contracts `names` of contract module `modname`; obligations are added to res (named prefix + vc name).
    Records trusted base / assumptions of the registry once."""
    from pv.contract import load_registry
    reg = load_registry(modname)
    missing = [n for n in names if n not in reg.contracts]
    if missing:
        raise RuntimeError(f'contracts {missing} are not defined by {modname}')
    results = k1.run_contracts(modname, names, ctx.tier, prefix, procs=procs)
    obs = k1.to_obs(results, res)
    for k in reg.k5:
        note = 'K5 assumed: ' + k
        if note not in res.trusted_base:
            res.trusted_base.append(note)
    used_specs = sorted(reg.specfns)
    tb = f'spec functions of {modname} (hand-written, z3 + native twin): ' + ', '.join(used_specs)
    if tb not in res.trusted_base:
        res.trusted_base.append(tb)
    for r in results:
        con = reg.contracts[r['contract']]
        for a in con.assumes:
            res.assumptions.append(f'{con.name}: {a}')
        for rq in con.requires:
            res.assumptions.append(f'precondition of {con.name}: {rq}')
    res.notes.append(f'K1 {modname}: ' + '; '.join(
        f"{r['contract']} {r['stats'].get('vcs', 0)} VCs/{r['stats'].get('paths', 0)} paths {r['stats'].get('total_s', 0)}s"
        for r in results))
    return obs


def canary_contract(res, modname, base_name, clause, broken_text, tier='quick'):
    """Vacuity / engine guard: the contract with one postcondition replaced by a deliberately false statement must
    come back failed (sat or undecided), never discharged."""
    from pv.contract import load_registry
    reg = load_registry(modname)
    con = reg.contracts[base_name]
    import copy
    c2 = copy.copy(con)
    c2.ensures = dict(con.ensures)
    c2.ensures = {clause: broken_text}
    c2.raises = {}
    c2.name = con.name
    r = k1.run_contract(reg, c2, tier, 'canary.', modname, timeout_ms=1500, retry=False)
    # caught unless the false clause was discharged (a function that left the subset forms no VC: nothing is proved)
    caught = not any(o['name'].endswith(f'.post.{clause}') and o['status'] == 'discharged' for o in r['obs'])
    res.canaries.append((f'{base_name}.{clause} := {broken_text}', bool(caught)))
    return caught


def _cvc5(solver, seconds=60):
    import subprocess
    import tempfile
    try:
        with tempfile.NamedTemporaryFile('w', suffix='.smt2', delete=False) as f:
            f.write('(set-logic ALL)\n' + solver.to_smt2())
            path = f.name
        try:
            p = subprocess.run(['/usr/bin/cvc5', '--strings-exp', f'--tlimit={seconds * 1000}', path], capture_output=True, text=True,
                               timeout=seconds + 10)
            out = (p.stdout.strip().splitlines() or ['error'])[0].strip()
            return out if out in ('sat', 'unsat', 'unknown') else 'not-run(' + (p.stderr.strip().splitlines() or [out])[0][:60] + ')'
        finally:
            os.unlink(path)
    except Exception as e:  # noqa
        return f'not-run({type(e).__name__})'


def lemma(res, name, build, detail='', timeout_ms=20000, decisive=False):
    """LEMMA obligation over spec-level terms only: build() -> (facts, goal) z3 formulas; discharged iff
    facts /\\ not goal is unsat."""
    o = Ob(name, 'LEMMA', decisive=decisive, detail=detail)
    t0 = time.time()
    try:
        facts, goal = build()
        s = z3.Solver()
        s.set('timeout', timeout_ms)
        s.add(*facts)
        s.add(z3.Not(goal))
        r = s.check()
        o.backend = 'z3-' + z3.get_version_string()
        if r == z3.unsat and os.environ.get('PV_CROSSCHECK', '') == '1':
            # second back end (thorough tier): the same query in SMT-LIB to cvc5; 'sat' there is a checker fault (the two
            # solvers disagree), 'unsat' is recorded, anything else (unknown, timeout, unsupported construct) is noted only
            x = _cvc5(s)
            o.backend += ' + cvc5:' + x
            if x == 'sat':
                o.status, o.detail = 'notformed', detail + ' | z3 says unsat, cvc5 says sat: solver disagreement'
                o.seconds = time.time() - t0
                res.conformance.setdefault('mismatches', []).append({'contract': name, 'what': 'z3 unsat / cvc5 sat', 'args': None})
                res.add(o)
                return o
        if r == z3.unsat:
            o.status = 'discharged'
        elif r == z3.sat:
            o.status, o.detail = 'failed', detail + ' | sat: ' + str(s.model())[:300]
        else:
            o.status, o.detail = 'unknown', detail + ' | ' + s.reason_unknown()
    except Exception as e:  # noqa
        o.status, o.detail = 'notformed', f'{detail} | {e!r}'
    o.seconds = time.time() - t0
    res.add(o)
    return o


def ord_lex(res, pid):
    """LEMMA ORD-LEX: the engine adds, for every pair of ordinals whose year / month / day it reads, the fact that the
    ordinals are ordered as their decompositions are (pv.sorts.ord_lex_instance); proved here from the closed form."""
    from . import sorts
    return lemma(res, f'{pid}.lemma.ORD-LEX', sorts.ord_lex_lemma,
                 'valid (y1,m1,d1) <lex valid (y2,m2,d2) implies ord(y1,m1,d1) < ord(y2,m2,d2) over the closed form of '
                 'date.toordinal (which c15k5 conformance-checks against CPython); instances of the contrapositive are what '
                 'the symbolic executor assumes', timeout_ms=60000)


def monitor(res, ctx, module, timeout=1500, drop=None):
    """Run the native bounded monitor pv/nat/<module>.py (function run(tier, seed)); each returned check becomes a
    Bounded (K4: never counted as proved)."""
    t0 = time.time()
    r = native.call(module, 'run', timeout=timeout, tier=ctx.tier, seed=ctx.seed)
    checks = r['checks'] if isinstance(r, dict) and 'checks' in r else [r]
    out = []
    for c in checks:
        if drop and c['name'] in drop:
            res.notes.append(f"bounded check {c['name']} is not part of this property's verdict: {drop[c['name']]}")
            continue
        if drop:
            # failure keys that are outside the statement (documented false alarms of the monitor, DESIGN 0.5)
            c['failures'] = [f for f in c.get('failures', []) if f.get('key') not in drop]
        b = Bounded(c['name'], bound=c['bound'], evaluations=int(c.get('evaluations', 0)),
                    distinct_nontrivial=int(c.get('distinct_nontrivial', 0)), rule=c.get('rule', ''),
                    failures=list(c.get('failures', [])), samples=list(c.get('samples', []))[:3],
                    seconds=float(c.get('seconds', 0.0)), exhaustive=bool(c.get('exhaustive', False)))
        for f in b.failures:
            rp = f.get('replay')
            if isinstance(rp, dict):
                rp.setdefault('monitor', module)
        res.add(b)
        out.append(b)
    res.notes.append(f'K4 {module}: {len(out)} bounded checks in {time.time() - t0:.1f}s')
    return out


def replay_monitor(p):
    r = native.call(p['monitor'], 'replay', timeout=300, payload=p)
    return bool(r['fails']), r['text']


def replay_any(p):
    """Common replay dispatcher: K1 models, monitor inputs."""
    if p.get('kind') == 'k1':
        r = native.call('k1replay', 'replay', timeout=120, payload=p)
        return bool(r['fails']), r['text']
    if 'monitor' in p:
        return replay_monitor(p)
    if p.get('kind') == 'schema':
        from . import schema
        return schema.replay(p)
    return False, 'nothing to replay'


def shape(res, name, target, predicate, detail, decisive=False):
    """K3 structural obligation on the AST of a real definition: predicate(node) -> (ok, text)."""
    o = Ob(name, 'K3', decisive=decisive, function=target)
    try:
        node, _ = source.get_def(target)
        ok, text = predicate(node)
        o.status = 'discharged' if ok else 'failed'
        o.detail = f'{detail}: {text}'
        res.functions_under_contract.setdefault(target, source.src_hash(target))
    except source.SourceError as e:
        o.status, o.detail = 'notformed', f'{detail}: {e}'
    res.add(o)
    return o


def monitor_if_present(res, ctx, module, timeout=1500, drop=None):
    import os
    from . import VERIF
    if not os.path.exists(os.path.join(VERIF, 'pv', 'nat', module + '.py')):
        res.notes.append(f'bounded monitor {module} is not present')
        return []
    return monitor(res, ctx, module, timeout, drop)


def engine_selftest(res):
    """Guard (DESIGN 4): the executor's rules for try / finally, tuple(), dict.pop, sorted(dict) and dictionary stores are run
    on small functions with exact contracts (selftest/engine_cases.py); each must be proved and a wrong variant must not be.
    A failure is a checker fault (exit 3), never a verdict."""
    import copy
    from . import k1
    from .contract import load_registry
    import contracts.engine_selftest as E
    reg = load_registry('contracts.engine_selftest:registry')
    n = 0
    for name, con in reg.contracts.items():
        r = k1.run_contract(reg, con, 'quick', '', 'contracts.engine_selftest')
        n += len(r['obs'])
        if not r['obs'] or any(o['status'] != 'discharged' for o in r['obs']):
            res.conformance.setdefault('mismatches', []).append(
                {'contract': 'engine_selftest:' + name, 'what': 'exact contract of a self-test function not proved', 'args': None})
        if name in E.CANARIES:
            clause, text = E.CANARIES[name]
            c2 = copy.copy(con)
            c2.ensures = dict(con.ensures)
            c2.ensures[clause] = text
            r2 = k1.run_contract(reg, c2, 'quick', '', 'contracts.engine_selftest', timeout_ms=3000, retry=False)
            st = [o['status'] for o in r2['obs'] if o['name'].endswith('post.' + clause)]
            if not st or st[0] == 'discharged':
                res.conformance.setdefault('mismatches', []).append(
                    {'contract': 'engine_selftest:' + name, 'what': 'a wrong contract of a self-test function was proved', 'args': text})
    res.conformance['engine_selftest'] = f'{len(reg.contracts)} functions, {n} obligations proved, {len(E.CANARIES)} wrong variants rejected'


def conformance(res, modname, cases):
    """Encoding conformance (engine vs CPython, DESIGN 4 item 3): cases = {contract name: [ {param: codec json}, ... ]}.
    A mismatch is a checker fault (exit 3), never a verdict."""
    from . import concrete
    from .contract import load_registry
    reg = load_registry(modname)
    tot = res.conformance.setdefault('checked', 0)
    for cname, argsets in cases.items():
        try:
            checked, mism, skipped = concrete.eval_concrete(reg, reg.contracts[cname], argsets)
        except Exception as e:  # noqa - the function left the shape the extraction knows (its K1 obligations are 'notformed' then)
            res.conformance['skipped'] = res.conformance.get('skipped', 0) + len(argsets)
            res.conformance.setdefault('not_evaluated', []).append({'contract': cname, 'why': repr(e)[-300:]})
            continue
        res.conformance['checked'] = res.conformance.get('checked', 0) + checked
        res.conformance['skipped'] = res.conformance.get('skipped', 0) + len(skipped)
        for m in mism:
            res.conformance.setdefault('mismatches', []).append({'contract': cname, **m})
    res.conformance['rule'] = ('the engine\'s symbolic semantics is run on concrete arguments; every path it keeps feasible must '
                               'end in the outcome CPython produces on the real function (validity query); undecided queries '
                               'are skipped and counted')
