"""K3 PARAM: translators only CONCATENATE the translations of their children; they never inspect them.

This is the side condition of lemma L-SUBST (DESIGN 2.3): a schema run with placeholder operands then holds for arbitrary
operands.  Checked on the AST of every function under translators/: a value that comes from a child translation
(`X.translate(...)`, `context.set_sub_cell / set_cell / get_cell(...)`, a name or comprehension fed by those, an f-string
or `+` or `join` containing those) may only be: interpolated into an f-string, concatenated with `+`, joined, returned,
assigned to a local, registered with the context, tested for truth / `is None` / `or`-defaulted.  Anything else (indexing,
slicing, str methods, comparisons, passing it to other functions) is reported."""
import ast
import os

from . import SRC

SOURCES = {'translate', 'set_sub_cell', 'set_cell', 'get_cell', 'translate_with_cells', '_get_range', '_get_matrix'}
SINK_CALLS = {'set_sub_cell', 'set_cell', 'join', 'str', 'format'}


TEXT_HELPERS = set()       # methods under translators/ that return text (annotation `-> str`, or none): filled by check()


def _is_source_call(n):
    return isinstance(n, ast.Call) and isinstance(n.func, ast.Attribute) and \
        (n.func.attr in SOURCES or n.func.attr in TEXT_HELPERS)


class _Fn:
    def __init__(self, fn, rel):
        self.fn, self.rel = fn, rel
        self.tainted = set()
        self.problems = []

    def expr_tainted(self, e):
        if e is None:
            return False
        if _is_source_call(e):
            return True
        if isinstance(e, ast.Name):
            return e.id in self.tainted
        if isinstance(e, ast.JoinedStr):
            return any(self.expr_tainted(v.value) for v in e.values if isinstance(v, ast.FormattedValue))
        if isinstance(e, ast.BinOp) and isinstance(e.op, ast.Add):
            return self.expr_tainted(e.left) or self.expr_tainted(e.right)
        if isinstance(e, ast.IfExp):
            return self.expr_tainted(e.body) or self.expr_tainted(e.orelse)
        if isinstance(e, ast.BoolOp):
            return any(self.expr_tainted(v) for v in e.values)
        if isinstance(e, (ast.ListComp, ast.GeneratorExp)):
            return self.expr_tainted(e.elt) or any(self.expr_tainted(g.iter) for g in e.generators)
        if isinstance(e, (ast.List, ast.Tuple)):
            return any(self.expr_tainted(x) for x in e.elts)
        if isinstance(e, ast.Call) and isinstance(e.func, ast.Attribute) and e.func.attr == 'join':
            return any(self.expr_tainted(a) for a in e.args)
        if isinstance(e, ast.Call) and isinstance(e.func, ast.Name) and e.func.id in ('str', 'list'):
            return any(self.expr_tainted(a) for a in e.args)
        return False

    # ---- structured forward data flow (flow-sensitive: the translators re-use names for tokens and for their text)
    def assign(self, targets, value, taint):
        pairs = []
        for t in targets:
            if isinstance(t, (ast.Tuple, ast.List)) and isinstance(value, (ast.Tuple, ast.List)) and len(t.elts) == len(value.elts):
                pairs += list(zip(t.elts, value.elts))
            else:
                pairs.append((t, value))
        self.tainted = taint            # expr_tainted reads self.tainted
        flags = [(t, self.expr_tainted(v)) for t, v in pairs]
        for t, is_t in flags:
            for x in ast.walk(t):
                if isinstance(x, ast.Name):
                    (taint.add if is_t else taint.discard)(x.id)

    def check_expr(self, e, taint, parents):
        self.tainted = taint
        for n in ast.walk(e):
            tainted_here = (isinstance(n, ast.Name) and isinstance(n.ctx, ast.Load) and n.id in taint) or _is_source_call(n)
            if tainted_here and not self.allowed(n, parents.get(n), parents):
                self.problems.append(f'{self.rel}:{n.lineno} {self.fn.name}: child translation `{ast.unparse(n)[:40]}` used in '
                                     f'`{ast.unparse(parents.get(n))[:70]}`')

    def block(self, stmts, taint, parents):
        """returns the taint set at fall-through, or None when the block always leaves (return / raise)"""
        for st in stmts:
            if isinstance(st, (ast.Return, ast.Raise)):
                if getattr(st, 'value', None) is not None:
                    self.check_expr(st.value, taint, parents)
                return None
            if isinstance(st, ast.Assign):
                self.check_expr(st.value, taint, parents)
                self.assign(st.targets, st.value, taint)
            elif isinstance(st, (ast.AugAssign, ast.AnnAssign)):
                if st.value is not None:
                    self.check_expr(st.value, taint, parents)
                    self.assign([st.target], st.value, taint) if isinstance(st, ast.AnnAssign) else \
                        (taint.add(st.target.id) if isinstance(st.target, ast.Name) and (self.expr_tainted(st.value)) else None)
            elif isinstance(st, ast.If):
                self.check_expr(st.test, taint, parents)
                a = self.block(st.body, set(taint), parents)
                b = self.block(st.orelse, set(taint), parents)
                if a is None and b is None:
                    return None
                taint = (a or set()) | (b or set())
            elif isinstance(st, (ast.For, ast.While)):
                it = st.iter if isinstance(st, ast.For) else st.test
                self.check_expr(it, taint, parents)
                if isinstance(st, ast.For):
                    self.tainted = taint
                    if self.expr_tainted(st.iter):
                        for x in ast.walk(st.target):
                            if isinstance(x, ast.Name):
                                taint.add(x.id)
                for _ in range(2):
                    r = self.block(st.body, set(taint), parents)
                    taint = taint | (r or set())
            elif isinstance(st, ast.Expr):
                self.check_expr(st.value, taint, parents)
            elif isinstance(st, (ast.Import, ast.ImportFrom, ast.Pass)):
                pass
            elif isinstance(st, ast.Try):
                r = self.block(st.body, set(taint), parents)
                taint = taint | (r or set())
                for h in st.handlers:
                    r = self.block(h.body, set(taint), parents)
                    taint = taint | (r or set())
            elif isinstance(st, ast.With):
                r = self.block(st.body, set(taint), parents)
                taint = r if r is not None else taint
            else:
                for n in ast.iter_child_nodes(st):
                    if isinstance(n, ast.expr):
                        self.check_expr(n, taint, parents)
        return taint

    def run(self):
        parents = {}
        for n in ast.walk(self.fn):
            for c in ast.iter_child_nodes(n):
                parents[c] = n
        self.block(self.fn.body, set(), parents)
        return sorted(set(self.problems))

    def allowed(self, n, p, parents):
        if p is None:
            return True
        if isinstance(p, ast.FormattedValue):
            return p.format_spec is None and p.conversion == -1
        if isinstance(p, ast.BinOp) and isinstance(p.op, ast.Add):
            return True
        if isinstance(p, (ast.Return, ast.Assign, ast.AugAssign, ast.AnnAssign, ast.Expr, ast.List, ast.Tuple, ast.Starred)):
            return True
        if isinstance(p, ast.IfExp):
            return True
        if isinstance(p, ast.BoolOp):
            return True
        if isinstance(p, (ast.If, ast.While)) and p.test is n:
            return True
        if isinstance(p, ast.UnaryOp) and isinstance(p.op, ast.Not):
            return True
        if isinstance(p, ast.Compare):
            return all(isinstance(o, (ast.Is, ast.IsNot)) for o in p.ops)
        if isinstance(p, (ast.ListComp, ast.GeneratorExp)):
            return True
        if isinstance(p, ast.comprehension):
            return p.iter is n or n in p.ifs
        if isinstance(p, ast.For):
            return p.iter is n
        if isinstance(p, ast.Call):
            f = p.func
            if f is n:
                return False
            name = f.attr if isinstance(f, ast.Attribute) else f.id if isinstance(f, ast.Name) else ''
            if name in SINK_CALLS or name in SOURCES:
                return True
            if name in ('len',):
                return False
            return False
        if isinstance(p, ast.keyword):
            return self.allowed(p, parents.get(p), parents)
        if isinstance(p, ast.Attribute):
            # method call on the value: only `.join` (separator) is harmless
            gp = parents.get(p)
            return isinstance(gp, ast.Call) and p.attr == 'join'
        if isinstance(p, ast.Subscript):
            return False
        return False


def check():
    """-> (number of functions scanned, list of problems)"""
    problems, n = [], 0
    root = os.path.join(SRC, 'translators')
    TEXT_HELPERS.clear()
    for dirpath, _, names in os.walk(root):
        for nm in sorted(names):
            if nm.endswith('.py'):
                for fn in ast.walk(ast.parse(open(os.path.join(dirpath, nm), encoding='utf-8').read())):
                    if isinstance(fn, ast.FunctionDef) and (fn.returns is None or ast.unparse(fn.returns) == 'str'):
                        TEXT_HELPERS.add(fn.name)
    for dirpath, _, names in os.walk(root):
        for nm in sorted(names):
            if not nm.endswith('.py'):
                continue
            rel = os.path.relpath(os.path.join(dirpath, nm), SRC)
            tree = ast.parse(open(os.path.join(dirpath, nm), encoding='utf-8').read())
            for fn in [x for x in ast.walk(tree) if isinstance(x, ast.FunctionDef)]:
                n += 1
                problems += _Fn(fn, rel).run()
    return n, problems
