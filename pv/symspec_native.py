"""Native (z3-free) evaluation of spec expressions: replay and run-time monitors."""
import ast
import copy


class _OldRewriter(ast.NodeTransformer):
    def visit_Call(self, n):
        if isinstance(n.func, ast.Name) and n.func.id in ('old', 'pre'):
            inner = copy.deepcopy(n.args[0])

            class R(ast.NodeTransformer):
                def visit_Name(self, m):
                    if isinstance(m.ctx, ast.Load):
                        return ast.copy_location(ast.Subscript(value=ast.Name(id='__old__', ctx=ast.Load()),
                                                               slice=ast.Constant(m.id), ctx=ast.Load()), m)
                    return m
            return R().visit(inner)
        self.generic_visit(n)
        return n


class _LazyRewriter(ast.NodeTransformer):
    """implies(a, b) and ite(c, a, b) do not evaluate the branch that is not taken (as in the z3 reading, where a term
    of the wrong sort under a false guard is harmless): implies(a, b) -> (b if a else True), ite(c, a, b) -> (a if c else b)"""
    def visit_Call(self, n):
        self.generic_visit(n)
        if isinstance(n.func, ast.Name) and n.func.id == 'implies' and len(n.args) == 2 and not n.keywords:
            return ast.copy_location(ast.IfExp(test=n.args[0], body=ast.Call(func=ast.Name(id='bool', ctx=ast.Load()),
                                                                            args=[n.args[1]], keywords=[]),
                                               orelse=ast.Constant(True)), n)
        if isinstance(n.func, ast.Name) and n.func.id == 'ite' and len(n.args) == 3 and not n.keywords:
            return ast.copy_location(ast.IfExp(test=n.args[0], body=n.args[1], orelse=n.args[2]), n)
        return n


def native_env(specfns, empty_cls=None):
    def is_empty(x):
        return type(x).__name__ in ('EmptyCell', 'EmptyStandIn')

    env = {
        'implies': lambda a, b: (not a) or bool(b), 'iff': lambda a, b: bool(a) == bool(b),
        'ite': lambda c, a, b: a if c else b,
        'I': lambda x: x, 'N': lambda x: 0 if is_empty(x) else int(x), 'R': lambda x: x, 'S': lambda x: x,
        'Bv': lambda x: x, 'Vv': lambda x: x, 'truthy': bool, 'slen': len,
        'is_int': lambda x: type(x) is int, 'is_str': lambda x: type(x) is str, 'is_bool': lambda x: type(x) is bool,
        'is_float': lambda x: type(x) is float, 'is_list': lambda x: type(x) is list,
        'is_tuple': lambda x: type(x) is tuple, 'is_none': lambda x: x is None, 'is_empty': is_empty,
        'is_dict': lambda x: type(x) is dict, 'is_num': lambda x: isinstance(x, (int, float)),
        'is_datetime': lambda x: type(x).__name__ == 'datetime', 'is_date': lambda x: type(x).__name__ == 'date',
        'is_obj': lambda x: hasattr(x, '__dict__'), 'is_fn': callable,
        'has': lambda d, k: k in d, 'get': lambda d, k: d[k],
        'allocated': lambda o: True, 'fresh_since': lambda o, m: True, 'unchanged': lambda f, m: True, 'unchanged_except': lambda f, m, *o: True,
        'EMPTY': empty_cls() if empty_cls else None,
    }
    for k, f in specfns.items():
        env[k] = f.pyfn
    return env


def native_eval(text, env, values, old_values=None):
    """Evaluate a spec expression natively. values: {name: python value}; old_values: pre-state copies."""
    tree = ast.parse(text.strip(), mode='eval')
    tree = ast.fix_missing_locations(_LazyRewriter().visit(_OldRewriter().visit(tree)))
    scope = dict(env)
    scope.update(values)
    scope['__old__'] = old_values if old_values is not None else values
    return eval(compile(tree, '<spec>', 'eval'), scope)
