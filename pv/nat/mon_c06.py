"""K4 bounded monitor for C06 (translation is total: a loadable Python class or a library exception).

Runs under /venv/bin/python on the real code.  Contract monitored (executable form of the property statement), observed on
`Parser.get_translation` / `Parser.write_translation` / `Executor`:

  for every readable workbook W, entry cell and safety setting
    * the request terminates within LIMIT seconds of wall clock,
    * it raises only exceptions of the library's hierarchy (E2PyclException), or returns text T such that
    * T compiles and executes, defines class ExcelInPython whose instance reports W's titles (title -> position) and W's
      sizes (last used row / column per sheet), defines every member once, refers to no undefined member,
    * has one member per translated cell (every cell of W; for an entry request the entry cell and the cells it reads);
      a constant's member evaluates to the constant, a well-typed formula's member evaluates without exception,
    * the file written by write_translation holds exactly T, and an Executor built from that file behaves like one built from
      the class object (titles, sizes, every cell, also after identical overrides, get_sheet),
    * the outcome of a request depends only on that request, not on earlier requests made on the same Parser.

The expected titles, sizes, cells and constants come from the workbook specification and from an independent openpyxl
read-back (full mode), never from the library."""
import ast
import datetime
import itertools
import json
import multiprocessing
import os
import random
import re
import signal
import time
import zipfile

from pv import codec
from pv.nat import lib

if os.path.isdir('/dev/shm') and os.access('/dev/shm', os.W_OK):
    import tempfile
    tempfile.tempdir = '/dev/shm'      # lib.scratch() and openpyxl's temporary files: memory-backed, much faster than /tmp here

LIMIT = 20.0            # bound of one translation request (DESIGN C06: wall < 20 s), measured as CPU seconds, see _catch
EVAL_LIMIT = 10.0       # bound for evaluating one member (a timeout there is not counted: no clause)
MEMBER = re.compile(r'^_(\d+)_(\d+)_(\d+)$')
MEMBERISH = re.compile(r'^_\d+_\d+_(\d+|any)(_\d+)?$')
CHECKS = ['outcome', 'loadable', 'members', 'file_vs_object', 'entry_point', 'parser_reuse', 'nesting']
STRUCTURAL = ('NameError', 'UnboundLocalError', 'AttributeError', 'RecursionError', 'SyntaxError')


# ---------------------------------------------------------------------------------------------- bounded calls
class _Timeout(BaseException):
    pass


def _alarm(sig, frm):
    raise _Timeout()


def _catch(f, *a, limit=LIMIT):
    """-> ('ok', value, secs) | ('raised', codec.Raised(+ .lib), secs) | ('timeout', None, secs)
    The limit is CPU time of this process (ITIMER_PROF), which equals wall clock on an idle machine and does not depend on what
    else runs on the host; a wall-clock alarm of 30 x limit backs it up (blocking calls)."""
    old = signal.signal(signal.SIGPROF, _alarm)
    old2 = signal.signal(signal.SIGALRM, _alarm)
    t0 = time.process_time()

    def off():
        signal.setitimer(signal.ITIMER_PROF, 0)
        signal.setitimer(signal.ITIMER_REAL, 0)
    signal.setitimer(signal.ITIMER_PROF, limit)
    signal.setitimer(signal.ITIMER_REAL, 30 * limit)
    try:
        try:
            v = f(*a)
            off()
            return 'ok', v, time.process_time() - t0
        except _Timeout:
            off()
            return 'timeout', None, time.process_time() - t0
        except BaseException as e:  # noqa
            off()
            from excel2pycl.src.exceptions import E2PyclException
            r = codec.Raised(type(e).__name__, ('recursion' if isinstance(e, RecursionError) else str(e))[:200],
                             [c.__name__ for c in type(e).__mro__])
            r.lib = isinstance(e, E2PyclException)
            return 'raised', r, time.process_time() - t0
    except _Timeout:          # the alarm fired inside a handler above
        return 'timeout', None, time.process_time() - t0
    finally:
        off()
        signal.signal(signal.SIGPROF, old)
        signal.signal(signal.SIGALRM, old2)


# ---------------------------------------------------------------------------------------------- result accumulator
class Res:
    def __init__(self):
        self.counts = {c: 0 for c in CHECKS}
        self.nontrivial = {c: 0 for c in CHECKS}
        self.fails = []
        self.samples = {c: [] for c in CHECKS}
        self.outcomes = {}

    def count(self, check, nontrivial=True):
        self.counts[check] += 1
        if nontrivial:
            self.nontrivial[check] += 1

    def fail(self, check, key, what, replay):
        focus = (replay.get('spec') or {}).get('focus') if isinstance(replay, dict) else None
        self.fails.append({'check': check, 'key': key, 'what': what[:400], 'replay': replay,
                           'size': len(focus) if focus else len(json.dumps(replay, default=str))})

    def sample(self, check, s):
        if len(self.samples[check]) < 2:
            self.samples[check].append(s)

    def dump(self):
        return {'counts': self.counts, 'nontrivial': self.nontrivial, 'fails': self.fails, 'samples': self.samples,
                'outcomes': self.outcomes}


def _fam(spec):
    """family of the workbook, refined by the outermost function of the formula under test (formula shape)"""
    fam = spec.get('family', 'wb')
    f = spec.get('focus')
    if f and fam != 'soup':
        m = re.search(r'([A-Za-z]{2,})\(', f)
        fam += '.' + (m.group(1).upper() if m else 'expression')
    return fam


def _slug(msg, words=7):
    """exception message without echoes of the input: the stable part of a root-cause key"""
    msg = re.sub(r"'[A-Z0-9]*'|\"[^\"]*\"|<[^>]*>|\d+", ' ', msg)
    ws = re.findall(r'[A-Za-z_]+', msg)
    return '_'.join(ws[:words]) or 'no_message'


def _abbr(f):
    f = str(f)
    return f if len(f) <= 90 else f'{f[:45]}...({len(f)} characters)...{f[-20:]}'


def _short(spec):
    """one-line description of a specification"""
    fs = [_abbr(v) for sh in spec['sheets'] for _, _, v in sh['cells'] if isinstance(v, str) and v.startswith('=')]
    if spec.get('focus'):
        fs = [_abbr(spec['focus'])]
    t = [sh['title'] for sh in spec['sheets']]
    s = f"titles={t[:3]!r} formulas={fs[:3]!r}"
    if spec.get('entry') is not None:
        s += f" entry={spec['entry']!r}"
    return s[:330]


# ---------------------------------------------------------------------------------------------- workbooks
def _is_blank(v):
    return v is None or v == ''


def _write(spec, path):
    """spec['sheets'] = [{'title', 'cells': [[col 1-based, row 1-based, encoded value]]}]; besides codec values:
    {'$array': [ref, text]} array formula, {'$datatable': {...}} data-table formula, {'$rawnum': text} number written verbatim."""
    from openpyxl import Workbook
    from openpyxl.worksheet.formula import ArrayFormula, DataTableFormula
    wb = Workbook()
    raw = {}
    for si, sh in enumerate(spec['sheets']):
        ws = wb.active if si == 0 else wb.create_sheet()
        ws.title = sh['title']
        for col, row, val in sh.get('cells', []):
            if isinstance(val, dict) and '$array' in val:
                v = ArrayFormula(val['$array'][0], val['$array'][1])
            elif isinstance(val, dict) and '$datatable' in val:
                v = DataTableFormula(**val['$datatable'])
            elif isinstance(val, dict) and '$rawnum' in val:
                v = 7700000.5 + len(raw)
                raw.setdefault(si, []).append((repr(v), val['$rawnum']))
            else:
                v = codec.dec(val)
            ws.cell(row=row, column=col, value=v)
    wb.save(path)
    wb.close()
    if raw:
        tmp = path + '.tmp'
        with zipfile.ZipFile(path) as zin, zipfile.ZipFile(tmp, 'w', zipfile.ZIP_DEFLATED) as zout:
            for it in zin.infolist():
                data = zin.read(it.filename)
                m = re.match(r'xl/worksheets/sheet(\d+)\.xml$', it.filename)
                if m and int(m.group(1)) - 1 in raw:
                    s = data.decode('utf-8')
                    for a, b in raw[int(m.group(1)) - 1]:
                        s = s.replace(f'<v>{a}</v>', f'<v>{b}</v>')
                    data = s.encode('utf-8')
                zout.writestr(it, data)
        os.replace(tmp, path)


def _readback(path):
    """independent read of the workbook (openpyxl full mode): [{(col, row): value}] per sheet, blanks left out"""
    from openpyxl import load_workbook
    wb = load_workbook(path)
    out = []
    for ws in wb.worksheets:
        d = {}
        for (r, c), cell in ws._cells.items():
            if not _is_blank(cell.value):
                d[(c, r)] = cell.value
        out.append(d)
    return [ws.title for ws in wb.worksheets], out


def _expected_shape(cells):
    """titles / sizes the statement speaks about: title -> position; last used row and column of every sheet"""
    sizes = []
    for d in cells:
        sizes.append({'last_column': max((c for c, _ in d), default=0), 'last_row': max((r for _, r in d), default=0)})
    return sizes


def _is_formula(v):
    if type(v).__name__ == 'ArrayFormula':
        return True
    return isinstance(v, str) and v.startswith('=')


def _enc_value(v):
    return codec.enc(v, is_empty=lambda x: type(x).__name__ == 'EmptyCell')


def _same_const(got, exp):
    if type(got) is not type(exp):
        return False
    if isinstance(exp, float) and exp != exp:
        return got != got
    return got == exp


# ---------------------------------------------------------------------------------------------- one request
def _new_parser(path, entry, safety, parser=None):
    from excel2pycl import Parser, Cell
    p = parser if parser is not None else Parser()
    if safety:
        p.enable_safety_check()
    else:
        p.disable_safety_check()
    p.set_excel_file_path(path)
    if entry is not None:
        p.set_entrypoint_cell(Cell(*entry))
    return p


def _outcome(R, check, spec, st, replay, secs_note=''):
    """the clause 'terminates, and raises only library exceptions or returns text'; True if text was returned"""
    fam = _fam(spec)
    kind, val, secs = st
    R.count(check, nontrivial=(kind == 'ok'))
    R.outcomes[kind if kind != 'raised' else ('lib' if val.lib else 'foreign')] = \
        R.outcomes.get(kind if kind != 'raised' else ('lib' if val.lib else 'foreign'), 0) + 1
    if kind == 'timeout':
        R.fail(check, f'C06.hang.{fam}', f'{_short(spec)} -> no result after {LIMIT:.0f} s of CPU time; expected termination', replay)
        return False
    if kind == 'raised':
        if not val.lib:
            cause = 'nest.' + fam.split('.')[1] if fam.startswith('nest.') else _slug(val.msg)
            R.fail(check, f'C06.foreign.{val.cls}.{cause}', f'{_short(spec)} -> {val.cls}: {val.msg[:120]}; expected text or an '
                   'E2PyclException', replay)
        return False
    if not isinstance(val, str):
        R.fail(check, f'C06.result.not_text.{fam}', f'{_short(spec)} -> {type(val).__name__}; expected source text', replay)
        return False
    R.sample(check, {'workbook': _short(spec), 'result': f'text of {len(val)} characters', 'seconds': round(secs, 3)})
    return True


def _member_cells(spec, cells):
    """translated cells that must have a member: (sheet, col0, row0, expected value or None for unknown)"""
    if spec.get('entry') is None:       # formulas first (the number of evaluated members is capped), then row by row
        return [(s, c - 1, r - 1, v) for s, d in enumerate(cells)
                for (c, r), v in sorted(d.items(), key=lambda x: (not _is_formula(x[1]), x[0][1], x[0][0]))]
    out = []
    for n, (s, c0, r0) in enumerate([tuple(spec['entry_resolved'])] + [tuple(x) for x in spec.get('deps', [])]):
        v = cells[s].get((c0 + 1, r0 + 1)) if 0 <= s < len(cells) else None
        if n == 0 or v is not None:         # a blank cell that is read needs no member of its own
            out.append((s, c0, r0, v))
    return out


def _load(R, spec, text, titles, cells, replay):
    """clause 'compiles, defines the class with the workbook's titles and sizes'; -> (cls, tree members) or None"""
    fam = _fam(spec)
    R.count('loadable')
    try:
        tree = ast.parse(text)
        code = compile(text, '<translation>', 'exec')
    except (SyntaxError, ValueError, RecursionError, MemoryError) as e:
        R.fail('loadable', f'C06.load.{type(e).__name__}.{fam}', f'{_short(spec)} -> returned text does not compile: '
               f'{type(e).__name__}: {str(e)[:100]}', replay)
        return None
    ns = {}
    st = _catch(exec, code, ns)
    if st[0] != 'ok' or not isinstance(ns.get('ExcelInPython'), type):
        R.fail('loadable', f'C06.load.exec.{fam}', f'{_short(spec)} -> executing the text: {st[1]!r}, class present: '
               f'{"ExcelInPython" in ns}', replay)
        return None
    cls = ns['ExcelInPython']
    st = _catch(cls)
    if st[0] != 'ok':
        R.fail('loadable', f'C06.load.instantiate.{fam}', f'{_short(spec)} -> ExcelInPython() -> {st[1]!r}', replay)
        return None
    inst = st[1]
    exp_titles = {t: i for i, t in enumerate(titles)}
    got = _catch(inst.get_titles)[1]
    if not (isinstance(got, dict) and got == exp_titles and list(got) == list(exp_titles)
            and all(type(v) is int for v in got.values())):
        R.fail('loadable', f'C06.shape.titles.{fam}', f'{_short(spec)} -> get_titles() = {got!r}; expected {exp_titles!r}', replay)
    exp_sizes = _expected_shape(cells)
    got = _catch(inst.get_sheets_size)[1]
    if got != exp_sizes:
        R.fail('loadable', f'C06.shape.sizes.{fam}', f'{_short(spec)} -> get_sheets_size() = {got!r}; expected {exp_sizes!r}', replay)
    cdefs = [n for n in tree.body if isinstance(n, ast.ClassDef) and n.name == 'ExcelInPython']
    if len(cdefs) != 1:
        R.fail('loadable', f'C06.load.class_count.{fam}', f'{_short(spec)} -> {len(cdefs)} definitions of ExcelInPython', replay)
        return None
    fdefs = [n for n in cdefs[0].body if isinstance(n, (ast.FunctionDef, ast.AsyncFunctionDef))]
    names = [n.name for n in fdefs]
    dup = sorted({n for n in names if names.count(n) > 1})
    if dup:
        R.fail('loadable', f'C06.load.duplicate_member.{fam}', f'{_short(spec)} -> defined more than once: {dup[:5]}', replay)
    members = {n for n in names if MEMBERISH.match(n)}
    bad_names = sorted(n for n in members if not n.isidentifier())
    # no member refers to something that is not defined
    dangling = set()
    for f in fdefs:
        if f.name not in members:
            continue
        for node in ast.walk(f):
            if isinstance(node, ast.Attribute) and isinstance(node.value, ast.Name) and node.value.id == 'self' \
                    and not hasattr(inst, node.attr):
                dangling.add('self.' + node.attr)
            if isinstance(node, ast.Constant) and isinstance(node.value, str) and MEMBERISH.match(node.value) \
                    and node.value not in members:
                dangling.add(node.value)
    if dangling or bad_names:
        R.fail('loadable', f'C06.load.dangling_reference.{fam}', f'{_short(spec)} -> members refer to undefined names '
               f'{sorted(dangling)[:5]} {bad_names[:3]}', replay)
    bad_sheet = sorted(n for n in members if MEMBER.match(n) and int(MEMBER.match(n).group(1)) >= len(titles))
    if bad_sheet:
        R.fail('loadable', f'C06.load.member_of_unknown_sheet.{fam}', f'{_short(spec)} -> members {bad_sheet[:3]} for a workbook of '
               f'{len(titles)} sheets', replay)
    return cls, members


def _evaluate(ex, s, c0, r0):
    from excel2pycl import Cell
    return _catch(lambda: ex.get_cell(Cell(s, c0, r0)).value, limit=EVAL_LIMIT)


def _members(R, spec, cls, members, cells, replay, cap=400):
    """clause 'one evaluable member per translated cell'; -> {(s, c0, r0): encoded value or exception} (object route)"""
    from excel2pycl import Executor
    fam = _fam(spec)
    values = {}
    st = _catch(lambda: Executor().set_executed_class(class_object=cls))
    if st[0] != 'ok':
        R.count('members')
        R.fail('members', f'C06.member.executor.{fam}', f'{_short(spec)} -> Executor.set_executed_class(class_object) -> {st[1]!r}', replay)
        return None, values
    ex = st[1]
    expect = {(s, c0, r0): v for s, c0, r0, v in (tuple(x) for x in spec.get('expect', []))}
    todo = _member_cells(spec, cells)
    missing = [f'_{s}_{c0}_{r0}' for s, c0, r0, _ in todo if f'_{s}_{c0}_{r0}' not in members
               or not callable(cls.__dict__.get(f'_{s}_{c0}_{r0}'))]
    R.count('members')
    if missing:
        R.fail('members', f'C06.member.missing.{fam}', f'{_short(spec)} -> no member for translated cells {missing[:4]} '
               f'({len(missing)} of {len(todo)})', replay)
    for s, c0, r0, v in todo[:cap]:
        kind, got, _ = _evaluate(ex, s, c0, r0)
        if kind == 'timeout':
            continue
        R.count('members')
        values[(s, c0, r0)] = _enc_value(got)
        name = f'_{s}_{c0}_{r0}'
        if v is not None and not _is_formula(v) and type(v).__name__ != 'DataTableFormula':
            if kind != 'ok' or not _same_const(got, v):
                R.fail('members', f'C06.member.constant.{type(v).__name__}.{fam}', f'{_short(spec)} -> member {name} of constant '
                       f'{v!r} evaluates to {got!r}; expected the constant', replay)
        elif kind == 'raised':
            if spec.get('strict') or (got.cls in STRUCTURAL and (got.cls != 'AttributeError' or "'ExcelInPython' object" in got.msg)):
                m = re.match(r'^=\W*([A-Z]+)\(', str(v))
                R.fail('members', f'C06.member.raises.{got.cls}.{m.group(1) if m else "expression"}.{fam}', f'{_short(spec)} -> member {name} ({str(v)[:80]!r}) raises '
                       f'{got.cls}: {got.msg[:100]}; expected an evaluable member', replay)
        if kind == 'ok' and (s, c0, r0) in expect:
            e = codec.dec(expect[(s, c0, r0)])
            if not (got == e and isinstance(got, (int, float, str, bool)) and isinstance(got, bool) == isinstance(e, bool)):
                R.fail('members', f'C06.member.value.{fam}', f'{_short(spec)} -> member {name} ({str(v)[:80]!r}) = {got!r}; '
                       f'expected {e!r}', replay)
    R.sample('members', {'workbook': _short(spec), 'members_checked': len(todo[:cap]),
                         'first': [[list(k), v] for k, v in list(values.items())[:3]]})
    return ex, values


def _file_vs_object(R, spec, text, parser, cls, ex_obj, obj_values, cells, d, replay):
    """clause 'behaves the same whether loaded from the written file or used as a class object'"""
    from excel2pycl import Executor, Cell
    fam = _fam(spec)
    pyfile = os.path.join(d, spec.get('pyname', 'translated_class.py'))
    R.count('file_vs_object')
    st = _catch(parser.write_translation, pyfile)
    if st[0] != 'ok':
        R.fail('file_vs_object', f'C06.file.write.{fam}', f'{_short(spec)} -> write_translation after a successful '
               f'get_translation -> {st[0]} {st[1]!r}', replay)
        return
    with open(pyfile, encoding='utf-8', newline='') as f:
        content = f.read()
    if content != text:
        R.fail('file_vs_object', f'C06.file.content.{fam}', f'{_short(spec)} -> written file ({len(content)} chars) differs from '
               f'get_translation() ({len(text)} chars)', replay)
    st = _catch(lambda: Executor().set_executed_class(class_file=pyfile))
    if st[0] != 'ok':
        R.fail('file_vs_object', f'C06.file.load.{st[1].cls if st[1] else "timeout"}.{fam}', f'{_short(spec)} -> '
               f'Executor.set_executed_class(class_file) -> {st[1]!r}; the class object loads', replay)
        return
    ex_file = st[1]
    a, b = ex_obj.get_executed_class(), ex_file.get_executed_class()
    if a.get_titles() != b.get_titles() or a.get_sheets_size() != b.get_sheets_size():
        R.fail('file_vs_object', f'C06.file.shape.{fam}', f'{_short(spec)} -> file: {b.get_titles()!r} {b.get_sheets_size()!r}; '
               f'object: {a.get_titles()!r} {a.get_sheets_size()!r}', replay)
    keys = list(obj_values)[:150]

    def compare(stage):
        for (s, c0, r0) in keys:
            va = _evaluate(ex_obj, s, c0, r0)
            vb = _evaluate(ex_file, s, c0, r0)
            if 'timeout' in (va[0], vb[0]):
                continue
            R.count('file_vs_object')
            if _enc_value(va[1]) != _enc_value(vb[1]):
                R.fail('file_vs_object', f'C06.file.value.{fam}', f'{_short(spec)} -> {stage}: cell ({s},{c0},{r0}) object route '
                       f'{va[1]!r}, file route {vb[1]!r}', replay)
                return False
        return True
    if not compare('fresh'):
        return
    overrides = spec.get('overrides') or []
    if overrides:
        for ex in (ex_obj, ex_file):
            st = _catch(lambda: ex.set_cells([Cell(s, c0, r0, codec.dec(v)) for s, c0, r0, v in overrides]))
            if st[0] != 'ok':
                R.fail('file_vs_object', f'C06.file.set_cells.{fam}', f'{_short(spec)} -> set_cells({overrides!r}) -> {st[1]!r}', replay)
                return
        if not compare(f'after overrides {overrides!r}'):
            return
    # whole sheets (small ones)
    for s, dct in enumerate(cells):
        size = _expected_shape([dct])[0]
        if size['last_row'] * size['last_column'] > 400 or overrides and any(o[1] > 60 or o[2] > 60 for o in overrides):
            continue
        sa, sb = _catch(ex_obj.get_sheet, s, limit=EVAL_LIMIT), _catch(ex_file.get_sheet, s, limit=EVAL_LIMIT)
        if 'timeout' in (sa[0], sb[0]):
            continue
        R.count('file_vs_object')

        def norm(x):
            if x[0] != 'ok':
                return _enc_value(x[1])
            return [[_enc_value(c.value) for c in row] for row in x[1]]
        if norm(sa) != norm(sb):
            R.fail('file_vs_object', f'C06.file.get_sheet.{fam}', f'{_short(spec)} -> get_sheet({s}) differs between the routes', replay)
            return
    R.sample('file_vs_object', {'workbook': _short(spec), 'cells_compared': len(keys), 'overrides': overrides})


def _resolve_entry(entry, titles):
    """0-based (sheet, column, row) of an entry given as Cell arguments (oracle side: A=0, '3' -> row 2)"""
    from openpyxl.utils import column_index_from_string
    t, c, r = entry
    s = titles.index(t) if isinstance(t, str) else t
    c0 = column_index_from_string(c) - 1 if isinstance(c, str) else c
    r0 = int(r) - 1 if isinstance(r, str) else r
    return s, c0, r0


_READBACK = {}


def _examine_in(R, spec, d, replay=None, light=False):
    """all clauses on one request; returns (text or None, object-route values)"""
    replay = replay or {'kind': 'spec', 'spec': spec}
    path = os.path.join(d, spec.get('xlsx', 'wb.xlsx'))
    if not os.path.exists(path):
        _write(spec, path)
        _READBACK.pop(path, None)
    if path not in _READBACK:
        _READBACK.clear()
        _READBACK[path] = _readback(path)
    titles, cells = _READBACK[path]
    spec = dict(spec)
    if spec.get('entry') is not None:
        spec['entry_resolved'] = _resolve_entry(spec['entry'], titles)
    parser = _new_parser(path, spec.get('entry'), spec.get('safety', False))
    st = _catch(parser.get_translation)
    if not _outcome(R, spec.get('check', 'outcome'), spec, st, replay):
        return None, {}
    text = st[1]
    got = _load(R, spec, text, titles, cells, replay)
    if got is None:
        return text, {}
    cls, members = got
    ex_obj, values = _members(R, spec, cls, members, cells, replay)
    if ex_obj is not None and not light:
        _file_vs_object(R, spec, text, parser, cls, ex_obj, values, cells, d, replay)
    return text, values


_SHRUNK = set()


def _shrink(spec, fails):
    """minimal witness for a failure on a generator workbook: the constants plus ONE formula cell that still shows the key"""
    formulas = [(si, c) for si, sh in enumerate(spec['sheets']) for c in sh['cells'] if isinstance(c[2], str) and c[2].startswith('=')]
    out = []
    for f in fails:
        if f['key'] in _SHRUNK or len(formulas) < 2:
            out.append(f)
            continue
        _SHRUNK.add(f['key'])
        for si, cell in formulas:
            pos = [si, cell[0] - 1, cell[1] - 1]
            sub = dict(spec, shrunk=True, overrides=[], focus=cell[2],
                       expect=[e for e in spec.get('expect', []) if e[:3] == pos],
                       entries=[e for e in spec.get('entries') or [] if e['cell'] == pos],
                       sheets=[{'title': sh['title'], 'cells': [c for c in sh['cells'] if c is cell or not (isinstance(c[2], str)
                                                                                                             and c[2].startswith('='))]}
                               for sh in spec['sheets']])
            hit = [g for g in _examine(sub)['fails'] if g['key'].split('.')[:4] == f['key'].split('.')[:4]]
            if hit:
                f = dict(hit[0], key=f['key'])
                break
        out.append(f)
    return out


def _examine(spec):
    """worker: one workbook, whole-file or entry request as the specification says, plus per-formula entry requests"""
    R = Res()
    with lib.scratch() as d:
        text, values = _examine_in(R, spec, d)
        if text is not None and spec.get('entries'):
            # every listed cell again as an entry point on a fresh Parser: same value as in the whole-file translation
            for ent in spec['entries']:
                sub = dict(spec, entry=ent['cell'], deps=ent.get('deps', []), check='entry_point', entries=None)
                R2 = Res()
                t2, v2 = _examine_in(R2, sub, d, replay={'kind': 'spec', 'spec': sub}, light=True)
                for c in CHECKS:
                    R.counts[c] += R2.counts[c]
                    R.nontrivial[c] += R2.nontrivial[c]
                R.fails += R2.fails
                key = tuple(ent['cell'])
                if t2 is not None and key in v2 and key in values:
                    R.count('entry_point')
                    if v2[key] != values[key] and not (isinstance(values[key], dict) and '$exc' in values[key]):
                        R.fail('entry_point', f'C06.entry.value.{_fam(spec)}', f'{_short(sub)} -> entry member evaluates to '
                               f'{v2[key]!r}, the whole-file translation to {values[key]!r}', {'kind': 'spec', 'spec': spec})
                    R.sample('entry_point', {'workbook': _short(sub), 'value': v2[key]})
    if R.fails and spec.get('family') == 'generator' and not spec.get('shrunk'):
        R.fails = _shrink(spec, R.fails)
    return R.dump()


# ---------------------------------------------------------------------------------------------- many formulas, one workbook
BASE_CELLS = [[1, 1, 1], [2, 1, 2], [3, 1, 3], [1, 2, 4], [2, 2, {'$f': '5.5'}], [3, 2, 6], [1, 3, 7], [2, 3, 8], [3, 3, 9],
              [4, 1, 'apple'], [4, 2, 'pear'], [4, 3, 'fig'], [5, 1, {'$dt': [2020, 1, 31, 0, 0, 0, 0]}],
              [5, 2, {'$dt': [2021, 3, 1, 0, 0, 0, 0]}], [5, 3, {'$dt': [2024, 2, 29, 12, 30, 0, 0]}], [8, 1, '=A1+1'], [8, 2, '=H1*2']] + \
    [[c, r, f'r{r}c{c}'] for r in (11, 12, 13) for c in range(1, 10)]      # constants in the rows of the whole-file formulas
FCOL, FROW = 11, 11      # formulas under test live in K11, K12, ...: no reference of the corpus / soups reaches them
BULK_TITLES = ['S', 'Other sheet']


def _bulk_spec(formula, row, family, safety=False, entry=True):
    sp = {'sheets': [{'title': BULK_TITLES[0], 'cells': BASE_CELLS + [[FCOL, FROW + row - 1, formula]]},
                     {'title': BULK_TITLES[1], 'cells': [[1, 1, 10], [2, 2, 'x']]}],
          'safety': safety, 'family': family, 'focus': formula}
    if entry:
        sp['entry'] = [0, FCOL - 1, FROW + row - 2]
    return sp


def _examine_bulk(job):
    """worker: formulas of one family in column K of one workbook, each requested as an entry point on a fresh Parser"""
    R = Res()
    formulas, family = job['formulas'], job['family']
    with lib.scratch() as d:
        spec = {'sheets': [{'title': BULK_TITLES[0], 'cells': BASE_CELLS + [[FCOL, FROW + i, f] for i, f in enumerate(formulas)]},
                           {'title': BULK_TITLES[1], 'cells': [[1, 1, 10], [2, 2, 'x']]}], 'safety': False, 'family': family}
        try:
            _write(spec, os.path.join(d, 'wb.xlsx'))
        except Exception as e:  # a formula openpyxl cannot store is not a readable workbook: no clause
            return R.dump()
        for i, f in enumerate(formulas):
            sub = dict(spec, entry=[0, FCOL - 1, FROW + i - 1], deps=[], focus=f)
            _examine_in(R, sub, d, replay={'kind': 'spec', 'spec': sub}, light=True)
    return R.dump()


# ---------------------------------------------------------------------------------------------- deep nesting / long formulas
def _ladder_formula(family, n):
    if family == 'paren':
        return '=' + '(' * n + '1' + ')' * n
    if family == 'if_then':
        return '=' + 'IF(1=1,' * n + '1' + ',2)' * n
    if family == 'if_else':
        return '=' + 'IF(1=2,1,' * n + '2' + ')' * n
    if family == 'sum_call':
        return '=' + 'SUM(' * n + '1' + ')' * n
    if family == 'round_call':
        return '=' + 'ROUND(' * n + '1.5' + ',0)' * n
    if family == 'right_nested':
        return '=' + '1+(' * n + '1' + ')' * n
    if family == 'left_nested':
        return '=' + '(' * n + '1' + '+1)' * n
    if family == 'unary_minus':
        return '=' + '-' * n + '1'
    if family == 'percent':
        return '=1' + '%' * n
    if family == 'plus_chain':
        return '=' + '+'.join(['1'] * n)
    if family == 'concat_chain':
        return '=' + '&'.join(['A1'] * n)
    if family == 'compare_chain':
        return '=' + '='.join(['1'] * n)
    if family == 'sum_args':
        return '=SUM(' + ','.join(['1'] * n) + ')'
    if family == 'concatenate_args':
        return '=CONCATENATE(' + ','.join(['"a"'] * n) + ')'
    if family == 'ifs_pairs':
        return '=IFS(' + ','.join(['1=2,"n"'] * (n - 1) + ['1=1,"y"']) + ')'
    if family == 'long_text':
        return '="' + 'a' * n + '"'
    if family == 'reference_chain':
        return None
    raise ValueError(family)


# family -> sizes inside the limits of Excel itself (64 nesting levels, 255 arguments, 8192 characters per formula)
LADDERS = {
    'paren': [1, 2, 3, 5, 8, 11, 16, 32, 64], 'if_then': [1, 2, 3, 4, 5, 7, 16, 64], 'if_else': [1, 2, 3, 4, 5, 7, 16, 64],
    'sum_call': [1, 2, 3, 4, 6, 16, 64], 'round_call': [1, 2, 3, 4, 5, 8, 16, 64], 'right_nested': [1, 2, 4, 8, 16, 32, 64],
    'left_nested': [1, 2, 4, 8, 16, 32, 64], 'unary_minus': [1, 2, 8, 32, 64, 128, 255], 'percent': [1, 2, 8, 32, 64, 255],
    'plus_chain': [2, 10, 100, 255, 500, 1000, 2000, 4000], 'concat_chain': [2, 10, 100, 255, 1000, 2700],
    'compare_chain': [2, 3, 10, 100, 1000], 'sum_args': [1, 30, 100, 255], 'concatenate_args': [1, 30, 100, 255],
    'ifs_pairs': [1, 2, 10, 60, 127], 'long_text': [1, 255, 1000, 8000], 'reference_chain': [2, 11, 100, 151, 301, 1000, 3001],
}


def _ladder_spec(family, n):
    if family == 'reference_chain':      # A1 = 1, A(k+1) = A(k)+1: a dependency chain of n cells in one column
        cells = [[1, 1, 1]] + [[1, k, f'=A{k - 1}+1'] for k in range(2, n + 1)]
        return {'sheets': [{'title': 'S', 'cells': cells}], 'safety': True, 'family': 'nest.' + family, 'check': 'nesting',
                'strict': True, 'expect': [[0, 0, n - 1, n]], 'entry': [0, 0, n - 1] if n % 2 else None,
                'deps': [[0, 0, k] for k in range(n - 1)]}
    return {'sheets': [{'title': 'S', 'cells': [[1, 1, 3], [2, 1, _ladder_formula(family, n)]]}], 'safety': True,
            'family': 'nest.' + family, 'check': 'nesting', 'strict': True}


def _examine_ladder(job):
    """worker: one family, sizes ascending; stops at the first size that does not terminate within LIMIT"""
    R = Res()
    for n in job['sizes']:
        spec = _ladder_spec(job['family'], n)
        if spec.get('entry') is None:
            spec.pop('entry', None)
            spec.pop('deps', None)
        with lib.scratch() as d:
            before = len(R.fails)
            _examine_in(R, spec, d, replay={'kind': 'spec', 'spec': spec}, light=(n > 300))
            if any(f['key'].startswith('C06.hang') for f in R.fails[before:]):
                break
    return R.dump()


# ---------------------------------------------------------------------------------------------- one Parser, several requests
def _reuse_workbooks():
    """name -> specification; the requests of a sequence refer to them by name"""
    good1 = {'sheets': [{'title': 'First', 'cells': [[1, 1, 2], [2, 1, '=A1*3'], [1, 2, 'txt'], [3, 3, '=SUM(A1:B1)']]},
                        {'title': 'Second one', 'cells': [[1, 1, 10], [2, 2, '=A1+First!A1']]}]}
    good2 = {'sheets': [{'title': 'Zeta', 'cells': [[1, 1, 5], [2, 1, '=A1+1'], [4, 5, {'$dt': [2020, 5, 6, 0, 0, 0, 0]}]]}]}
    malformed = {'sheets': [{'title': 'First', 'cells': [[1, 1, 2], [2, 1, '=A1*'], [3, 1, '=A1+1']]}]}
    unsupported = {'sheets': [{'title': 'U', 'cells': [[1, 1, 2], [2, 1, '=ABS(A1)']]}]}
    unsafe = {'sheets': [{'title': 'First', 'cells': [[1, 1, 'os.system(1)'], [2, 1, '=A1&"x"'], [3, 1, 4]]}]}
    cyclic = {'sheets': [{'title': 'C', 'cells': [[1, 1, '=B1+1'], [2, 1, '=A1+1'], [3, 1, 1]]}]}
    return {'good1': good1, 'good2': good2, 'malformed': malformed, 'unsupported': unsupported, 'unsafe': unsafe, 'cyclic': cyclic}


# request = [workbook name, entry or None, safety, how]   how: 'get' | 'write' | 'get_again' / 'write_again' / 'get_then_write' (the
# request is made twice with no setter call in between; both answers must agree)
REUSE_REQUESTS = [
    ['good1', None, True, 'get'], ['good1', None, True, 'write'], ['good2', None, True, 'get'], ['malformed', None, True, 'get'],
    ['malformed', None, True, 'write'], ['malformed', [0, 2, 0], True, 'get'], ['malformed', [0, 1, 0], True, 'get'],
    ['unsupported', None, False, 'get'], ['unsafe', None, True, 'get'], ['unsafe', None, False, 'get'], ['unsafe', None, True, 'write'],
    ['cyclic', None, True, 'get'], ['cyclic', [0, 2, 0], True, 'get'], ['good1', ['Second one', 'B', '2'], True, 'get'],
    ['good1', [0, 1, 0], False, 'get'], ['good2', [0, 1, 0], True, 'get_again'], ['good1', [0, 2, 2], True, 'write'],
    ['malformed', None, True, 'get_again'], ['malformed', None, True, 'get_then_write'], ['unsafe', None, True, 'write_again'],
    ['good1', None, False, 'get_then_write'], ['cyclic', None, False, 'get_again'], ['unsupported', [0, 1, 0], True, 'get_then_write'],
]


def _examine_reuse(job):
    """worker: sequences of requests on ONE Parser; every answer must be the answer a new Parser gives to that request alone"""
    from excel2pycl import Parser, Cell
    R = Res()
    books = _reuse_workbooks()
    with lib.scratch() as d:
        paths = {}
        for name, sp in books.items():
            paths[name] = os.path.join(d, name + '.xlsx')
            _write(sp, paths[name])
        alone = {}

        def ask(parser, req, out):
            name, entry, safety, how = req
            if safety:
                parser.enable_safety_check()
            else:
                parser.disable_safety_check()
            parser.set_excel_file_path(paths[name])
            parser.set_entrypoint_cell(Cell(*entry) if entry is not None else None)

            def once(kind):
                if kind == 'get':
                    return _catch(parser.get_translation)
                if os.path.exists(out):
                    os.remove(out)
                st = _catch(parser.write_translation, out)
                if st[0] == 'ok':
                    with open(out, encoding='utf-8', newline='') as f:
                        st = ('ok', f.read(), st[2])
                elif os.path.exists(out):
                    st = ('ok', '<<a file was written although the request failed>>', st[2])
                return st
            if how in ('get', 'write'):
                return once(how)
            # the same request again with no setter call in between: 'get_again', 'write_again', 'get_then_write'
            first = once('write' if how == 'write_again' else 'get')
            second = once('get' if how == 'get_again' else 'write')
            if norm(first) != norm(second):
                return ('ok', f'<<asked twice without any change: first {brief(norm(first))}, then {brief(norm(second))}>>', first[2])
            return first

        def brief(x):
            return x[:1] + [str(v)[:220] if not isinstance(v, str) or len(v) < 60 or v.startswith('<<') else f'text of {len(v)} characters'
                            for v in x[1:]]

        def norm(st):
            if st[0] == 'raised':
                return ['raised', st[1].cls, bool(st[1].lib)]
            return [st[0], st[1]]
        for i, req in enumerate(REUSE_REQUESTS):
            alone[i] = norm(ask(Parser(), req, os.path.join(d, 'alone.py')))
            if job.get('verify_alone'):
                R.count('parser_reuse')
                if alone[i][0] == 'ok' and str(alone[i][1]).startswith('<<'):
                    R.fail('parser_reuse', 'C06.reuse.repeated_request', f'request {req!r} on a new Parser, {alone[i][1]}; expected the same '
                           'answer (the first one is checked against the workbook)', {'kind': 'reuse', 'sequence': [i]})
        for seq in job['sequences']:
            parser = Parser()
            for pos, i in enumerate(seq):
                got = norm(ask(parser, REUSE_REQUESTS[i], os.path.join(d, 'seq.py')))
                R.count('parser_reuse', nontrivial=pos > 0)
                if got != alone[i]:
                    prev = REUSE_REQUESTS[seq[pos - 1]] if pos else None
                    tag = ('after_' + (alone[seq[pos - 1]][0] if pos else 'nothing'))
                    R.fail('parser_reuse', f'C06.reuse.{tag}.{alone[i][0]}_becomes_{got[0]}',
                           f'requests {[REUSE_REQUESTS[j] for j in seq[:pos + 1]]!r} on one Parser: the last one answers {brief(got)!r}; '
                           f'a new Parser answers {brief(alone[i])!r}', {'kind': 'reuse', 'sequence': list(seq[:pos + 1])})
                    break
        R.sample('parser_reuse', {'sequence': [REUSE_REQUESTS[i] for i in job['sequences'][0]],
                                  'answers': [alone[i][0] for i in job['sequences'][0]]})
        # the answers a new Parser gives are themselves checked against the workbook (whole contract)
        if job.get('verify_alone'):
            for i, req in enumerate(REUSE_REQUESTS):
                name, entry, safety, how = req
                spec = dict(books[name], safety=safety, family='reuse.' + name, xlsx=name + '.xlsx')
                if entry is not None:
                    spec['entry'] = entry
                _examine_in(R, spec, d, replay={'kind': 'spec', 'spec': {k: v for k, v in spec.items() if k != 'xlsx'}})
    return R.dump()


def _examine_executor_reuse(job):
    """worker: one Executor given a class object and then a class file (and back) behaves like a new Executor"""
    from excel2pycl import Parser, Executor, Cell
    R = Res()
    books = _reuse_workbooks()
    with lib.scratch() as d:
        info = {}
        for name in ('good1', 'good2'):
            p = os.path.join(d, name + '.xlsx')
            _write(books[name], p)
            parser = _new_parser(p, None, True)
            text = parser.get_translation()
            parser.write_translation(os.path.join(d, name + '.py'))
            titles, cells = _readback(p)
            info[name] = (lib.load_class_from_text(text), os.path.join(d, name + '.py'),
                          [(s, c - 1, r - 1) for s, dd in enumerate(cells) for (c, r) in dd])

        def values(ex, name):
            return [_enc_value(_evaluate(ex, *k)[1]) for k in info[name][2]]
        for order in itertools.permutations([('good1', 'object'), ('good2', 'file'), ('good1', 'file'), ('good2', 'object')], 3):
            ex = Executor()
            for name, route in order:
                kw = {'class_object': info[name][0]} if route == 'object' else {'class_file': info[name][1]}
                st = _catch(lambda: ex.set_executed_class(**kw))
                fresh = Executor().set_executed_class(class_object=info[name][0])
                R.count('file_vs_object')
                if st[0] != 'ok' or values(ex, name) != values(fresh, name) or ex.get_executed_class().get_titles() != \
                        fresh.get_executed_class().get_titles():
                    R.fail('file_vs_object', 'C06.file.executor_reuse', f'one Executor given {order!r}: after {name} via {route} it '
                           f'differs from a new Executor on the class object ({st[0]} {st[1] if st[0] != "ok" else ""})',
                           {'kind': 'executor_reuse'})
                    break
    return R.dump()


# ---------------------------------------------------------------------------------------------- the generator
TITLES = ['S', 'Sheet1', 'Data 2024', "it's", 'a"b', '{0}', '{titles}', '%s %d', 'Лист1', '1', '2024', 'A1', 'TRUE', 'SUM',
          ' lead', 'trail ', 'tab\there', 'a.b', 'a!b', 'x;y,z', '=1+1', '#REF!', '(S)', 'x' * 31, 'self', '__class__', 'ß€😀',
          "'q", 'a&b<c>', 'new\nline', "d'Or \"x\" {y}", 'None', '-1', 'x+y', 'S!A1']


def _quote_title(t):
    """Excel's own syntax for a sheet-qualified reference"""
    if re.match(r'^[A-Za-z_][A-Za-z0-9_]*$', t) and not re.match(r'^[A-Za-z]{1,3}[0-9]+$', t) and t not in ('TRUE', 'FALSE'):
        return t
    return "'" + t.replace("'", "''") + "'"


def _col(c):
    from openpyxl.utils import get_column_letter
    return get_column_letter(c)


def _atom(x):
    """a literal, a plain reference, or one bracketed group"""
    if x.isalnum():
        return True
    if not (x.startswith('(') and x.endswith(')')):
        return False
    depth = 0
    for i, ch in enumerate(x):
        depth += ch == '('
        depth -= ch == ')'
        if depth == 0 and i < len(x) - 1:
            return False
    return True


def _scan_refs(formula, s, titles):
    """cells a generated formula reads, as [sheet, col0, row0] (oracle side; the generator's own reference syntax)"""
    from openpyxl.utils import column_index_from_string
    prefixes = sorted(((_quote_title(t) + '!', i) for i, t in enumerate(titles)), key=lambda x: -len(x[0]))
    formula = re.sub(r'COLUMN\([^)]*\)', 'COLUMN()', formula)      # COLUMN(ref) reads the address, not the cell
    out, i, n = set(), 1, len(formula)
    ref = re.compile(r'\$?([A-Z]{1,3})\$?(\d+)(?::\$?([A-Z]{1,3})\$?(\d+))?(?![\w(])')
    while i < n:
        sheet = s
        for p, idx in prefixes:
            if formula.startswith(p, i):
                sheet, i = idx, i + len(p)
                break
        else:
            if formula[i] == '"':                       # text literal ("" is an escaped quote: two literals in a row)
                j = formula.index('"', i + 1)
                i = j + 1
                continue
        m = ref.match(formula, i)
        if m and (i == 0 or not (formula[i - 1].isalnum() or formula[i - 1] == '_')  or formula[i - 1] == '!'):
            c1, r1 = column_index_from_string(m.group(1)), int(m.group(2))
            c2, r2 = (column_index_from_string(m.group(3)), int(m.group(4))) if m.group(3) else (c1, r1)
            for c in range(c1, c2 + 1):
                for r_ in range(r1, r2 + 1):
                    out.add((sheet, c - 1, r_ - 1))
            i = m.end()
        else:
            i += 1
    return [list(x) for x in sorted(out)]


class Gen:
    """Ordinary workbooks: 1-3 sheets, ragged rows of mixed constants in columns A-F, well-typed formulas in columns H-J.
    Column A/B: numbers or blank, C: text, D: dates, E/F: anything.  Formulas read numbers from A/B (also past the end of a
    short row, below the last row, on other sheets), text from C, dates from D, so every formula has a value in Excel."""

    def __init__(self, rng):
        self.rng = rng

    def constant(self, col):
        r = self.rng
        if col in (1, 2):
            return r.choice([0, 1, 2, 3, 7, 10, 100, 101, 1000, 1001, -4, {'$f': '2.5'}, {'$f': '0.1'}, {'$f': '-868.5'},
                             12345678901, None, None])
        if col == 3:
            return r.choice(['apple', 'pear', "it's", 'a"b', '{x}', 'Привет', 'a*b', 'x' * 60, '12', ' ', 'TRUE', '#N/A', 'line\nbreak',
                             '\\n', "'", '%s'])
        if col == 4:
            return r.choice([{'$dt': [2020, 1, 31, 0, 0, 0, 0]}, {'$dt': [2024, 2, 29, 0, 0, 0, 0]}, {'$dt': [2051, 6, 1, 0, 0, 0, 0]},
                             {'$dt': [2001, 12, 31, 23, 59, 59, 0]}, {'$dt': [2010, 5, 5, 0, 0, 0, 0]}])
        return r.choice([True, False, 5, {'$f': '1.5'}, 'mixed', {'$dt': [2022, 2, 2, 0, 0, 0, 0]}, {'$tm': [3, 4, 5, 0]},
                         {'$td': [1, 3600]}, None, '#DIV/0!', 0])

    def workbook(self, index):
        r = self.rng
        ns = r.choice([1, 1, 2, 2, 3])
        titles = r.sample(TITLES, ns)
        if index % 7 == 0 and 'S' not in titles:
            titles[0] = 'S'
        sheets, self.kinds = [], []
        for s in range(ns):
            nrows = r.choice([1, 2, 3, 3, 5, 8])
            cells, kinds = [], {}
            for row in range(1, nrows + 1):
                length = r.choice([0, 1, 2, 3, 4, 6, 6, 6])
                if row == 1:
                    length = 6
                for col in range(1, length + 1):
                    v = self.constant(col)
                    if v is not None:
                        cells.append([col, row, v])
                        kinds[(col, row)] = v
            if index % 11 == 0 and s == 0:      # rows far apart: row > 100 and > 1000, column AAA
                cells.append([1, 150, 7])
                cells.append([2, 1200, 8])
                cells.append([703, 2, 9])
                kinds[(1, 150)], kinds[(2, 1200)], kinds[(703, 2)] = 7, 8, 9
            sheets.append({'title': titles[s], 'cells': cells, 'nrows': nrows})
            self.kinds.append(kinds)
        self.titles, self.sheets = titles, sheets
        entries, expect = [], []
        shared = self.formula(0, 1)[0] if ns > 1 and r.random() < 0.5 else None   # the same formula text on two sheets
        for s in range(ns):
            nf = r.choice([1, 2, 3, 4])
            for k in range(nf):
                row = k + 1
                for col in (8, 9, 10)[:r.choice([1, 1, 2, 3])]:
                    if shared and col == 8 and row == 1:
                        f, _ = self.formula(0, 1, fixed=shared)
                    else:
                        f, val = self.formula(s, row)
                        if val is not None:
                            expect.append([s, col - 1, row - 1, val])
                    sheets[s]['cells'].append([col, row, f])
                    if len(entries) < 4:
                        entries.append({'cell': [s, col - 1, row - 1], 'deps': _scan_refs(f, s, titles)})
        overrides = []
        for _ in range(r.choice([0, 1, 2, 3])):
            s = r.randrange(ns)
            c0, r0 = r.choice([(0, 0), (1, 0), (0, 1), (1, 2), (3, 1), (5, 0), (0, 9), (11, 0), (30, 40), (7, 0), (2, 0)])
            overrides.append([s, c0, r0, r.choice([7, {'$f': '2.5'}, 'over', True, 0, {'$dt': [2023, 3, 3, 0, 0, 0, 0]}, 1001])])
        for sh in sheets:
            sh.pop('nrows', None)
        # overrides may change what formulas return, so the expected values only hold before them (they are checked before)
        return {'sheets': sheets, 'safety': bool(index % 3), 'family': 'generator', 'strict': True, 'entries': entries,
                'expect': expect, 'overrides': overrides, 'pyname': ['translated_class.py', 'мой класс 1.py', 'a b.py'][index % 3]}

    # typed holes -------------------------------------------------------------------------------
    def ref(self, s, col, row, other=None):
        """text of a reference from sheet s to (col,row) of sheet `other` (default: the same sheet, unqualified)"""
        r = self.rng
        a = r.choice(['{c}{r}', '{c}{r}', '${c}${r}', '{c}${r}', '${c}{r}']).format(c=_col(col), r=row)
        t = s if other is None else other
        if other is None and r.random() < 0.8:
            return a
        return _quote_title(self.titles[t]) + '!' + a

    def numref(self, s):
        """a reference whose value is a number or blank: columns A/B of any row up to two below the last one"""
        r = self.rng
        t = r.randrange(len(self.sheets)) if r.random() < 0.25 else s
        nrows = self.sheets[t]['nrows']
        col, row = r.choice([1, 2]), r.randint(1, nrows + 2)
        if r.random() < 0.1:
            col, row = r.choice([(12, 1), (1, 150), (2, 1200), (703, 2), (16384, 1), (27, 3)])
        return self.ref(s, col, row, None if t == s else t), self.kinds[t].get((col, row))

    def numval(self, enc):
        if enc is None:
            return 0
        v = codec.dec(enc)
        return v

    def num(self, s, depth=0):
        """(text, exact value or None)"""
        r = self.rng
        k = r.choice(['lit', 'ref', 'ref', 'ref', 'op', 'fn'] if depth < 2 else ['lit', 'ref'])
        if k == 'lit':
            v = r.choice([0, 1, 2, 10, 100, 1000, 1.5, 0.25, 26, 27, 703, 2050])
            return (repr(v), v)
        if k == 'ref':
            t, enc = self.numref(s)
            return t, self.numval(enc)
        if k == 'op':
            (a, va), (b, vb) = self.num(s, depth + 1), self.num(s, depth + 1)
            op = r.choice(['+', '-', '*'])
            val = None
            if va is not None and vb is not None and all(isinstance(x, int) and abs(x) < 10 ** 6 for x in (va, vb)):
                val = {'+': va + vb, '-': va - vb, '*': va * vb}[op]
            if not (_atom(a) and _atom(b)):
                val = None
            if r.random() < 0.3:
                return f'({a}{op}{b})', val
            return f'{a}{op}{b}', val
        (a, va) = self.num(s, depth + 1)
        (b, vb) = self.num(s, depth + 1)
        rows = self.sheets[s]['nrows']
        rng_ = f'A1:A{rows + 1}'
        which = r.choice(['SUM', 'SUM2', 'MAX', 'MIN', 'ROUND', 'ROUNDUP', 'ROUNDDOWN', 'IF', 'IF2', 'AVERAGE', 'COUNT', 'IFERROR',
                          'YEAR', 'PERCENT', 'NEG', 'SUMROW', 'MATRIX', 'COUNTBLANK'])
        if which == 'SUM':
            return f'SUM({rng_})', None
        if which == 'SUM2':
            return f'SUM({a},{b},{rng_})', None
        if which == 'MAX':
            return f'MAX({rng_},{a},{r.choice([0, 5])})', None      # a literal: MIN / MAX of nothing but blanks is another property's subject
        if which == 'MIN':
            return f'MIN({a};{b};{r.choice([0, 5])})', None
        if which in ('ROUND', 'ROUNDUP', 'ROUNDDOWN'):
            return f'{which}({a},{r.choice([0, 1, 2])})', None
        if which == 'IF':
            return f'IF({a}>{b},{a},{b})', None
        if which == 'IF2':
            return f'IF({a}={b}, 1, 0)', None
        if which == 'AVERAGE':
            return f'AVERAGE({rng_},{a},1)', None
        if which == 'COUNT':
            return f'COUNT({rng_})', None
        if which == 'IFERROR':
            return f'IFERROR({a}/{r.choice([2, 4])},{b})', None
        if which == 'YEAR':
            return f'{r.choice(["YEAR", "MONTH", "DAY"])}(D1)', None
        if which == 'PERCENT':
            return f'{a}%' if a.replace('$', '').isalnum() else f'({a})%', None
        if which == 'NEG':
            return (f'-{a}', -va if isinstance(va, int) and not isinstance(va, bool) else None) if a.replace('$', '').isalnum() \
                else (f'-({a})', None)
        if which == 'SUMROW':
            return 'SUM(A1:B1)', None
        if which == 'COUNTBLANK':
            return f'COUNTBLANK({rng_})', None
        return f'SUM(A1:B{rows + 1})', None

    def formula(self, s, row, fixed=None):
        r = self.rng
        if fixed is not None:
            return fixed, None
        k = r.choice(['num', 'num', 'num', 'text', 'bool', 'date', 'lookup', 'criteria'])
        if k == 'num':
            t, v = self.num(s)
            return '=' + t, (v if isinstance(v, (int, float)) and not isinstance(v, bool) else None)
        rows = self.sheets[s]['nrows']
        (a, _), (b, _) = self.num(s, 1), self.num(s, 1)
        if k == 'text':
            return '=' + r.choice([f'C1&"-"&{a}', f'CONCATENATE(C1,"x",{a})', 'LEFT(C1,2)', 'RIGHT(C1)', 'MID(C1,1,2)',
                                   f'IFS({a}>{b},"gt",{a}<={b},"le")', f'ADDRESS(1,{r.choice([1, 26, 27, 702, 703])})',
                                   f'IF({a}>1,"big","small")', f'TEXT({a},"0.00")', '"it\'s "&C1', '"say ""hi"""&C1']), None
        if k == 'bool':
            return '=' + r.choice([f'{a}>{b}', f'{a}<={b}', f'{a}<>{b}', f'AND({a}>0,{b}>0)', f'OR({a}=1,{b}=1,FALSE)', 'C1="apple"',
                                   'C1=C1', f'({a}+1)={b}']), None
        if k == 'date':
            return '=' + r.choice(['DATE(2024,2,29)', 'EDATE(D1,1)', 'EOMONTH(D1,-1)', 'TODAY()', 'DATEDIF(DATE(2000,1,1),D1,"D")',
                                   'DATEDIF(DATE(2000,1,31),D1,"M")', 'D1>DATE(2000,1,1)', 'NETWORKDAYS(DATE(2000,1,3),D1)',
                                   'YEAR(TODAY())', 'D1=D1']), None
        if k == 'lookup':
            return '=' + r.choice([f'INDEX(A1:B{rows + 1},1,2)', f'INDEX(A1:A{rows + 1},1)', 'COLUMN()', 'COLUMN(C5)', 'COLUMN(AAA1)',
                                   f'MATCH(A1,A1:A{rows + 1},0)', f'XMATCH(A1,A1:A{rows + 1})', f'VLOOKUP(A1,A1:B{rows + 1},2,FALSE)',
                                   f'MATCH(A1;A1:A{rows + 1})', 'SEARCH("p",C1&"p")', 'VALUE("12")']), None
        return '=' + r.choice([f'SUMIF(A1:A{rows + 1},">1")', f'SUMIFS(B1:B{rows + 1},A1:A{rows + 1},">0")',
                               f'COUNTIFS(A1:A{rows + 1},">"&{a})', f'COUNTIFS(C1:C{rows + 1},"a*")', f'COUNTIFS(A1:A{rows + 1},B1)',
                               f'SUMIF(A1:A{rows + 1},">0",B1:B{rows + 1})',
                               f'COUNTIFS(C1:C{rows + 1},C1)']), None


# ---------------------------------------------------------------------------------------------- adversarial formulas
CORPUS = [
    '=A1+B1*2', '=(A1+B1)*C1', '=-A1', '=A1%', '=B1%*2', '=A1&"x"&D1', '=A1>=B1', '=A1<>B1', '="it\'s"', '="say ""hi"""', '=1.5e3', '=TRUE',
    '=FALSE()', '=$A$1+A$2+$B3', "='Other sheet'!A1+S!B2", '=SUM(A1:C3)', '=SUM(A1,B2;3)', '=SUM(A:A)', '=AVERAGE(A1:A3)', '=MIN(A1:C1)',
    '=MAX(A1:A3,10)', '=ROUND(B2,1)', '=ROUNDUP(B2)', '=ROUNDUP(B2,)', '=ROUNDDOWN(B2, 1)', '=IF(A1>B1,"a","b")', '=IF(A1>B1,1)',
    '=IFS(A1>5,"A",A1>0,"B")', '=IFERROR(A1/0,5)', '=AND(A1>0,B1>0)', '=OR(A1=1,FALSE)', '=SUMIF(A1:A3,">1")', '=SUMIF(A1:A3,">1",B1:B3)',
    '=SUMIFS(A1:A3,B1:B3,">1",D1:D3,"a*")', '=COUNTIFS(A1:A3;">"&B1)', '=COUNTIFS(D1:D3,"????")', '=AVERAGEIFS(A1:A3,B1:B3,">0")',
    '=COUNT(A1:C3;2;"x")', '=COUNTBLANK(A1:F1)', '=VLOOKUP(4,A1:C3,2,FALSE())', '=VLOOKUP(4,A1:C3,2)', '=MATCH(4;A1:A3;0)', '=MATCH(4,A1:A3)',
    '=XMATCH(4;A1:A3;1;1)', '=XMATCH(4,A1:A3)', '=INDEX(A1:C3;2;2)', '=INDEX((A1:C1; A1:A3; A1:C3);3;3;3)', '=INDEX(A1:A3&B1:B3, 0)',
    '=DATE(2024,2,29)', '=YEAR(E1)', '=MONTH(E1)+DAY(E2)', '=EDATE(E1,1)', '=EOMONTH(E1,-2)', '=DATEDIF(E1,E2,"YM")', '=TODAY()-E1',
    '=NETWORKDAYS(E1,E2)', '=NETWORKDAYS(E1,E2,E1:E3)', '=LEFT(D1,2)', '=RIGHT(D1)', '=MID(D1,2,3)', '=SEARCH("p",D1,1)', '=CONCATENATE(D1," ",A1)',
    '=TEXT(A1,"0.00")', '=VALUE("12,5")', '=ADDRESS(3;7;2;FALSE;"mid")', '=COLUMN()', '=COLUMN(B3)', '=COLUMN(C3:E3)',
    '=IF(AND(A1>0,OR(B1>1,C1<2)),SUM(A1:A3)/MAX(B1:B3,1),ROUND(AVERAGE(A1:C1),2))',
]

UNSUPPORTED = [
    '=B1%2', '=A1%B1', '=2%%', '=TRUE1', '=IF(A1="x",B1*2,"y")', '=IF(A1>1,"a","b")&"?"', '="a*\"\"', '="a?\"\"\"', '=COLUMN(C3:E3)+1',
    '=ABS(-1)', '=LEN("abc")', '=NOW()', '=A1^2', '={1,2;3,4}', '=SUM(A1:A3 B1:B3)', '=INDIRECT("A1")', '=1=1=1', '=Table1[Col]', '=[1]Sheet!A1',
    '=@A1', '=A1#', '=LET(x,1,x+1)', '=LAMBDA(x,x+1)(1)', '=1E+3', '=1e+3', '=.5', '=5.', '=1,5', '=#REF!+1', '=#N/A', '=A1:B2:C3', '=A:A:A', '=1:1',
    '=$1:$3', '=SUM(1:1)', '=A0', '=A00', '=AAAA1', '=XFD1048576', '=XFE1', '=A1048577', '=A99999999999999999999', '=ZZZZZZZZ1', '=Nope!A1',
    "='No such'!A1", '=S!A1:Other!B2', "='Other sheet'!A1:B2", '=S!A:A', '=SUM(S!A:B)', '=A1:A', '=A:A1', '=B3:A1', '=C1:A1', '=A3:A1', '=SUM(B3:A1)',
    '=SUM(A1:XFD1)', '=COLUMN(XFD1)', '=COLUMN(AAAA1)', '=INDEX(A:C,2,2)', '=VLOOKUP(1,A:B,2,0)', '=sum(A1:A3)', '=Sum(A1)',
    '=if(1,2,3)', '=true', '=eval("1")', '=__import__("os")', '=a1', '=A1.B1', '=A1 B1', '=A1!B1', '=!A1', "=''!A1", "='", '="', '="a', '=a"',
    '="a""', '=""""', '=(', '=)', '=()', '=,', '=;', '=&', '=%', '=1%%', '=--1', '=+-+1', '=1++1', '=1+*2', '=*1', '=1/', '=1//2', '=<>', '=1<>',
    '=>=1', '=1=', '==', '==1', '= 1', '=1 ', '=\n1', '=1\n+\n2', '=\t1', '=SUM', '=SUM(', '=SUM()', '=SUM(,)', '=SUM(1,)', '=SUM(,1)', '=SUM((1)',
    '=SUM(1))', '=IF()', '=IF(1)', '=IF(1,2,3,4)', '=IF(,,)', '=IFS(1)', '=IFS(1,2,3)', '=ROUND(1)', '=ROUND(1,2,3)', '=DATE(1,2)', '=TODAY(1)',
    '=COLUMN(1)', '=COLUMN("a")', '=INDEX()', '=INDEX(A1:B2)', '=INDEX(1,1)', '=MATCH()', '=MATCH(1)', '=MATCH(1,2)', '=XMATCH(1)', '=VLOOKUP(1,2,3)',
    '=VLOOKUP(1,A1,1)', '=SUMIF(1,2)', '=SUMIF(A1:A3)', '=SUMIFS(A1:A3)', '=SUMIFS(A1:A3,B1:B3)', '=COUNTIFS()', '=COUNTIFS(A1:A3)',
    '=COUNTIFS(1,1)', '=AVERAGEIFS(A1:A3)', '=NETWORKDAYS(1)', '=ADDRESS(1)', '=ADDRESS()', '=LEFT()', '=MID(1)', '=TEXT(1)', '=CONCATENATE()',
    '=COUNT()', '=COUNT(A1:A3,B1:B3)', '=COUNT(A1)', '=COUNT(1+1)', '=COUNT((A1:A3))', '=COUNT(-A1:A3)', '=COUNT(SUM(A1:A3))', '=COUNTBLANK()',
    '=MIN()', '=AND()', '=OR(,)', '=EDATE(1)', '=EOMONTH()', '=DATEDIF(1,2)', '=YEAR()', '=VALUE()', '=SEARCH(1)', '=IFERROR(1)', '=IFERROR()',
    '=A1:B2', '=A1:B2+1', '=-A1:B2', '=A1:B2%', '=A1:A3&B1:B3', '=A1:A3=B1:B3', '=SUM(A1:A3)%', '="a*"', '="a?"&1', '="~*"', '=IF("a*"="a*",1,2)',
    '=SUM("a*")', '=1~2', '=SUM(1~2)', '=A1~B1', '=SUMIF(A1:A3,"*")', '=SUMIF(A1:A3,A1:A3)', '=SUMIF(A1,">1",B1)', '=SUMIF(A1:C3,">1",A1)',
    '=SUMIF(A:A,">1")', '=SUMIF(A1:A3,">1",B:B)', '=SUMIF(A1:A3,1+1)', '=SUMIF(A1:A3,">"&)', '=COUNTIFS(A1:A3,">"&B1&"x")',
    '=COUNTIFS(A:A,1)', '=INDEX((A1:C1),1)', '=INDEX((A1:C1;A1:A3),1,1,3)', '=INDEX(A1:A3&B1:B3&C1:C3,1)', '=INDEX(A1:C3,0)', '=INDEX(A1:C3,9,9)',
    '=MATCH(1,A1:A3&B1:B3,0)', '=TRUE()()', '=TRUE(1)', '=TRUEx', '=FALSE1', '=1TRUE', '=1A1', '=A1A1', '=A1(1)', '=1(2)', '=(1)(2)', '=SUM(1)(2)',
    '=1 2', '="a" "b"', '=A1 A1', '=IFX(1)', '=XIF(1,2)', '=IFERRORS(1,2)', '=SUMIFSS(1)', '=TODAYS()', '=DAYS(1,2)', '=DATEVALUE("1")',
    '=ROUNDUPX(1)', '=COUNTA(A1)', '=AVERAGEIF(A1:A3,1)', '=COUNTIF(A1:A3,1)', '=MAXIFS(A1:A3,B1:B3,1)', '=XLOOKUP(1,A1:A3,B1:B3)', '=HLOOKUP(1,A1:C3,2)',
]

SOUP = ['1', '2.5', '1e3', '"a"', '"a*"', '""', 'TRUE', 'FALSE()', 'A1', '$B$2', 'A1:B2', 'A1:A3', 'A:A', 'S!A1', "'Other sheet'!A1", 'Nope!A1', 'A0',
        'AAAA1', 'H1', 'H2', '(', ')', ',', ';', '+', '-', '*', '/', '&', '%', '=', '<>', '<', '>=', ':', '!', '$', "'", '"', ' ', '\n', '~', '^', '{', '}',
        '#REF!', '@', '.', 'e', 'SUM', 'SUM(', 'IF(', 'IFS(', 'IFERROR(', 'ROUND(', 'ROUNDUP(', 'COUNT(', 'COUNTIFS(', 'SUMIF(', 'SUMIFS(', 'INDEX(',
        'MATCH(', 'XMATCH(', 'VLOOKUP(', 'COLUMN(', 'TODAY()', 'DATE(', 'AND(', 'CONCATENATE(', 'ADDRESS(', 'NETWORKDAYS(', 'AVERAGEIFS(', 'LEFT(',
        'ABS(', 'eval(', 'é', 'Я', ' ', '\x0b', '\\', '`', '|', '?', '[', ']']


def _mutations(rng, f, k):
    """k random single edits of a well-formed formula: delete / duplicate / replace a character, swap neighbours"""
    out = []
    for _ in range(k):
        i = rng.randrange(1, len(f))
        how = rng.choice(['del', 'dup', 'rep', 'swap', 'ins'])
        if how == 'del':
            out.append(f[:i] + f[i + 1:])
        elif how == 'dup':
            out.append(f[:i] + f[i] + f[i:])
        elif how == 'rep':
            out.append(f[:i] + rng.choice('(),;"\'!:$%&+-*/<>=1A ') + f[i + 1:])
        elif how == 'swap' and i + 1 < len(f):
            out.append(f[:i] + f[i + 1] + f[i] + f[i + 2:])
        else:
            out.append(f[:i] + rng.choice('(),;"\'!:$%&=1A\n') + f[i:])
    return out


# ---------------------------------------------------------------------------------------------- special workbooks
def _special_specs(thorough=False):
    """constants of every type openpyxl delivers, unusual titles, ragged rows, order of sheets, extreme positions"""
    out = []

    def wb(family, sheets, **kw):
        sp = {'sheets': sheets, 'safety': kw.pop('safety', True), 'family': family}
        sp.update(kw)
        out.append(sp)
    consts = [0, 1, -5, 2 ** 40, 12345678901234567890, {'$f': '1.5'}, {'$f': '1e+300'}, {'$f': '1e-300'}, {'$f': '0.1'}, {'$f': '-0.0'},
              {'$f': '1e+16'}, {'$f': '123456789.123456789'}, True, False, 'text', "it's", 'a"b', 'a\\b', 'line\nbreak', 'tab\tx', ' ', '#N/A',
              '#DIV/0!', 'Привет 😀', '{x}', '{0}', '{functions}', '%s', "'''", '"""', '\\n', "\\'", 'x' * 5000, "'=1+1", 'TRUE', '1', 'None',
              {'$dt': [2020, 1, 2, 3, 4, 5, 0]}, {'$dt': [2020, 1, 2, 3, 4, 5, 678000]}, {'$d': [2020, 1, 2]}, {'$tm': [3, 4, 5, 0]},
              {'$td': [1, 21605]}, {'$td': [0, 59]}, {'$dt': [1900, 1, 1, 0, 0, 0, 0]}, {'$dt': [1899, 12, 31, 0, 0, 0, 0]},
              {'$dt': [2050, 6, 1, 0, 0, 0, 0]}, {'$dt': [2051, 1, 1, 0, 0, 0, 0]}, {'$dt': [9999, 12, 31, 0, 0, 0, 0]},
              {'$dt': [1900, 2, 28, 0, 0, 0, 0]}, {'$dt': [1900, 3, 1, 0, 0, 0, 0]}]
    # every constant alone (so that one bad type cannot hide behind another) and all together
    for i, c in enumerate(consts):
        wb('constant', [{'title': 'S', 'cells': [[1, 1, c], [2, 1, '=A1']]}], entries=[{'cell': [0, 1, 0], 'deps': [[0, 0, 0]]}])
    wb('constant', [{'title': 'S', 'cells': [[1 + i % 7, 1 + i // 7, c] for i, c in enumerate(consts)]}])
    wb('constant', [{'title': 'S', 'cells': [[1 + i % 7, 1 + i // 7, c] for i, c in enumerate(consts)]}], safety=False)
    wb('constant.array_formula', [{'title': 'S', 'cells': [[1, 1, 2], [2, 1, {'$array': ['B1:B2', '=A1*2']}]]}], strict=True)
    wb('constant.array_formula', [{'title': 'S', 'cells': [[1, 1, 2], [2, 1, {'$array': ['B1:B2', '=SUM(']}]]}])
    wb('constant.array_formula', [{'title': 'S', 'cells': [[1, 1, 2], [2, 1, {'$array': ['B1:B2', ' =A1+1 ']}]]}])
    wb('constant.datatable_formula', [{'title': 'S', 'cells': [[1, 1, 2], [2, 2, {'$datatable': {'ref': 'B2:C3', 'dt2D': '1', 'r1': 'A1', 'r2': 'A2'}}]]}])
    wb('constant.infinite_number', [{'title': 'S', 'cells': [[1, 1, {'$rawnum': '1e999'}]]}])
    wb('constant.infinite_number', [{'title': 'S', 'cells': [[1, 1, {'$rawnum': '-1E999'}]]}])
    wb('constant.suspicious_text', [{'title': 'S', 'cells': [[1, 1, 'os.system(1)'], [2, 1, 5]]}], safety=True)
    wb('constant.suspicious_text', [{'title': 'S', 'cells': [[1, 1, 'os.system(1)'], [2, 1, 5]]}], safety=False)
    wb('constant.formula_like_text', [{'title': 'S', 'cells': [[1, 1, '=']]}])
    # titles: each alone, referenced from a second sheet in Excel's own quoting, and the sheet order
    for t in TITLES:
        q = _quote_title(t)
        wb('title', [{'title': t, 'cells': [[1, 1, 4], [2, 1, '=A1+1'], [3, 1, f'={q}!A1+2']]},
                     {'title': 'zz', 'cells': [[1, 1, f'={q}!A1*2'], [2, 2, '=A1+1']]}], strict=True,
           expect=[[0, 1, 0, 5], [0, 2, 0, 6], [1, 0, 0, 8], [1, 1, 1, 9]], entries=[{'cell': [1, 1, 1], 'deps': [[1, 0, 0], [0, 0, 0]]},
                                                                                  {'cell': [t, 'C', '1'], 'deps': [[0, 0, 0]]}])
    wb('title', [{'title': t, 'cells': [[1, 1, i]]} for i, t in enumerate(TITLES)])
    wb('title', [{'title': t, 'cells': [[1, 1, i]]} for i, t in enumerate(reversed(TITLES))], safety=False)
    wb('title.order', [{'title': 'b', 'cells': [[1, 1, 1]]}, {'title': 'a', 'cells': [[2, 2, 2]]}, {'title': 'c', 'cells': []},
                       {'title': 'B', 'cells': [[1, 3, '=a!B2+b!A1']]}], strict=True, expect=[[3, 0, 2, 3]])
    # shapes: empty workbook, empty sheet between others, ragged rows, gaps, far cells
    wb('shape.empty', [{'title': 'S', 'cells': []}])
    wb('shape.empty', [{'title': 'S', 'cells': []}, {'title': 'T', 'cells': [[1, 1, '=S!A1+1'], [2, 1, '=S!C7']]}], strict=True,
       expect=[[1, 0, 0, 1]])
    wb('shape.ragged', [{'title': 'S', 'cells': [[1, 1, 1], [2, 1, 2], [3, 1, 3], [4, 1, 4], [1, 2, 10], [1, 3, 100], [2, 3, 200],
                                                 [6, 1, '=D2+1'], [6, 2, '=SUM(A2:D2)'], [6, 3, '=SUM(C1:C3)+D3'], [6, 4, '=SUM(A1:D3)'],
                                                 [7, 4, '=B2&"x"'], [7, 5, '=SUM(B:B)'], [7, 6, '=INDEX(A1:D3,2,3)+1'],
                                                 [8, 1, '=VLOOKUP(10,A1:D3,4,FALSE)'], [8, 2, '=COUNTBLANK(A2:E2)']]}], strict=True,
       expect=[[0, 5, 0, 1], [0, 5, 1, 10], [0, 5, 2, 3], [0, 5, 3, 320], [0, 6, 4, 202], [0, 5 + 1, 5, 1]],
       entries=[{'cell': [0, 5, 0], 'deps': []}, {'cell': [0, 5, 1], 'deps': [[0, 0, 1]]}, {'cell': [0, 5, 3], 'deps': [[0, 0, 0], [0, 1, 2]]},
                {'cell': ['S', 'G', '6'], 'deps': [[0, 0, 0]]}],
       overrides=[[0, 3, 1, 5], [0, 2, 2, 7], [0, 9, 9, 1]])
    wb('shape.ragged', [{'title': 'S', 'cells': [[5, 1, 1], [1, 2, 2], [3, 4, '=E2+A1+C3+1'], [1, 6, '=SUM(A1:E5)']]},
                        {'title': 'T', 'cells': [[1, 1, '=S!E2+S!B1+1'], [2, 3, '=E2+A1+C3+1'], [1, 6, '=SUM(A1:E5)']]}], strict=True,
       expect=[[0, 2, 3, 1], [0, 0, 5, 4], [1, 0, 0, 1], [1, 1, 2, 2], [1, 0, 5, 3]])
    wb('shape.gaps', [{'title': 'S', 'cells': [[2, 5, 1], [4, 9, '=B5+1'], [3, 120, '=D9+B5'], [1, 1100, '=SUM(B1:B200)']]}], strict=True,
       expect=[[0, 3, 8, 2], [0, 2, 119, 3], [0, 0, 1099, 1]], entries=[{'cell': [0, 2, 119], 'deps': [[0, 3, 8], [0, 1, 4]]}],
       overrides=[[0, 1, 4, 10], [0, 1, 150, 5]])
    wb('shape.far', [{'title': 'S', 'cells': [[16384, 1048576 if thorough else 30000, 1]]}])
    wb('shape.far', [{'title': 'S', 'cells': [[16384, 2000, 1], [1, 1, '=XFD2000+1'], [703, 3, '=A1+1'], [27, 2, '=AAA3+ZZ9+XFD1048576+A1048576']]}], strict=True,
       expect=[[0, 0, 0, 2], [0, 702, 2, 3], [0, 26, 1, 3]], entries=[{'cell': [0, 26, 1], 'deps': [[0, 702, 2], [0, 0, 0], [0, 16383, 1999]]}])
    wb('shape.wide', [{'title': 'S', 'cells': [[c, 1, c] for c in range(1, 800)] + [[1, 2, f'=SUM(A1:{_col(799)}1)'], [2, 2, '=ZZ1+AAA1']]}], strict=True,
       expect=[[0, 0, 1, 799 * 800 // 2], [0, 1, 1, 702 + 703]])
    wb('shape.tall', [{'title': 'S', 'cells': [[1, r, r] for r in range(1, 1201)] + [[2, 1, '=SUM(A1:A1200)'], [2, 2, '=A101+A1001'],
                                                                                     [3, 1, '=SUM(A:A)'], [3, 2, '=COUNTIFS(A1:A1200,">1000")']]}],
       strict=True, expect=[[0, 1, 0, 1200 * 1201 // 2], [0, 1, 1, 1102], [0, 2, 0, 1200 * 1201 // 2], [0, 2, 1, 200]])
    # the same formula text / the same unqualified reference on two sheets, references in both directions
    wb('two_sheets', [{'title': 'One', 'cells': [[1, 1, 1], [2, 1, '=A1+1'], [3, 1, '=SUM(A1:B1)'], [4, 1, '=Two!B1+B1']]},
                      {'title': 'Two', 'cells': [[1, 1, 10], [2, 1, '=A1+1'], [3, 1, '=SUM(A1:B1)'], [4, 1, '=One!B1+B1']]}], strict=True,
       expect=[[0, 1, 0, 2], [1, 1, 0, 11], [0, 2, 0, 3], [1, 2, 0, 21], [0, 3, 0, 13], [1, 3, 0, 13]],
       entries=[{'cell': [1, 2, 0], 'deps': [[1, 0, 0], [1, 1, 0]]}, {'cell': ['Two', 'D', '1'], 'deps': [[0, 1, 0], [1, 1, 0], [0, 0, 0], [1, 0, 0]]}],
       overrides=[[1, 0, 0, 100], [0, 0, 0, 5]])
    # cycles (direct, through a range, across sheets) must be library exceptions
    wb('cycle', [{'title': 'S', 'cells': [[1, 1, '=A1']]}])
    wb('cycle', [{'title': 'S', 'cells': [[1, 1, '=B1'], [2, 1, '=SUM(A1:A3)']]}])
    wb('cycle', [{'title': 'S', 'cells': [[1, 1, '=T!A1']]}, {'title': 'T', 'cells': [[1, 1, '=S!A1+1']]}])
    wb('cycle', [{'title': 'S', 'cells': [[1, 1, '=B1'], [2, 1, '=A1'], [3, 1, 5]]}], entry=[0, 2, 0])
    return out


# ---------------------------------------------------------------------------------------------- driver
def _task(t):
    kind, job = t
    try:
        return {'spec': _examine, 'bulk': _examine_bulk, 'ladder': _examine_ladder, 'reuse': _examine_reuse,
                'executor_reuse': _examine_executor_reuse}[kind](job)
    except _Timeout:
        R = Res()
        return R.dump()
    except Exception as e:  # a defect of the monitor itself must be visible, not swallowed
        import traceback
        R = Res()
        R.fail('outcome', 'C06.monitor_error', f'{kind}: {type(e).__name__}: {e} {traceback.format_exc()[-300:]}', {'kind': 'none'})
        return R.dump()


def _chunks(xs, n):
    return [xs[i:i + n] for i in range(0, len(xs), n)]


def _tasks(tier, seed):
    def stream(name):          # one random stream per component: a change in one does not shift the others
        return random.Random(f'C06-{seed}-{name}')
    thorough = tier == 'thorough'
    tasks, scope = [], {}
    # long-running first
    ladders = dict(LADDERS)
    if thorough:
        ladders = {k: sorted(set(v) | {6, 12, 24, 48}) if max(v) <= 64 and k not in ('ifs_pairs',) else v for k, v in LADDERS.items()}
    for fam, sizes in ladders.items():
        tasks.append(('ladder', {'family': fam, 'sizes': sizes}))
    scope['ladders'] = ladders
    # one Parser, several requests
    n = len(REUSE_REQUESTS)
    pairs = [list(p) for p in itertools.product(range(n), repeat=2)]
    triples = [list(p) for p in itertools.product(range(n), repeat=3)]
    if not thorough:
        triples = stream('reuse').sample(triples, 600)
    seqs = pairs + triples
    for i, ch in enumerate(_chunks(seqs, 150)):
        tasks.append(('reuse', {'sequences': ch, 'verify_alone': i == 0}))
    tasks.append(('executor_reuse', {}))
    scope['reuse'] = (len(pairs), len(triples))
    # special workbooks
    specials = _special_specs(thorough)
    for sp in specials:
        tasks.append(('spec', sp))
    scope['specials'] = len(specials)
    # generator
    ngen = 4000 if thorough else 450
    g = Gen(stream('generator'))
    for i in range(ngen):
        tasks.append(('spec', g.workbook(i)))
    scope['generator'] = ngen
    # corpus: each formula whole-file (strict: well-formed, type-correct) ...
    for i, f in enumerate(CORPUS):
        sp = _bulk_spec(f, 1 + i % 3, 'corpus', safety=bool(i % 2), entry=False)
        sp['strict'] = f not in ('=SUM(A:A)',) and 'TODAY()-E1' not in f
        tasks.append(('spec', sp))
    for i, f in enumerate(UNSUPPORTED):
        if thorough or i % 3 == 0:
            tasks.append(('spec', _bulk_spec(f, 1 + i % 3, 'unsupported_or_malformed', safety=False, entry=False)))
    # ... and as entry points in bulk: unsupported / malformed formulas, every prefix, single edits, token soups
    bulk = {'unsupported_or_malformed': list(UNSUPPORTED), 'truncated': [], 'edited': [], 'soup': []}
    for f in CORPUS:
        bulk['truncated'] += [f[:k] for k in range(1, len(f))]
        bulk['edited'] += _mutations(stream('edit' + f), f, 40 if thorough else 4)
    alphabet = SOUP if thorough else SOUP[:40]
    bulk['soup'] += ['=' + a for a in SOUP] + ['=' + a + b for a in alphabet for b in alphabet]
    nsoup = 40000 if thorough else 1500
    rng = stream('soup')
    for _ in range(nsoup):
        k = rng.choice([3, 3, 4, 4, 5, 6, 7, 8])
        bulk['soup'].append('=' + ''.join(rng.choice(SOUP) for _ in range(k)))
    scope['bulk'] = {k: len(v) for k, v in bulk.items()}
    for fam, fs in bulk.items():
        fs = [f for f in dict.fromkeys(fs) if len(f) > 1 and '\x0b' not in f or f == '=']
        for ch in _chunks(fs, 40):
            tasks.append(('bulk', {'formulas': ch, 'family': fam}))
    return tasks, scope


def _normal_key(key):
    m = re.match(r'^(C06\.[a-z_]+(?:\.[A-Za-z_]+)*?)\.nest\.([a-z_]+)$', key)
    if m:
        what = '.nesting' if m.group(1).startswith('C06.hang') else '.dependency_chain' if m.group(2) == 'reference_chain' else '.long_formula'
        return m.group(1) + what, m.group(2)
    return key, None


def run(tier='quick', seed=0):
    t0 = time.time()
    tasks, scope = _tasks(tier, seed)
    total = Res()
    fails = {}
    also = {}
    with multiprocessing.Pool(16) as pool:
        for res in pool.imap_unordered(_task, tasks, chunksize=1):
            for c in CHECKS:
                total.counts[c] += res['counts'][c]
                total.nontrivial[c] += res['nontrivial'][c]
                for s in res['samples'][c]:
                    total.sample(c, s)
            for k, v in res['outcomes'].items():
                total.outcomes[k] = total.outcomes.get(k, 0) + v
            for f in res['fails']:
                key, fam = _normal_key(f['key'])
                if fam:
                    also.setdefault((f['check'], key), set()).add(fam)
                f = dict(f, key=key)
                old = fails.get((f['check'], key))
                if old is None or f['size'] < old['size']:
                    fails[(f['check'], key)] = f
    secs = time.time() - t0
    b = scope['bulk']
    bounds = {
        'outcome': f"{scope['generator']} generator workbooks (1-3 sheets, {len(TITLES)} titles, ragged rows of ints / floats / texts / dates / "
                   f"times / booleans / blanks, 1-12 well-typed formulas over {len(CORPUS)} function shapes, safety on and off) + "
                   f"{scope['specials']} special workbooks (every constant type alone and together, array / data-table formulas, infinite "
                   f"numbers, every title alone and all together, empty / ragged / gapped / far (XFD1048576) / wide (799 columns) / tall "
                   f"(1200 rows) sheets, cycles) + {len(CORPUS)} well-formed and {len(UNSUPPORTED)} unsupported or malformed formulas whole-file "
                   f"+ entry requests for {b['unsupported_or_malformed']} unsupported, {b['truncated']} prefixes (every truncation of every corpus "
                   f"formula), {b['edited']} single-character edits, {b['soup']} token soups (all words and pairs over "
                   f"{len(SOUP)} lexemes, random 3-8 lexeme strings); limit {LIMIT:.0f} s per request",
        'loadable': 'every request of C06.monitor.outcome / nesting / entry_point that returned text',
        'members': 'every returned text: all cells of the workbook (whole-file) or the entry cell and the non-blank cells it reads '
                   '(entry request), at most 400 evaluated per text',
        'file_vs_object': 'every whole-file text of the generator, special and corpus workbooks: written file vs class object, <= 150 cells, '
                          '0-3 overrides (data cells, blank cells, cells past a short row, cells beyond the used range), get_sheet of sheets '
                          'up to 400 cells, three file names; one Executor switched between 4 class/file routes (24 orders)',
        'entry_point': 'up to 4 formula cells of every generator workbook and the listed cells of the special workbooks requested as '
                       'entry point (int and text coordinates) on a new Parser',
        'parser_reuse': f"{len(REUSE_REQUESTS)} requests (2 good workbooks, malformed, unsupported, unsafe with safety on/off, cyclic; whole-file "
                        f"and entry; get_translation, write_translation, the same request twice without a setter in between): all {scope['reuse'][0]} ordered pairs and "
                        f"{scope['reuse'][1]} {'(all)' if tier == 'thorough' else '(sampled)'} triples on one Parser",
        'nesting': 'families ' + ', '.join(f'{k} {v}' for k, v in scope['ladders'].items()) + ' (sizes within Excel\'s own limits: 64 levels, '
                   '255 arguments, 8192 characters; reference_chain = column of n cells each reading the one above); a family stops at its '
                   'first size that exceeds the limit',
    }
    rules = {
        'outcome': 'one evaluation = one Parser.get_translation request; passes if it ends within the limit with text or an E2PyclException; '
                   'non-trivial = text returned',
        'loadable': 'one evaluation = one returned text: compile, exec, ExcelInPython(), get_titles() == {title: position}, get_sheets_size() == '
                    'last used row/column per sheet (from the specification), no member defined twice, no member referring to an undefined '
                    'member or attribute',
        'members': 'one evaluation = one translated cell evaluated through Executor.get_cell (+ one per text for the presence of all members); '
                   'constants must come back identical (type and value, openpyxl full-mode read-back as reference); formulas of the '
                   'well-typed families must not raise, other formulas must not raise NameError / AttributeError / RecursionError; '
                   'listed expected values (integer arithmetic, sums) must match; evaluation timeouts are skipped',
        'file_vs_object': 'one evaluation = one cell (or sheet, or shape) compared between Executor(class_file=written file) and '
                          'Executor(class_object=exec of the text); plus file content == text',
        'entry_point': 'one evaluation = one entry request (all clauses above) or one comparison of the entry member with the whole-file value',
        'parser_reuse': 'one evaluation = one request inside a sequence; its answer (text, or exception class) must equal the answer of a new '
                        'Parser to the same request; non-trivial = not the first request of the sequence',
        'nesting': 'one evaluation = one request; all clauses above apply to returned text',
    }
    checks = []
    for c in CHECKS:
        fl = []
        for (chk, key), f in sorted(fails.items(), key=lambda x: x[0][1]):
            if chk != c:
                continue
            what = f['what']
            if (chk, key) in also and len(also[(chk, key)]) > 1:
                what += f' (families affected: {", ".join(sorted(also[(chk, key)]))})'
            fl.append({'key': key, 'what': what, 'replay': f['replay']})
        checks.append({'name': f'C06.monitor.{c}', 'bound': bounds[c], 'rule': rules[c], 'exhaustive': c == 'parser_reuse' and tier == 'thorough',
                       'evaluations': total.counts[c], 'distinct_nontrivial': total.nontrivial[c], 'failures': fl[:25],
                       'samples': total.samples[c][:3] + ([{'outcomes': total.outcomes}] if c == 'outcome' else []), 'seconds': secs})
    return {'checks': checks}


def replay(payload):
    kind = (payload or {}).get('kind')
    if kind == 'spec':
        res = _examine(payload['spec'])
        txt = '; '.join(f"{f['key']}: {f['what']}" for f in res['fails'])
        return {'fails': bool(res['fails']), 'text': f"{_short(payload['spec'])}: " + (txt or 'all clauses hold') + f" {res['outcomes']}"}
    if kind == 'reuse':
        res = _examine_reuse({'sequences': [payload['sequence']]})
        txt = '; '.join(f"{f['key']}: {f['what']}" for f in res['fails'])
        return {'fails': bool(res['fails']), 'text': txt or f"sequence {payload['sequence']} answers like new Parsers"}
    if kind == 'executor_reuse':
        res = _examine_executor_reuse({})
        return {'fails': bool(res['fails']), 'text': '; '.join(f['what'] for f in res['fails']) or 'one Executor behaves like new ones'}
    return {'fails': False, 'text': 'nothing to replay'}
