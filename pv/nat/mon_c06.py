"""K4 bounded monitor for C06 (translation is total: a loadable Python class or a library exception).

Runs under /venv/bin/python on the real code.  Contract monitored (executable form of the property statement), observed on
`Parser.get_translation` / `Parser.write_translation` / `Executor`:

  for every readable workbook W, entry cell and safety setting
    * the request terminates within LIMIT seconds of wall clock,
    * it raises only exceptions of the library's hierarchy (E2PyclException), or returns text T such that
    * T compiles and executes, defines class ExcelInPython whose instance reports W's titles (title -> position) and W's
      sizes (last used row / column per sheet), defines every member once, refers to no undefined member,
    * has one member per translated cell (every cell of W; for an entry request the entry cell and the cells it reads);
      a constant's member evaluates to the constant, a well-typed formula's member evaluates without exception,
    * the file written by write_translation holds exactly T, and an Executor built from that file behaves like one built from
      the class object (titles, sizes, every cell, also after identical overrides, get_sheet),
    * the outcome of a request depends only on that request, not on earlier requests made on the same Parser.

The expected titles, sizes, cells and constants come from the workbook specification and from an independent openpyxl
read-back (full mode), never from the library."""
import ast
import datetime
import itertools
import json
import multiprocessing
import os
import random
import re
import signal
import time
import zipfile

from pv import codec
from pv.nat import lib

LIMIT = 20.0            # wall-clock bound of one translation request (DESIGN C06: wall < 20 s)
EVAL_LIMIT = 10.0       # bound for evaluating one member (a timeout there is not counted: no clause)
MEMBER = re.compile(r'^_(\d+)_(\d+)_(\d+)$')
MEMBERISH = re.compile(r'^_\d+_\d+_(\d+|any)(_\d+)?$')
CHECKS = ['outcome', 'loadable', 'members', 'file_vs_object', 'entry_point', 'parser_reuse', 'nesting']
STRUCTURAL = ('NameError', 'UnboundLocalError', 'AttributeError', 'RecursionError', 'SyntaxError')


# ---------------------------------------------------------------------------------------------- bounded calls
class _Timeout(BaseException):
    pass


def _alarm(sig, frm):
    raise _Timeout()


def _catch(f, *a, limit=LIMIT):
    """-> ('ok', value, secs) | ('raised', codec.Raised(+ .lib), secs) | ('timeout', None, secs)"""
    old = signal.signal(signal.SIGALRM, _alarm)
    t0 = time.time()
    signal.setitimer(signal.ITIMER_REAL, limit)
    try:
        try:
            v = f(*a)
            signal.setitimer(signal.ITIMER_REAL, 0)
            return 'ok', v, time.time() - t0
        except _Timeout:
            return 'timeout', None, time.time() - t0
        except BaseException as e:  # noqa
            signal.setitimer(signal.ITIMER_REAL, 0)
            from excel2pycl.src.exceptions import E2PyclException
            r = codec.Raised(type(e).__name__, ('recursion' if isinstance(e, RecursionError) else str(e))[:200],
                             [c.__name__ for c in type(e).__mro__])
            r.lib = isinstance(e, E2PyclException)
            return 'raised', r, time.time() - t0
    except _Timeout:          # the alarm fired inside a handler above
        return 'timeout', None, time.time() - t0
    finally:
        signal.setitimer(signal.ITIMER_REAL, 0)
        signal.signal(signal.SIGALRM, old)


# ---------------------------------------------------------------------------------------------- result accumulator
class Res:
    def __init__(self):
        self.counts = {c: 0 for c in CHECKS}
        self.nontrivial = {c: 0 for c in CHECKS}
        self.fails = []
        self.samples = {c: [] for c in CHECKS}
        self.outcomes = {}

    def count(self, check, nontrivial=True):
        self.counts[check] += 1
        if nontrivial:
            self.nontrivial[check] += 1

    def fail(self, check, key, what, replay):
        self.fails.append({'check': check, 'key': key, 'what': what[:400], 'replay': replay,
                           'size': len(json.dumps(replay, default=str))})

    def sample(self, check, s):
        if len(self.samples[check]) < 2:
            self.samples[check].append(s)

    def dump(self):
        return {'counts': self.counts, 'nontrivial': self.nontrivial, 'fails': self.fails, 'samples': self.samples,
                'outcomes': self.outcomes}


def _short(spec):
    """one-line description of a specification"""
    fs = [str(v) for sh in spec['sheets'] for _, _, v in sh['cells'] if isinstance(v, str) and v.startswith('=')]
    t = [sh['title'] for sh in spec['sheets']]
    s = f"titles={t!r} formulas={fs[:3]!r}"
    if spec.get('entry') is not None:
        s += f" entry={spec['entry']!r}"
    return s[:260]


# ---------------------------------------------------------------------------------------------- workbooks
def _is_blank(v):
    return v is None or v == ''


def _write(spec, path):
    """spec['sheets'] = [{'title', 'cells': [[col 1-based, row 1-based, encoded value]]}]; besides codec values:
    {'$array': [ref, text]} array formula, {'$datatable': {...}} data-table formula, {'$rawnum': text} number written verbatim."""
    from openpyxl import Workbook
    from openpyxl.worksheet.formula import ArrayFormula, DataTableFormula
    wb = Workbook()
    raw = {}
    for si, sh in enumerate(spec['sheets']):
        ws = wb.active if si == 0 else wb.create_sheet()
        ws.title = sh['title']
        for col, row, val in sh.get('cells', []):
            if isinstance(val, dict) and '$array' in val:
                v = ArrayFormula(val['$array'][0], val['$array'][1])
            elif isinstance(val, dict) and '$datatable' in val:
                v = DataTableFormula(**val['$datatable'])
            elif isinstance(val, dict) and '$rawnum' in val:
                v = 7700000.5 + len(raw)
                raw.setdefault(si, []).append((repr(v), val['$rawnum']))
            else:
                v = codec.dec(val)
            ws.cell(row=row, column=col, value=v)
    wb.save(path)
    wb.close()
    if raw:
        tmp = path + '.tmp'
        with zipfile.ZipFile(path) as zin, zipfile.ZipFile(tmp, 'w', zipfile.ZIP_DEFLATED) as zout:
            for it in zin.infolist():
                data = zin.read(it.filename)
                m = re.match(r'xl/worksheets/sheet(\d+)\.xml$', it.filename)
                if m and int(m.group(1)) - 1 in raw:
                    s = data.decode('utf-8')
                    for a, b in raw[int(m.group(1)) - 1]:
                        s = s.replace(f'<v>{a}</v>', f'<v>{b}</v>')
                    data = s.encode('utf-8')
                zout.writestr(it, data)
        os.replace(tmp, path)


def _readback(path):
    """independent read of the workbook (openpyxl full mode): [{(col, row): value}] per sheet, blanks left out"""
    from openpyxl import load_workbook
    wb = load_workbook(path)
    out = []
    for ws in wb.worksheets:
        d = {}
        for (r, c), cell in ws._cells.items():
            if not _is_blank(cell.value):
                d[(c, r)] = cell.value
        out.append(d)
    return [ws.title for ws in wb.worksheets], out


def _expected_shape(cells):
    """titles / sizes the statement speaks about: title -> position; last used row and column of every sheet"""
    sizes = []
    for d in cells:
        sizes.append({'last_column': max((c for c, _ in d), default=0), 'last_row': max((r for _, r in d), default=0)})
    return sizes


def _is_formula(v):
    if type(v).__name__ == 'ArrayFormula':
        return True
    return isinstance(v, str) and v.startswith('=')


def _enc_value(v):
    return codec.enc(v, is_empty=lambda x: type(x).__name__ == 'EmptyCell')


def _same_const(got, exp):
    if type(got) is not type(exp):
        return False
    if isinstance(exp, float) and exp != exp:
        return got != got
    return got == exp


# ---------------------------------------------------------------------------------------------- one request
def _new_parser(path, entry, safety, parser=None):
    from excel2pycl import Parser, Cell
    p = parser if parser is not None else Parser()
    if safety:
        p.enable_safety_check()
    else:
        p.disable_safety_check()
    p.set_excel_file_path(path)
    if entry is not None:
        p.set_entrypoint_cell(Cell(*entry))
    return p


def _outcome(R, check, spec, st, replay, secs_note=''):
    """the clause 'terminates, and raises only library exceptions or returns text'; True if text was returned"""
    fam = spec.get('family', 'wb')
    kind, val, secs = st
    R.count(check, nontrivial=(kind == 'ok'))
    R.outcomes[kind if kind != 'raised' else ('lib' if val.lib else 'foreign')] = \
        R.outcomes.get(kind if kind != 'raised' else ('lib' if val.lib else 'foreign'), 0) + 1
    if kind == 'timeout':
        R.fail(check, f'C06.hang.{fam}', f'{_short(spec)} -> no result after {LIMIT:.0f} s; expected termination', replay)
        return False
    if kind == 'raised':
        if not val.lib:
            R.fail(check, f'C06.foreign.{val.cls}.{fam}', f'{_short(spec)} -> {val.cls}: {val.msg[:120]}; expected text or an '
                   'E2PyclException', replay)
        return False
    if not isinstance(val, str):
        R.fail(check, f'C06.result.not_text.{fam}', f'{_short(spec)} -> {type(val).__name__}; expected source text', replay)
        return False
    R.sample(check, {'workbook': _short(spec), 'result': f'text of {len(val)} characters', 'seconds': round(secs, 3)})
    return True


def _member_cells(spec, cells):
    """translated cells that must have a member: (sheet, col0, row0, expected value or None for unknown)"""
    if spec.get('entry') is None:
        return [(s, c - 1, r - 1, v) for s, d in enumerate(cells) for (c, r), v in sorted(d.items(), key=lambda x: (x[0][1], x[0][0]))]
    out = []
    for s, c0, r0 in [spec['entry_resolved']] + [tuple(x) for x in spec.get('deps', [])]:
        out.append((s, c0, r0, cells[s].get((c0 + 1, r0 + 1))))
    return out


def _load(R, spec, text, titles, cells, replay):
    """clause 'compiles, defines the class with the workbook's titles and sizes'; -> (cls, tree members) or None"""
    fam = spec.get('family', 'wb')
    R.count('loadable')
    try:
        tree = ast.parse(text)
        code = compile(text, '<translation>', 'exec')
    except (SyntaxError, ValueError, RecursionError, MemoryError) as e:
        R.fail('loadable', f'C06.load.{type(e).__name__}.{fam}', f'{_short(spec)} -> returned text does not compile: '
               f'{type(e).__name__}: {str(e)[:100]}', replay)
        return None
    ns = {}
    st = _catch(exec, code, ns)
    if st[0] != 'ok' or not isinstance(ns.get('ExcelInPython'), type):
        R.fail('loadable', f'C06.load.exec.{fam}', f'{_short(spec)} -> executing the text: {st[1]!r}, class present: '
               f'{"ExcelInPython" in ns}', replay)
        return None
    cls = ns['ExcelInPython']
    st = _catch(cls)
    if st[0] != 'ok':
        R.fail('loadable', f'C06.load.instantiate.{fam}', f'{_short(spec)} -> ExcelInPython() -> {st[1]!r}', replay)
        return None
    inst = st[1]
    exp_titles = {t: i for i, t in enumerate(titles)}
    got = _catch(inst.get_titles)[1]
    if not (isinstance(got, dict) and got == exp_titles and list(got) == list(exp_titles)
            and all(type(v) is int for v in got.values())):
        R.fail('loadable', f'C06.shape.titles.{fam}', f'{_short(spec)} -> get_titles() = {got!r}; expected {exp_titles!r}', replay)
    exp_sizes = _expected_shape(cells)
    got = _catch(inst.get_sheets_size)[1]
    if got != exp_sizes:
        R.fail('loadable', f'C06.shape.sizes.{fam}', f'{_short(spec)} -> get_sheets_size() = {got!r}; expected {exp_sizes!r}', replay)
    cdefs = [n for n in tree.body if isinstance(n, ast.ClassDef) and n.name == 'ExcelInPython']
    if len(cdefs) != 1:
        R.fail('loadable', f'C06.load.class_count.{fam}', f'{_short(spec)} -> {len(cdefs)} definitions of ExcelInPython', replay)
        return None
    fdefs = [n for n in cdefs[0].body if isinstance(n, (ast.FunctionDef, ast.AsyncFunctionDef))]
    names = [n.name for n in fdefs]
    dup = sorted({n for n in names if names.count(n) > 1})
    if dup:
        R.fail('loadable', f'C06.load.duplicate_member.{fam}', f'{_short(spec)} -> defined more than once: {dup[:5]}', replay)
    members = {n for n in names if MEMBERISH.match(n)}
    bad_names = sorted(n for n in members if not n.isidentifier())
    # no member refers to something that is not defined
    dangling = set()
    for f in fdefs:
        if f.name not in members:
            continue
        for node in ast.walk(f):
            if isinstance(node, ast.Attribute) and isinstance(node.value, ast.Name) and node.value.id == 'self' \
                    and not hasattr(inst, node.attr):
                dangling.add('self.' + node.attr)
            if isinstance(node, ast.Constant) and isinstance(node.value, str) and MEMBERISH.match(node.value) \
                    and node.value not in members:
                dangling.add(node.value)
    if dangling or bad_names:
        R.fail('loadable', f'C06.load.dangling_reference.{fam}', f'{_short(spec)} -> members refer to undefined names '
               f'{sorted(dangling)[:5]} {bad_names[:3]}', replay)
    bad_sheet = sorted(n for n in members if MEMBER.match(n) and int(MEMBER.match(n).group(1)) >= len(titles))
    if bad_sheet:
        R.fail('loadable', f'C06.load.member_of_unknown_sheet.{fam}', f'{_short(spec)} -> members {bad_sheet[:3]} for a workbook of '
               f'{len(titles)} sheets', replay)
    return cls, members


def _evaluate(ex, s, c0, r0):
    from excel2pycl import Cell
    return _catch(lambda: ex.get_cell(Cell(s, c0, r0)).value, limit=EVAL_LIMIT)


def _members(R, spec, cls, members, cells, replay, cap=400):
    """clause 'one evaluable member per translated cell'; -> {(s, c0, r0): encoded value or exception} (object route)"""
    from excel2pycl import Executor
    fam = spec.get('family', 'wb')
    values = {}
    st = _catch(lambda: Executor().set_executed_class(class_object=cls))
    if st[0] != 'ok':
        R.count('members')
        R.fail('members', f'C06.member.executor.{fam}', f'{_short(spec)} -> Executor.set_executed_class(class_object) -> {st[1]!r}', replay)
        return None, values
    ex = st[1]
    expect = {(s, c0, r0): v for s, c0, r0, v in (tuple(x) for x in spec.get('expect', []))}
    todo = _member_cells(spec, cells)
    missing = [f'_{s}_{c0}_{r0}' for s, c0, r0, _ in todo if f'_{s}_{c0}_{r0}' not in members
               or not callable(cls.__dict__.get(f'_{s}_{c0}_{r0}'))]
    R.count('members')
    if missing:
        R.fail('members', f'C06.member.missing.{fam}', f'{_short(spec)} -> no member for translated cells {missing[:4]} '
               f'({len(missing)} of {len(todo)})', replay)
    for s, c0, r0, v in todo[:cap]:
        kind, got, _ = _evaluate(ex, s, c0, r0)
        if kind == 'timeout':
            continue
        R.count('members')
        values[(s, c0, r0)] = _enc_value(got)
        name = f'_{s}_{c0}_{r0}'
        if v is not None and not _is_formula(v) and type(v).__name__ != 'DataTableFormula':
            if kind != 'ok' or not _same_const(got, v):
                R.fail('members', f'C06.member.constant.{type(v).__name__}.{fam}', f'{_short(spec)} -> member {name} of constant '
                       f'{v!r} evaluates to {got!r}; expected the constant', replay)
        elif kind == 'raised':
            if spec.get('strict') or got.cls in STRUCTURAL:
                R.fail('members', f'C06.member.raises.{got.cls}.{fam}', f'{_short(spec)} -> member {name} ({str(v)[:80]!r}) raises '
                       f'{got.cls}: {got.msg[:100]}; expected an evaluable member', replay)
        if kind == 'ok' and (s, c0, r0) in expect:
            e = codec.dec(expect[(s, c0, r0)])
            if not (got == e and isinstance(got, (int, float, str, bool)) and isinstance(got, bool) == isinstance(e, bool)):
                R.fail('members', f'C06.member.value.{fam}', f'{_short(spec)} -> member {name} ({str(v)[:80]!r}) = {got!r}; '
                       f'expected {e!r}', replay)
    R.sample('members', {'workbook': _short(spec), 'members_checked': len(todo[:cap]),
                         'first': [[list(k), v] for k, v in list(values.items())[:3]]})
    return ex, values


def _file_vs_object(R, spec, text, parser, cls, ex_obj, obj_values, cells, d, replay):
    """clause 'behaves the same whether loaded from the written file or used as a class object'"""
    from excel2pycl import Executor, Cell
    fam = spec.get('family', 'wb')
    pyfile = os.path.join(d, spec.get('pyname', 'translated_class.py'))
    R.count('file_vs_object')
    st = _catch(parser.write_translation, pyfile)
    if st[0] != 'ok':
        R.fail('file_vs_object', f'C06.file.write.{fam}', f'{_short(spec)} -> write_translation after a successful '
               f'get_translation -> {st[0]} {st[1]!r}', replay)
        return
    with open(pyfile, encoding='utf-8', newline='') as f:
        content = f.read()
    if content != text:
        R.fail('file_vs_object', f'C06.file.content.{fam}', f'{_short(spec)} -> written file ({len(content)} chars) differs from '
               f'get_translation() ({len(text)} chars)', replay)
    st = _catch(lambda: Executor().set_executed_class(class_file=pyfile))
    if st[0] != 'ok':
        R.fail('file_vs_object', f'C06.file.load.{st[1].cls if st[1] else "timeout"}.{fam}', f'{_short(spec)} -> '
               f'Executor.set_executed_class(class_file) -> {st[1]!r}; the class object loads', replay)
        return
    ex_file = st[1]
    a, b = ex_obj.get_executed_class(), ex_file.get_executed_class()
    if a.get_titles() != b.get_titles() or a.get_sheets_size() != b.get_sheets_size():
        R.fail('file_vs_object', f'C06.file.shape.{fam}', f'{_short(spec)} -> file: {b.get_titles()!r} {b.get_sheets_size()!r}; '
               f'object: {a.get_titles()!r} {a.get_sheets_size()!r}', replay)
    keys = list(obj_values)[:150]

    def compare(stage):
        for (s, c0, r0) in keys:
            va = _evaluate(ex_obj, s, c0, r0)
            vb = _evaluate(ex_file, s, c0, r0)
            if 'timeout' in (va[0], vb[0]):
                continue
            R.count('file_vs_object')
            if _enc_value(va[1]) != _enc_value(vb[1]):
                R.fail('file_vs_object', f'C06.file.value.{fam}', f'{_short(spec)} -> {stage}: cell ({s},{c0},{r0}) object route '
                       f'{va[1]!r}, file route {vb[1]!r}', replay)
                return False
        return True
    if not compare('fresh'):
        return
    overrides = spec.get('overrides') or []
    if overrides:
        for ex in (ex_obj, ex_file):
            st = _catch(lambda: ex.set_cells([Cell(s, c0, r0, codec.dec(v)) for s, c0, r0, v in overrides]))
            if st[0] != 'ok':
                R.fail('file_vs_object', f'C06.file.set_cells.{fam}', f'{_short(spec)} -> set_cells({overrides!r}) -> {st[1]!r}', replay)
                return
        if not compare(f'after overrides {overrides!r}'):
            return
    # whole sheets (small ones)
    for s, dct in enumerate(cells):
        size = _expected_shape([dct])[0]
        if size['last_row'] * size['last_column'] > 400 or overrides and any(o[1] > 60 or o[2] > 60 for o in overrides):
            continue
        sa, sb = _catch(ex_obj.get_sheet, s, limit=EVAL_LIMIT), _catch(ex_file.get_sheet, s, limit=EVAL_LIMIT)
        if 'timeout' in (sa[0], sb[0]):
            continue
        R.count('file_vs_object')

        def norm(x):
            if x[0] != 'ok':
                return _enc_value(x[1])
            return [[_enc_value(c.value) for c in row] for row in x[1]]
        if norm(sa) != norm(sb):
            R.fail('file_vs_object', f'C06.file.get_sheet.{fam}', f'{_short(spec)} -> get_sheet({s}) differs between the routes', replay)
            return
    R.sample('file_vs_object', {'workbook': _short(spec), 'cells_compared': len(keys), 'overrides': overrides})


def _resolve_entry(entry, titles):
    """0-based (sheet, column, row) of an entry given as Cell arguments (oracle side: A=0, '3' -> row 2)"""
    from openpyxl.utils import column_index_from_string
    t, c, r = entry
    s = titles.index(t) if isinstance(t, str) else t
    c0 = column_index_from_string(c) - 1 if isinstance(c, str) else c
    r0 = int(r) - 1 if isinstance(r, str) else r
    return s, c0, r0


def _examine_in(R, spec, d, replay=None, light=False):
    """all clauses on one request; returns (text or None, object-route values)"""
    replay = replay or {'kind': 'spec', 'spec': spec}
    path = os.path.join(d, spec.get('xlsx', 'wb.xlsx'))
    if not os.path.exists(path):
        _write(spec, path)
    titles, cells = _readback(path)
    spec = dict(spec)
    if spec.get('entry') is not None:
        spec['entry_resolved'] = _resolve_entry(spec['entry'], titles)
    parser = _new_parser(path, spec.get('entry'), spec.get('safety', False))
    st = _catch(parser.get_translation)
    if not _outcome(R, spec.get('check', 'outcome'), spec, st, replay):
        return None, {}
    text = st[1]
    got = _load(R, spec, text, titles, cells, replay)
    if got is None:
        return text, {}
    cls, members = got
    ex_obj, values = _members(R, spec, cls, members, cells, replay)
    if ex_obj is not None and not light:
        _file_vs_object(R, spec, text, parser, cls, ex_obj, values, cells, d, replay)
    return text, values


def _examine(spec):
    """worker: one workbook, whole-file or entry request as the specification says, plus per-formula entry requests"""
    R = Res()
    with lib.scratch() as d:
        text, values = _examine_in(R, spec, d)
        if text is not None and spec.get('entries'):
            # every listed cell again as an entry point on a fresh Parser: same value as in the whole-file translation
            for ent in spec['entries']:
                sub = dict(spec, entry=ent['cell'], deps=ent.get('deps', []), check='entry_point', entries=None)
                R2 = Res()
                t2, v2 = _examine_in(R2, sub, d, replay={'kind': 'spec', 'spec': sub}, light=True)
                for c in CHECKS:
                    R.counts[c] += R2.counts[c]
                    R.nontrivial[c] += R2.nontrivial[c]
                R.fails += R2.fails
                key = tuple(ent['cell'])
                if t2 is not None and key in v2 and key in values:
                    R.count('entry_point')
                    if v2[key] != values[key] and not (isinstance(values[key], dict) and '$exc' in values[key]):
                        R.fail('entry_point', f'C06.entry.value.{spec.get("family", "wb")}', f'{_short(sub)} -> entry member evaluates to '
                               f'{v2[key]!r}, the whole-file translation to {values[key]!r}', {'kind': 'spec', 'spec': spec})
                    R.sample('entry_point', {'workbook': _short(sub), 'value': v2[key]})
    return R.dump()


# ---------------------------------------------------------------------------------------------- many formulas, one workbook
BASE_CELLS = [[1, 1, 1], [2, 1, 2], [3, 1, 3], [1, 2, 4], [2, 2, {'$f': '5.5'}], [3, 2, 6], [1, 3, 7], [2, 3, 8], [3, 3, 9],
              [4, 1, 'apple'], [4, 2, 'pear'], [4, 3, 'fig'], [5, 1, {'$dt': [2020, 1, 31, 0, 0, 0, 0]}],
              [5, 2, {'$dt': [2021, 3, 1, 0, 0, 0, 0]}], [5, 3, {'$dt': [2024, 2, 29, 12, 30, 0, 0]}]]
BULK_TITLES = ['S', 'Other sheet']


def _bulk_spec(formula, row, family, safety=False, entry=True):
    sp = {'sheets': [{'title': BULK_TITLES[0], 'cells': BASE_CELLS + [[8, row, formula]]},
                     {'title': BULK_TITLES[1], 'cells': [[1, 1, 10], [2, 2, 'x']]}],
          'safety': safety, 'family': family}
    if entry:
        sp['entry'] = [0, 7, row - 1]
    return sp


def _examine_bulk(job):
    """worker: formulas of one family in column H of one workbook, each requested as an entry point on a fresh Parser"""
    R = Res()
    formulas, family = job['formulas'], job['family']
    with lib.scratch() as d:
        spec = {'sheets': [{'title': BULK_TITLES[0], 'cells': BASE_CELLS + [[8, i + 1, f] for i, f in enumerate(formulas)]},
                           {'title': BULK_TITLES[1], 'cells': [[1, 1, 10], [2, 2, 'x']]}], 'safety': False, 'family': family}
        try:
            _write(spec, os.path.join(d, 'wb.xlsx'))
        except Exception as e:  # a formula openpyxl cannot store is not a readable workbook: no clause
            return R.dump()
        for i, f in enumerate(formulas):
            single = _bulk_spec(f, i + 1, family)
            sub = dict(spec, entry=[0, 7, i], deps=[])
            _examine_in(R, sub, d, replay={'kind': 'spec', 'spec': single}, light=True)
    return R.dump()


# ---------------------------------------------------------------------------------------------- deep nesting / long formulas
def _ladder_formula(family, n):
    if family == 'paren':
        return '=' + '(' * n + '1' + ')' * n
    if family == 'if_then':
        return '=' + 'IF(1=1,' * n + '1' + ',2)' * n
    if family == 'if_else':
        return '=' + 'IF(1=2,1,' * n + '2' + ')' * n
    if family == 'sum_call':
        return '=' + 'SUM(' * n + '1' + ')' * n
    if family == 'round_call':
        return '=' + 'ROUND(' * n + '1.5' + ',0)' * n
    if family == 'right_nested':
        return '=' + '1+(' * n + '1' + ')' * n
    if family == 'left_nested':
        return '=' + '(' * n + '1' + '+1)' * n
    if family == 'unary_minus':
        return '=' + '-' * n + '1'
    if family == 'percent':
        return '=1' + '%' * n
    if family == 'plus_chain':
        return '=' + '+'.join(['1'] * n)
    if family == 'concat_chain':
        return '=' + '&'.join(['A1'] * n)
    if family == 'compare_chain':
        return '=' + '='.join(['1'] * n)
    if family == 'sum_args':
        return '=SUM(' + ','.join(['1'] * n) + ')'
    if family == 'concatenate_args':
        return '=CONCATENATE(' + ','.join(['"a"'] * n) + ')'
    if family == 'ifs_pairs':
        return '=IFS(' + ','.join(['1=2,"n"'] * (n - 1) + ['1=1,"y"']) + ')'
    if family == 'long_text':
        return '="' + 'a' * n + '"'
    if family == 'reference_chain':
        return None
    raise ValueError(family)


# family -> sizes inside the limits of Excel itself (64 nesting levels, 255 arguments, 8192 characters per formula)
LADDERS = {
    'paren': [1, 2, 3, 5, 8, 11, 16, 32, 64], 'if_then': [1, 2, 3, 4, 5, 7, 16, 64], 'if_else': [1, 2, 3, 4, 5, 7, 16, 64],
    'sum_call': [1, 2, 3, 4, 6, 16, 64], 'round_call': [1, 2, 3, 4, 5, 8, 16, 64], 'right_nested': [1, 2, 4, 8, 16, 32, 64],
    'left_nested': [1, 2, 4, 8, 16, 32, 64], 'unary_minus': [1, 2, 8, 32, 64, 128, 255], 'percent': [1, 2, 8, 32, 64, 255],
    'plus_chain': [2, 10, 100, 255, 500, 1000, 2000, 4000], 'concat_chain': [2, 10, 100, 255, 1000, 2700],
    'compare_chain': [2, 3, 10, 100, 1000], 'sum_args': [1, 30, 100, 255], 'concatenate_args': [1, 30, 100, 255],
    'ifs_pairs': [1, 2, 10, 60, 127], 'long_text': [1, 255, 1000, 8000], 'reference_chain': [2, 10, 100, 300, 1000, 3000],
}


def _ladder_spec(family, n):
    if family == 'reference_chain':      # A1 = 1, A(k+1) = A(k)+1: a dependency chain of n cells in one column
        cells = [[1, 1, 1]] + [[1, k, f'=A{k - 1}+1'] for k in range(2, n + 1)]
        return {'sheets': [{'title': 'S', 'cells': cells}], 'safety': True, 'family': 'nest.' + family, 'check': 'nesting',
                'strict': True, 'expect': [[0, 0, n - 1, n]], 'entry': [0, 0, n - 1] if n % 2 else None,
                'deps': [[0, 0, k] for k in range(n - 1)]}
    return {'sheets': [{'title': 'S', 'cells': [[1, 1, 3], [2, 1, _ladder_formula(family, n)]]}], 'safety': True,
            'family': 'nest.' + family, 'check': 'nesting', 'strict': True}


def _examine_ladder(job):
    """worker: one family, sizes ascending; stops at the first size that does not terminate within LIMIT"""
    R = Res()
    for n in job['sizes']:
        spec = _ladder_spec(job['family'], n)
        if spec.get('entry') is None:
            spec.pop('entry', None)
            spec.pop('deps', None)
        with lib.scratch() as d:
            before = len(R.fails)
            _examine_in(R, spec, d, replay={'kind': 'spec', 'spec': spec}, light=(n > 300))
            if any(f['key'].startswith('C06.hang') for f in R.fails[before:]):
                break
    return R.dump()
