"""Native replay of a K1 counterexample: run the real function on the decoded arguments and evaluate the whole
contract natively (requires must hold, otherwise the model lies outside the precondition)."""
import copy
import importlib

from pv import codec
from pv.nat import lib
from pv.symspec_native import native_env, native_eval


def _derived(target):
    import ast
    from pv import source_derive
    base, _, what = target.partition('#')
    kind, _, rest = base.partition(':')
    if kind == 'repo':
        relpath, _, qual = rest.partition(':')
        mod = importlib.import_module('excel2pycl.src.' + relpath[:-3].replace('/', '.'))
        import inspect
        tree = ast.parse(inspect.getsource(mod))
        parts = qual.split('.')
        ns = dict(vars(mod))
    else:
        text = lib.render_runtime_text() if kind == 'runtime' else open(lib.abstract_class.__globals__['__file__']).read()
        tree = ast.parse(text)
        parts = (['ExcelInPython'] if kind == 'runtime' else ['AbstractExcelInPython']) + rest.split('.')
        ns = {}
        exec(compile(text, '<rt>', 'exec'), ns)
    body = tree.body
    node = None
    for p_ in parts:
        node = next(n for n in body if isinstance(n, (ast.FunctionDef, ast.ClassDef)) and n.name == p_)
        body = node.body
    new = source_derive.derive(node, what)
    m = ast.Module(body=[new], type_ignores=[])
    ast.fix_missing_locations(m)
    exec(compile(m, '<derived>', 'exec'), ns)
    return ns[new.name], None


def resolve(target, self_val=None):
    """-> (callable taking the non-self args, class or None)"""
    if '#' in target:
        return _derived(target)
    kind, _, rest = target.partition(':')
    if kind == 'repo':
        relpath, _, qual = rest.partition(':')
        mod = importlib.import_module('excel2pycl.src.' + relpath[:-3].replace('/', '.'))
        obj = mod
        owner = None
        for part in qual.split('.'):
            owner, obj = obj, getattr(obj, part)
        return obj, (owner if isinstance(owner, type) else None)
    cls = lib.get_class(kind)
    obj = cls
    owner = None
    for part in rest.split('.'):
        owner, obj = obj, getattr(obj, part)
    return obj, owner


def build_obj(triple, owner_cls, empty):
    _, cname, fields = triple
    cls = owner_cls
    if cname and (cls is None or cls.__name__ != cname):
        for modname in ('excel2pycl.src.excel', 'excel2pycl.src.cell', 'excel2pycl.src.context',
                        'excel2pycl.src.utilities.executor', 'excel2pycl.src.utilities.parser'):
            m = importlib.import_module(modname)
            if hasattr(m, cname):
                cls = getattr(m, cname)
                break
        else:
            if cname in ('ExcelInPython', 'AbstractExcelInPython') and owner_cls is not None:
                cls = owner_cls
    if cls is None:
        cls = type(cname or 'Opaque', (), {})      # an object whose class the contract does not name (passed through only)
    o = object.__new__(cls)
    for k, v in fields.items():
        object.__setattr__(o, k, materialise(v, owner_cls, empty))
    return o


def materialise(v, owner_cls, empty):
    if isinstance(v, tuple) and len(v) == 3 and v[0] == 'Obj':
        return build_obj(v, owner_cls, empty)
    if isinstance(v, list):
        return [materialise(i, owner_cls, empty) for i in v]
    if isinstance(v, dict):
        return {k: materialise(x, owner_cls, empty) for k, x in v.items()}
    return v


def _z3_stub():
    """The replay needs a contract module's texts (target, parameters, clauses) and the Python twins of its spec functions,
    never a solver.  Contract modules that build their z3 vocabulary while the registry is constructed import z3; the
    interpreter of the real code has none, so a stand-in that absorbs every construction is installed for the import."""
    import sys
    try:
        import z3  # noqa
        return
    except ImportError:
        pass
    from unittest import mock

    class _Any(mock.MagicMock):
        def __lt__(self, o): return _Any()
        def __le__(self, o): return _Any()
        def __gt__(self, o): return _Any()
        def __ge__(self, o): return _Any()
        def __eq__(self, o): return _Any()
        def __ne__(self, o): return _Any()
        __hash__ = mock.MagicMock.__hash__
    sys.modules['z3'] = _Any()


def replay(payload):
    _z3_stub()
    from pv.contract import load_registry
    reg = load_registry(payload['module'])
    con = reg.contracts[payload['contract']]
    fn, owner = resolve(con.target)
    kind = con.target.split(':')[0]
    rt_cls = lib.get_class(kind) if kind in ('runtime', 'abstract') else lib.runtime_class()
    Empty = rt_cls.EmptyCell
    args = {}
    for p in con.params:
        v = codec.dec(payload['args'].get(p), make_empty=Empty, make_cell=lib.make_cell)
        args[p] = materialise(v, owner if p == 'self' else None, Empty)
    if 'self' in args and kind in ('runtime', 'abstract') and not isinstance(args['self'], rt_cls):
        inst = rt_cls()
        if hasattr(args['self'], '__dict__'):
            inst.__dict__.update(args['self'].__dict__)
        args['self'] = inst
    if kind in ('runtime', 'abstract') and owner is not None and owner is not rt_cls and 'self' in args:
        # method of a nested class (EmptyCell)
        args['self'] = owner()
    env = native_env(reg.specfns, Empty)
    old = copy.deepcopy(args)
    lines = []
    try:
        pre_ok = all(native_eval(r, env, args, old) for r in con.requires)
    except Exception as e:  # noqa
        return {'fails': False, 'text': f'precondition not evaluable natively on the model: {e!r}'}
    if not pre_ok:
        return {'fails': False, 'text': 'decoded model does not satisfy the precondition natively (model artefact)'}
    raise_expect = {}
    for exc, cond in con.raises.items():
        try:
            raise_expect[exc] = bool(native_eval(cond, env, args, old))
        except Exception as e:  # noqa
            raise_expect[exc] = None
    call_args = [args[p] for p in con.params]
    if isinstance(__import__('inspect').getattr_static(owner, fn.__name__, None) if owner else None, (staticmethod,)):
        call_args = [args[p] for p in con.params if p != 'self']
    r = lib.call_catch(fn, *call_args)
    fails = False
    shown = {p: codec.enc(old[p], is_empty=lambda x: isinstance(x, Empty)) for p in con.params if p != 'self'}
    lines.append(f'{con.target}({shown}) -> {codec.enc(r, is_empty=lambda x: isinstance(x, Empty))!r}')
    if isinstance(r, codec.Raised):
        listed = [e for e in con.raises if r.isa(e)]
        if listed:
            if raise_expect[listed[0]] is False:
                fails = True
                lines.append(f'raised {r.cls} although its condition is false: {con.raises[listed[0]]}')
        elif not any(r.isa(e) for e in con.free_exceptions):
            fails = True
            lines.append(f'raised {r.cls}: {r.msg}, which the contract does not allow')
    else:
        for exc, exp in raise_expect.items():
            if exp:
                fails = True
                lines.append(f'returned normally although {exc} is required: {con.raises[exc]}')
        vals = dict(args)
        vals['result'] = r
        for cname, text in con.ensures.items():
            try:
                ok = bool(native_eval(text, env, vals, old))
            except Exception as e:  # noqa
                ok = False
                lines.append(f'clause {cname} raised natively: {e!r}')
            if not ok:
                fails = True
                lines.append(f'clause {cname} is false: {text}')
    return {'fails': fails, 'text': '; '.join(lines)}
