"""K2: the real openpyxl column_index_from_string on its whole domain."""
import itertools
import string


def colnum(s):
    n = 0
    for ch in s:
        n = n * 26 + (ord(ch) - 64)
    return n


def column_letters():
    from openpyxl.utils import column_index_from_string
    bad, n = [], 0
    for L in (1, 2, 3):
        for t in itertools.product(string.ascii_uppercase, repeat=L):
            s = ''.join(t)
            n += 1
            try:
                v = column_index_from_string(s)
            except Exception as e:  # noqa
                v = repr(e)
            if v != colnum(s):
                bad.append([s, v, colnum(s)])
    try:
        column_index_from_string('AAAA')
        bad.append(['AAAA', 'accepted', 'rejected'])
    except ValueError:
        pass
    return {'n': n, 'bad': bad[:20]}
