"""K4 bounded monitor for C04 (overrides mean edit-the-cell-and-recalculate; the last write wins).

Runs under /venv/bin/python on the real code.  Contract monitored, taken from the property statement:

  ov(history)  = left fold of all set_cells batches, the most recently supplied constant per cell (own canonical
                 addressing: letters -> index, '7' -> row index 6, title -> position);
  edited(W,ov) = workbook W in which every cell of ov holds that constant (the empty text is written as ="");
  after every step of the history, Executor.get_cell(c).value  ==  value of c in a FRESH translation of edited(W, ov)

plus three clauses that need no second translation: reading an overridden cell returns exactly the supplied constant,
a cell whose formula does not (transitively, by an own reference extractor) read an overridden cell keeps the value it has
without overrides, and sums of exactly representable numbers follow ordinary arithmetic.
"""
import copy
import datetime
import itertools
import json
import multiprocessing
import os
import random
import re
import subprocess
import sys
import time

from pv import codec
from pv.nat import lib

DT = datetime.datetime
INF = 10 ** 9


# ----------------------------------------------------------------------------------------------- addressing (own)
def col_index(letters):
    n = 0
    for ch in letters.upper():
        n = n * 26 + (ord(ch) - 64)
    return n - 1


def col_letters(idx):
    idx += 1
    s = ''
    while idx:
        idx, r = divmod(idx - 1, 26)
        s = chr(65 + r) + s
    return s


def canon(titles, title, col, row):
    """(sheet index, 0-based column, 0-based row) of an address in any of the accepted spellings."""
    s = titles.index(title) if isinstance(title, str) else title
    c = col_index(col) if isinstance(col, str) else col
    r = int(row) - 1 if isinstance(row, str) else row
    return (s, c, r)


def spell(titles, cell, style):
    """address of a canonical cell in one of the spellings the API accepts"""
    s, c, r = cell
    if style == 'num':
        return [s, c, r]
    if style == 'a1':
        return [titles[s], col_letters(c), str(r + 1)]
    if style == 'a1idx':
        return [s, col_letters(c), str(r + 1)]
    if style == 'namenum':
        return [titles[s], c, r]
    if style == 'lower':
        return [titles[s], col_letters(c).lower(), str(r + 1)]
    if style == 'mixed':
        return [s, col_letters(c), r]
    raise ValueError(style)


STYLES = ['num', 'a1', 'a1idx', 'namenum', 'mixed', 'lower']


def a1(titles, cell):
    return f'{titles[cell[0]]}!{col_letters(cell[1])}{cell[2] + 1}'


# ----------------------------------------------------------------------------------------------- values
def is_empty(v):
    return type(v).__name__ == 'EmptyCell'


def norm(v):
    """JSON-able normal form used for comparison: exceptions by class, blank as $e, floats by repr, exact types."""
    if isinstance(v, codec.Raised):
        return {'$exc': v.cls}
    if isinstance(v, float) and v == v and abs(v) < 2 ** 53 and v == int(v):
        return int(v)        # a workbook cannot tell 2.0 from 2 (one number type): numbers are compared by exact value
    return codec.enc(v, is_empty=is_empty)


BLANK = {'$e': 1}      # the library's own blank value (ExcelInPython.EmptyCell()): the edited workbook has no cell there


def dec_val(ev, Empty):
    return Empty() if ev == BLANK else codec.dec(ev)


def differ(a, b):
    """strict comparison of normal forms: True is not 1, 'a' is not ['a']"""
    return json.dumps(a, sort_keys=True) != json.dumps(b, sort_keys=True)


def norm_enc(ev):
    return BLANK if ev == BLANK else norm(codec.dec(ev))


def show(j):
    if isinstance(j, dict):
        if '$e' in j:
            return 'blank'
        if '$exc' in j:
            return 'raises ' + j['$exc']
        if '$f' in j:
            return j['$f']
        if '$dt' in j:
            return 'datetime' + repr(tuple(j['$dt'][:6]))
    return repr(j)


F = lambda x: {'$f': repr(float(x))}  # noqa
VALS_QUICK = [0, F(0.0), False, '', 1, True, 2, F(2.5), -3, 'x', 'y', 'text', '7', {'$dt': [2020, 1, 1, 0, 0, 0, 0]},
              F(123456789.25), 10 ** 15, '#N/A', F(1.5), 'L' * 60, {'$dt': [2051, 1, 1, 0, 0, 0, 0]}]
VALS_MORE = [BLANK, {'$dt': [2024, 2, 29, 12, 0, 0, 0]}, F(-0.0), F(1e-9), 'X', '>1', 3,
             F(2.0), 'z']
FALSY = [0, F(0.0), False, '']
NUMS_EXACT = [0, 1, 2, -3, 7, 10 ** 15, F(0.5), F(1.5), F(2.5), F(-0.25), F(0.0)]


def is_integral_float(ev):
    return isinstance(ev, dict) and '$f' in ev and float(ev['$f']) == int(float(ev['$f']))


def is_falsy(ev):
    return any(ev == f and type(ev) is type(f) for f in FALSY)


# ----------------------------------------------------------------------------------------------- workbooks
def core_workbook():
    S = [['A', 1, 1], ['A', 2, 2], ['A', 4, F(1.5)], ['B', 1, 'x'], ['B', 2, 'y'], ['B', 4, 'z'], ['C', 1, 2], ['C', 2, 'y'],
         ['D', 1, '=SUM(A1:A5)'], ['D', 2, '=A1+A2'], ['D', 3, '=1/0'], ['D', 4, '=D3+1'],
         ['D', 5, '=VLOOKUP(2,A1:B5,2,FALSE)'], ['D', 6, '=SUMIF(A1:A5,C1,A1:A5)'], ['D', 7, '=Data!A1+A1'], ['D', 8, '=H200'],
         ['D', 9, '=IF(A3="","blank","set")'], ['D', 10, '=IFERROR(D3,-1)'], ['D', 11, '=SUM(A:A)'], ['D', 12, '=D2*2'],
         ['D', 13, '=COUNT(A1:A5)'], ['D', 14, '=MAX(A1:A5)'], ['D', 15, '=INDEX(A1:B5,2,2)'], ['D', 16, '=MATCH(1.5,A1:A5,0)'],
         ['D', 17, '=COUNTIFS(A1:A5,">1")'], ['D', 18, '=AVERAGE(A1:A5)'], ['D', 19, '=MIN(A1:A5)'], ['D', 20, '=IF(A1>1,A2,B1)'],
         ['D', 21, '=COUNTBLANK(A1:A5)'], ['D', 22, '=SUMIFS(A1:A5,B1:B5,C2)'], ['D', 23, '=AAA1+A150'],
         ['D', 24, '=SUM(A1:A5,Data!A1:A2)'], ['D', 25, '=A1&B1']]
    D = [['A', 1, 10], ['A', 2, 20], ['D', 2, '=A1+A2'], ['B', 1, '=S!A1*2'], ['B', 2, '=SUM(S!A1:A5)'], ['C', 2, '=D2*2']]
    return {'sheets': [{'title': 'S', 'cells': S}, {'title': 'Data', 'cells': D}]}


# (address, class) -- the override targets of the exhaustive sweeps on the core workbook
CORE_TARGETS = [
    ('S!A1', 'const'), ('S!A2', 'const'), ('S!B2', 'const'), ('S!C1', 'const'), ('S!C2', 'const'), ('Data!A1', 'const'),
    ('S!D2', 'formula'), ('S!D3', 'formula_raising'), ('S!D1', 'formula'), ('Data!D2', 'formula'), ('Data!B1', 'formula'),
    ('S!D4', 'formula_raising'),
    ('S!A3', 'blank_in_area'), ('S!A5', 'blank_in_area'), ('S!B3', 'blank_in_area'), ('S!A7', 'blank_in_used'),
    ('S!A25', 'blank_in_used'),
    ('S!A26', 'beyond_used'), ('S!E1', 'beyond_used'), ('S!H200', 'beyond_used'), ('S!A150', 'beyond_used'),
    ('S!AAA1', 'beyond_used'), ('S!A1500', 'beyond_used'), ('Data!A3', 'beyond_used'), ('Data!E7', 'beyond_used')]

REF = re.compile(r"(?:(?P<t>[A-Za-z_][A-Za-z0-9_]*)!)?(?P<c1>[A-Z]{1,3})(?P<r1>\d+)?(?::(?P<c2>[A-Z]{1,3})(?P<r2>\d+)?)?(?![A-Za-z(!])")


def areas_of(formula, sheet, titles):
    """own reference extractor: the rectangles (s, c0, r0, c1, r1) a formula text reads (r1 = INF for whole columns)"""
    text = re.sub(r'"[^"]*"', '""', formula)
    out = []
    for m in REF.finditer(text):
        if m.start() > 0 and (text[m.start() - 1].isalnum() or text[m.start() - 1] in '_!'):
            continue
        if m.group('r1') is None and m.group('c2') is None:
            continue                                              # a bare word (function name, TRUE, FALSE)
        s = titles.index(m.group('t')) if m.group('t') else sheet
        c0 = col_index(m.group('c1'))
        if m.group('r1') is None:                                 # A:B
            out.append((s, c0, 0, col_index(m.group('c2')), INF))
            continue
        r0 = int(m.group('r1')) - 1
        if m.group('c2') is None:
            out.append((s, c0, r0, c0, r0))
        else:
            out.append((s, c0, r0, col_index(m.group('c2')), int(m.group('r2')) - 1))
    return out


class Book:
    """Own model of a workbook spec: canonical cell map, classes of cells, dependency relation."""

    def __init__(self, spec):
        self.spec = spec
        self.titles = [s['title'] for s in spec['sheets']]
        self.cells = {}
        for si, sh in enumerate(spec['sheets']):
            for col, row, val in sh['cells']:
                c = col_index(col) if isinstance(col, str) else col - 1
                self.cells[(si, c, row - 1)] = val
        self.dims = []
        for si in range(len(self.titles)):
            own = [k for k in self.cells if k[0] == si]
            self.dims.append((max([k[2] for k in own], default=-1) + 1, max([k[1] for k in own], default=-1) + 1))
        self.areas = {k: areas_of(v, k[0], self.titles) for k, v in self.cells.items() if self.is_formula(v)}
        self._dep = {}

    @staticmethod
    def is_formula(v):
        return isinstance(v, str) and v.startswith('=')

    def parse(self, address):
        t, rest = address.split('!')
        m = re.fullmatch(r'([A-Z]+)(\d+)', rest)
        return (self.titles.index(t), col_index(m.group(1)), int(m.group(2)) - 1)

    def klass(self, cell):
        v = self.cells.get(cell)
        if v is not None:
            return 'formula' if self.is_formula(v) else 'const'
        rows, cols = self.dims[cell[0]]
        if cell[2] >= rows or cell[1] >= cols:
            return 'beyond_used'
        for ar in itertools.chain.from_iterable(self.areas.values()):
            if ar[0] == cell[0] and ar[1] <= cell[1] <= ar[3] and ar[2] <= cell[2] <= ar[4] and (ar[1], ar[2]) != (ar[3], ar[4]) \
                    and ar[4] != INF:
                return 'blank_in_area'
        return 'blank_in_used'

    def depends(self, cell, target, edits=()):
        """does `cell` (transitively) read `target` in the workbook whose cells in `edits` are constants"""
        key = (cell, target, tuple(sorted(edits)))
        if key in self._dep:
            return self._dep[key]
        self._dep[key] = False
        res = False
        if cell not in edits:
            for (s, c0, r0, c1, r1) in self.areas.get(cell, ()):
                if s == target[0] and c0 <= target[1] <= c1 and r0 <= target[2] <= r1:
                    res = True
                    break
                for other in self.areas:
                    if other[0] == s and c0 <= other[1] <= c1 and r0 <= other[2] <= r1 and other != cell and \
                            self.depends(other, target, edits):
                        res = True
                        break
                if res:
                    break
        self._dep[key] = res
        return res

    def edited(self, edits):
        """the workbook in which every cell of `edits` (canonical cell -> encoded constant) holds that constant"""
        cells = dict(self.cells)
        for k, ev in edits.items():
            cells[k] = '=""' if ev == '' else ev
            if ev == BLANK:
                cells.pop(k)
        sheets = [{'title': t, 'cells': []} for t in self.titles]
        for (s, c, r), v in sorted(cells.items()):
            sheets[s]['cells'].append([c + 1, r + 1, v])
        return {'sheets': sheets}

    def shape(self, cell):
        """coarse description of a probe cell for root-cause keys"""
        v = self.cells.get(cell)
        if v is None:
            return 'blank'
        if not self.is_formula(v):
            return 'const'
        m = re.match(r'=([A-Z]+)\(', v)
        head = m.group(1) if m else 'expr'
        if any(ar[4] == INF for ar in self.areas.get(cell, ())):
            head += '[whole-column]'
        return head


def gen_workbook(rng):
    """the generator of workbooks: 2-3 sheets, constants of every kind with blanks and duplicates in A1:C6, formula cells in
    E/F reading cells, areas, whole columns, other sheets, blank cells, cells beyond the used range and earlier formulas;
    sheet 1 repeats formula texts of sheet 0 (same text, same unqualified references, different cells)."""
    titles = ['S', 'Data'] + (['T2'] if rng.random() < 0.3 else [])
    num = [0, 1, 2, 3, 5, 2, F(0.5), F(1.5), F(2.25), 10, -1]
    txt = ['x', 'y', 'z', 'x', '7', 'Text']
    other = [True, False, {'$dt': [2020, 1, 1, 0, 0, 0, 0]}, {'$dt': [2024, 2, 29, 0, 0, 0, 0]}]
    sheets = []
    for si, t in enumerate(titles):
        cells = []
        for r in range(1, 7):
            for ci, col in enumerate('ABC'):
                if rng.random() < 0.3:
                    continue
                pool = num if ci == 0 else (txt if ci == 1 else num + txt + other)
                if rng.random() < 0.15:
                    pool = num + txt + other
                cells.append([col, r, rng.choice(pool)])
        sheets.append({'title': t, 'cells': cells})

    def ref():
        return f'{rng.choice("ABC")}{rng.randint(1, 7)}'

    def xref(si):
        o = rng.choice([i for i in range(len(titles)) if i != si])
        return f'{titles[o]}!{rng.choice("ABC")}{rng.randint(1, 7)}'

    def vrange():
        c = rng.choice('ABC')
        a = rng.randint(1, 3)
        return f'{c}{a}:{c}{rng.randint(a + 1, 8)}'

    def formulas_for(si, n):
        out = []
        for i in range(n):
            prev = [f'E{j + 1}' for j in range(len(out))]
            k = rng.randrange(22)
            fref = rng.choice(prev) if prev else ref()
            if k == 0:
                f = f'={ref()}+{ref()}'
            elif k == 1:
                f = f'={fref}*2'
            elif k == 2:
                f = f'=IF({ref()}>{ref()},{ref()},{fref})'
            elif k == 3:
                f = f'=SUM({vrange()})'
            elif k == 4:
                c1, c2 = sorted([rng.choice('ABC'), rng.choice('ABC')])
                f = f'=SUM({c1}:{c2})'
            elif k == 5:
                f = f'=VLOOKUP({ref()},A1:C6,{rng.choice([2, 3])},FALSE)'
            elif k == 6:
                f = f'=SUMIF(A1:A6,{ref()},C1:C6)'
            elif k == 7:
                f = f'=COUNTIFS({vrange()},">1")'
            elif k == 8:
                f = f'=IFERROR({fref},"err")'
            elif k == 9:
                f = f'=1/{ref()}'
            elif k == 10:
                f = f'={xref(si)}+{ref()}'
            elif k == 11:
                f = f'=MAX({vrange()})'
            elif k == 12:
                f = f'=COUNT(A1:C6)'
            elif k == 13:
                f = f'=AVERAGE({vrange()})'
            elif k == 14:
                f = f'=INDEX(A1:C6,{rng.randint(1, 6)},{rng.randint(1, 3)})'
            elif k == 15:
                f = f'=MATCH({ref()},{vrange()},0)'
            elif k == 16:
                f = f'=COUNTBLANK({vrange()})'
            elif k == 17:
                f = f'={rng.choice(["H200", "A150", "AB3", "C9"])}'
            elif k == 18:
                f = f'={ref()}&{ref()}'
            elif k == 19:
                f = f'=SUM({vrange()},{xref(si)})'
            elif k == 20:
                f = f'=IF({ref()}="","blank",{ref()})'
            else:
                f = f'={fref}+{fref}'
            out.append(f)
        return out

    first = formulas_for(0, rng.randint(4, 8))
    for si in range(len(titles)):
        fs = first if si == 0 else [f if ('!' not in f and rng.random() < 0.6) else None for f in first]
        if si > 0:
            fresh_fs = formulas_for(si, len(fs))
            fs = [f if f is not None else g for f, g in zip(fs, fresh_fs)]
            # a repeated text must not read a later formula of its own column
            fs = [f if all(int(n) <= i for n in re.findall(r'\bE(\d+)\b', f)) else f'={rng.choice("ABC")}{i + 1}+1'
                  for i, f in enumerate(fs)]
        for i, f in enumerate(fs):
            sheets[si]['cells'].append(['E', i + 1, f])
    return {'sheets': sheets}


# ----------------------------------------------------------------------------------------------- running histories
def abstract_twin(cls):
    """the same cell methods on top of the importable AbstractExcelInPython (the second copy of the runtime)"""
    Abs = lib.get_class('abstract')
    inst = cls()
    titles, sizes = dict(inst.get_titles()), copy.deepcopy(inst.get_sheets_size())
    common = set(lib.get_class('runtime').__dict__)        # everything the translation adds to the bare runtime
    ns = {k: v for k, v in cls.__dict__.items() if k not in common}

    def __init__(self, arguments=None):
        Abs.__init__(self, arguments)
        self._titles = dict(titles)
        self._sheets_size = copy.deepcopy(sizes)
    ns['__init__'] = __init__
    return type('ExcelInPython', (Abs,), ns)


class Env:
    """One workbook under one translation mode inside one worker: base class + cache of fresh translations."""

    def __init__(self, spec, entry, tmpdir, runtime='generated'):
        self.book = Book(spec)
        self.entry = entry
        self.tmp = tmpdir
        self.base = lib.Pipe(spec, tmpdir, entry=tuple(entry) if entry else None, name='base.xlsx')
        self.error = self.base.error
        self.cls = None
        if self.error is None:
            self.cls = abstract_twin(self.base.cls) if runtime == 'abstract' else self.base.cls
        self.fresh = {}
        self.n_fresh = 0
        self._twin = None

    def twin(self):
        if self._twin is None:
            self._twin = abstract_twin(self.base.cls)
        return self._twin

    def executor(self):
        from excel2pycl import Executor
        return Executor().set_executed_class(class_object=self.cls)

    def expected(self, edits, probes):
        """values of `probes` in a fresh translation of the edited workbook: {probe: normal form}, plus slice membership"""
        key = json.dumps(sorted([list(k), v] for k, v in edits.items()), sort_keys=True)
        ent = self.fresh.get(key)
        if ent is None:
            self.n_fresh += 1
            p = lib.Pipe(self.book.edited(edits), self.tmp, entry=tuple(self.entry) if self.entry else None, name='fresh.xlsx')
            ent = {'pipe': p, 'vals': {}, 'error': p.error}
            self.fresh[key] = ent
            if len(self.fresh) > 400:
                self.fresh.pop(next(iter(self.fresh)))
        if ent['error'] is not None:
            return None, ent['error']
        out = {}
        for pr in probes:
            if pr not in ent['vals']:
                v = norm(ent['pipe'].value(pr[0], pr[1], pr[2]))
                in_slice = True
                if self.entry:
                    in_slice = hasattr(ent['pipe'].cls, f'_{pr[0]}_{pr[1]}_{pr[2]}')
                ent['vals'][pr] = (v, in_slice)
            out[pr] = ent['vals'][pr]
        return out, None


def default_probes(book, extra=()):
    probes = list(book.cells)
    for s, (rows, cols) in enumerate(book.dims):
        probes += [(s, 0, 2), (s, 0, rows), (s, cols, 0), (s, 1, 2)]
    for e in extra:
        probes.append(tuple(e))
    seen, out = set(), []
    for p in probes:
        if p not in seen:
            seen.add(p)
            out.append(p)
    return out


def observe(ex, titles, probe, style, via='get_cell', grids=None):
    from excel2pycl import Cell
    t, c, r = spell(titles, probe, style)
    if via == 'get_cells':
        res = lib.call_catch(ex.get_cells, [Cell(t, c, r)])
        return res if isinstance(res, codec.Raised) else res[0].value
    if via == 'get_sheet' and grids is not None:
        g = grids.get(probe[0])
        if g is not None and not isinstance(g, codec.Raised) and probe[2] < len(g) and probe[1] < len(g[probe[2]]):
            cell = g[probe[2]][probe[1]]
            if (cell.title, cell.column, cell.row) != probe:
                return codec.Raised('WrongCellInSheetView', repr(cell))
            return cell.value
    res = lib.call_catch(ex.get_cell, Cell(t, c, r))
    return res if isinstance(res, codec.Raised) else res.value


def run_history(env, hist, probes=None, want_trace=False):
    """Executes one history on a new Executor over the base translation and checks every clause after every query step.
    hist = {'steps': [{'op': 'set', 'cells': [[title, col, row, enc value, object id or None], ...]} | {'op': 'get'}],
            'qstyle': spelling used for queries, 'via': 'get_cell' | 'get_cells' | 'get_sheet', 'probes': extra probes}
    returns {'evals', 'nontrivial', 'mismatches': [...], 'trace': [...]}"""
    from excel2pycl import Cell
    book = env.book
    titles = book.titles
    ex = env.executor()
    plain = env.executor()                                   # the same translation without overrides: workbook meaning
    edits, objs = {}, {}
    res = {'evals': 0, 'nontrivial': 0, 'mismatches': [], 'trace': []}
    qstyle = hist.get('qstyle', 'num')
    via = hist.get('via', 'get_cell')
    targets = [canon(titles, *c[:3]) for st in hist['steps'] if st['op'] == 'set' for c in st['cells']]
    if probes is None:
        probes = default_probes(book, list(targets) + [tuple(p) for p in hist.get('probes', [])])
    for si, st in enumerate(hist['steps']):
        if st['op'] == 'reset':
            # the executor object is given an executed class again (the same class, or its twin on the other runtime copy):
            # a new executed instance starts without overrides, the history starts again
            ex.set_executed_class(class_object=env.twin() if st.get('twin') else env.cls)
            edits, objs = {}, {}
            continue
        if st['op'] == 'set':
            batch = []
            for ent in st['cells']:
                t, c, r, ev = ent[:4]
                oid = ent[4] if len(ent) > 4 else None
                val = dec_val(ev, type(ex.get_executed_class()).EmptyCell)
                if oid is not None and oid in objs:
                    cell = objs[oid]                         # the caller re-uses his Cell object with a new value
                    cell.value = val
                else:
                    cell = Cell(t, c, r, val)
                    if oid is not None:
                        objs[oid] = cell
                batch.append(cell)
                edits[canon(titles, t, c, r)] = ev            # ghost view: last write wins
            out = lib.call_catch(ex.set_cells, batch)
            if isinstance(out, codec.Raised):
                res['evals'] += 1
                res['mismatches'].append({'step': si, 'probe': None, 'kind': 'set_cells_raises', 'got': norm(out), 'exp': None,
                                          'edits': sorted([list(k), v] for k, v in edits.items())})
                return res
            continue
        exp, err = env.expected(edits, probes)
        if err is not None:
            res['evals'] += 1
            res['mismatches'].append({'step': si, 'probe': None, 'kind': 'fresh_translation_fails', 'got': None, 'exp': norm(err),
                                      'edits': sorted([list(k), v] for k, v in edits.items())})
            return res
        grids = None
        if via == 'get_sheet':
            grids = {}
            for s in range(len(titles)):
                sz = ex.get_executed_class().get_sheets_size()[s]
                if sz.get('last_row', 0) * sz.get('last_column', 0) <= 4000:
                    grids[s] = lib.call_catch(ex.get_sheet, titles[s] if si % 2 else s)
        step_mm = []
        for pr in probes:
            e, in_slice = exp[pr]
            if not in_slice and pr not in edits:
                continue                                      # outside the entry cell's slice: no clause
            if not in_slice:
                e = norm_enc(edits[pr])                # overridden, outside the slice: only the supplied constant
            got = norm(observe(ex, titles, pr, qstyle, via, grids))
            base = norm(observe(plain, titles, pr, 'num'))
            res['evals'] += 1
            if differ(e, base) or pr in edits:
                res['nontrivial'] += 1
            if want_trace:
                res['trace'].append([si, list(pr), got])
            kind = None
            if differ(got, e):
                kind = 'differs_from_fresh_translation'
            if pr in edits:
                if differ(got, norm_enc(edits[pr])):
                    kind = 'overridden_cell_not_the_supplied_constant'
                    e = norm_enc(edits[pr])
            elif not env.entry and not any(book.depends(pr, t) for t in edits) and differ(got, base):
                kind = 'unrelated_cell_changed'
                e = base
            if kind:
                step_mm.append({'step': si, 'probe': list(pr), 'kind': kind, 'got': got, 'exp': e,
                                'edits': sorted([list(k), v] for k, v in edits.items())})
        # a wrong cell makes its readers wrong: keep the roots only
        bad = {tuple(m['probe']) for m in step_mm}
        for m in step_mm:
            pr = tuple(m['probe'])
            if pr in edits or not any(o != pr and book.depends(pr, o, tuple(edits)) for o in bad):
                res['mismatches'].append(m)
    return res


def key_of(book, mm, entry=False):
    if mm['probe'] is None:
        return f'C04.{mm["kind"]}'
    pr = tuple(mm['probe'])
    edits = {tuple(k): v for k, v in mm['edits']}
    if pr in edits:
        return f'C04.direct_read.{book.klass(pr)}'
    infl = sorted({book.klass(t) for t in edits if book.depends(pr, t, ())}) or sorted({book.klass(t) for t in edits})
    if mm['kind'] == 'unrelated_cell_changed':
        return f'C04.unrelated.{book.shape(pr)}.after_override_of_{"+".join(infl)}'
    return f'C04.dependent.{book.shape(pr)}.reads_{"+".join(infl)}' + ('.entry_point' if entry else '')


def describe(book, hist, mm):
    steps = []
    for st in hist['steps']:
        if st['op'] == 'set':
            steps.append('set_cells[' + ', '.join(f'Cell({c[0]!r},{c[1]!r},{c[2]!r})={show(c[3])}' for c in st['cells']) + ']')
        elif st['op'] == 'reset':
            steps.append('set_executed_class(' + ('twin class' if st.get('twin') else 'same class') + ')')
        else:
            steps.append('get')
    if mm['probe'] is None:
        return f'{" ; ".join(steps)} -> {mm["kind"]}: {show(mm["got"]) if mm["got"] is not None else show(mm["exp"])}'
    pr = tuple(mm['probe'])
    f = book.cells.get(pr)
    return (f'{" ; ".join(steps)} -> {a1(book.titles, pr)}{" " + f if isinstance(f, str) and f.startswith("=") else ""} reports '
            f'{show(mm["got"])}, expected {show(mm["exp"])} ({mm["kind"]}, step {mm["step"]})')


def _job(job):
    """top-level pool worker: one workbook + translation mode, many histories"""
    t0 = time.process_time()
    out = {'check': job['check'], 'evals': 0, 'nontrivial': 0, 'fails': [], 'samples': [], 'histories': 0, 'skipped': 0,
           'fresh': 0}
    with lib.scratch() as d:
        env = Env(job['wb'], job.get('entry'), d, job.get('runtime', 'generated'))
        if env.error is not None:
            out['skipped'] = len(job['histories'])
            out['base_error'] = repr(env.error)
            return out
        seen = set()
        for hist in job['histories']:
            try:
                r = run_history(env, hist)
            except Exception as e:  # noqa  (a crash inside the library outside the guarded calls)
                r = {'evals': 1, 'nontrivial': 0, 'trace': [],
                     'mismatches': [{'step': -1, 'probe': None, 'kind': f'crash_{type(e).__name__}', 'got': {'$exc': type(e).__name__},
                                     'exp': None, 'edits': []}]}
            out['histories'] += 1
            out['evals'] += r['evals']
            out['nontrivial'] += r['nontrivial']
            for mm in r['mismatches']:
                key = key_of(env.book, mm, bool(job.get('entry')))
                if job.get('runtime') == 'abstract':
                    key += '.abstract_runtime'
                if key in seen:
                    continue
                seen.add(key)
                out['fails'].append({'key': key, 'what': describe(env.book, hist, mm),
                                     'replay': {'kind': 'history', 'wb': job['wb'], 'entry': job.get('entry'),
                                                'runtime': job.get('runtime', 'generated'), 'history': hist, 'probe': mm['probe'],
                                                'mkind': mm['kind']}})
            if len(out['samples']) < 1 and r['evals']:
                out['samples'].append({'history': describe(env.book, hist, {'probe': None, 'kind': f'{r["evals"]} cells compared',
                                                                            'got': None, 'exp': r['nontrivial']})})
        out['fresh'] = env.n_fresh
    out['seconds'] = time.process_time() - t0
    return out


# ----------------------------------------------------------------------------------------------- replay / shrinking
def _check_payload(payload):
    """re-runs the payload's history; returns the mismatch for the payload's probe (or any mismatch if no probe)"""
    with lib.scratch() as d:
        env = Env(payload['wb'], payload.get('entry'), d, payload.get('runtime', 'generated'))
        if env.error is not None:
            return None, f'base translation fails: {env.error!r}', None
        probes = None
        if payload.get('probe') is not None:
            probes = [tuple(payload['probe'])]
        r = run_history(env, payload['history'], probes=probes)
        mms = [m for m in r['mismatches'] if payload.get('mkind') in (None, m['kind'])]
        if not mms:
            return None, 'no mismatch: ' + describe(env.book, payload['history'], {'probe': None, 'kind': 'ok', 'got': None, 'exp': 0}), env.book
        mm = mms[0]
        key = key_of(env.book, mm, bool(payload.get('entry')))
        if payload.get('runtime') == 'abstract':
            key += '.abstract_runtime'
        return mm, describe(env.book, payload['history'], mm), (env.book, key)


def _shrink(fail):
    """greedy minimisation of a failing history (drop steps, drop cells of a batch) that keeps the same kind of mismatch on
    the same cell; the root-cause key is recomputed from the minimal history"""
    payload = fail['replay']
    mm, text, info = _check_payload(payload)
    if mm is None:
        fail = dict(fail)
        fail['what'] = 'NOT REPRODUCED ' + fail['what']
        return fail
    key0 = info[1]
    cur = copy.deepcopy(payload)
    changed = True
    budget = 60
    while changed and budget > 0:
        changed = False
        steps = cur['history']['steps']
        cands = []
        for i in range(len(steps) - 1):
            cands.append(('step', i))
        for i, st in enumerate(steps):
            if st['op'] == 'set' and len(st['cells']) > 1:
                for j in range(len(st['cells'])):
                    cands.append(('cell', i, j))
        for cnd in cands:
            budget -= 1
            if budget <= 0:
                break
            trial = copy.deepcopy(cur)
            ts = trial['history']['steps']
            if cnd[0] == 'step':
                del ts[cnd[1]]
            else:
                del ts[cnd[1]]['cells'][cnd[2]]
            m2, t2, i2 = _check_payload(trial)
            if m2 is not None:
                cur, text, key0, changed = trial, t2, i2[1], True
                break
    # simplest spelling / view that still fails
    for field, simple in (('qstyle', 'num'), ('via', 'get_cell')):
        if cur['history'].get(field, simple) != simple:
            trial = copy.deepcopy(cur)
            trial['history'][field] = simple
            m2, t2, i2 = _check_payload(trial)
            if m2 is not None:
                cur, text, key0 = trial, t2, i2[1]
    # integral floats (2.0, 0.0): does the mismatch need them?  if not, the witness uses the int
    for st in cur['history']['steps']:
        for ent in st.get('cells', []):
            if is_integral_float(ent[3]):
                keep = ent[3]
                ent[3] = int(float(keep['$f']))
                m2, t2, i2 = _check_payload(cur)
                if m2 is not None:
                    text, key0 = t2, i2[1]
                else:
                    ent[3] = keep
    if any(is_integral_float(ent[3]) for st in cur['history']['steps'] for ent in st.get('cells', [])):
        key0 = 'C04.integral_float_constant.' + key0.split('.', 2)[2].split('.reads_')[0]
    return {'key': key0, 'what': text, 'replay': cur}


def replay(payload):
    k = payload.get('kind')
    if k == 'history':
        mm, text, _ = _check_payload(payload)
        return {'fails': mm is not None, 'text': text}
    if k == 'hashseed':
        r = _hashseed_compare(payload['wb'], payload['histories'], [payload['seed']])
        return {'fails': bool(r['fails']), 'text': r['fails'][0]['what'] if r['fails'] else
                f'PYTHONHASHSEED={payload["seed"]}: {r["evals"]} observations equal the expected trace'}
    if k == 'arith':
        f = _arith_job([(payload['a1'], payload['a2'], payload['d1'])])['fails']
        return {'fails': bool(f), 'text': f[0]['what'] if f else 'arithmetic of the dependants is exact'}
    return {'fails': False, 'text': 'nothing to replay'}


# ----------------------------------------------------------------------------------------------- hash seeds
def _hash_child():
    """entry of the PYTHONHASHSEED sub-process: run the histories, print the observed traces"""
    req = json.loads(sys.stdin.read())
    out = []
    with lib.scratch() as d:
        env = Env(req['wb'], None, d)
        book = env.book
        from excel2pycl import Cell
        for hist in req['histories']:
            ex = env.executor()
            objs = {}
            trace = []
            targets = [canon(book.titles, *c[:3]) for st in hist['steps'] if st['op'] == 'set' for c in st['cells']]
            probes = default_probes(book, targets)
            for si, st in enumerate(hist['steps']):
                if st['op'] == 'set':
                    batch = []
                    for ent in st['cells']:
                        batch.append(Cell(ent[0], ent[1], ent[2], dec_val(ent[3], env.cls.EmptyCell)))
                    ex.set_cells(batch)
                else:
                    for pr in probes:
                        trace.append([si, list(pr), norm(observe(ex, book.titles, pr, hist.get('qstyle', 'num')))])
            out.append(trace)
    sys.stdout.write('\n@@TRACE@@' + json.dumps({'hashseed': os.environ.get('PYTHONHASHSEED'), 'traces': out}))


def _expected_traces(wb, histories):
    exp = []
    with lib.scratch() as d:
        env = Env(wb, None, d)
        book = env.book
        for hist in histories:
            edits, trace = {}, []
            targets = [canon(book.titles, *c[:3]) for st in hist['steps'] if st['op'] == 'set' for c in st['cells']]
            probes = default_probes(book, targets)
            for si, st in enumerate(hist['steps']):
                if st['op'] == 'set':
                    for ent in st['cells']:
                        edits[canon(book.titles, *ent[:3])] = ent[3]
                else:
                    vals, err = env.expected(edits, probes)
                    for pr in probes:
                        trace.append([si, list(pr), vals[pr][0] if err is None else {'$exc': 'fresh translation failed'}])
            exp.append(trace)
    return exp


def _spawn_seed(args):
    wb, histories, seed = args
    env = dict(os.environ)
    env['PYTHONHASHSEED'] = str(seed)
    env['PYTHONPATH'] = lib.REPO + os.pathsep + os.path.dirname(os.path.dirname(os.path.dirname(os.path.abspath(__file__))))
    env['E2PYCL_REPO'] = lib.REPO
    env['PYTHONWARNINGS'] = 'ignore'
    env['PYTHONDONTWRITEBYTECODE'] = '1'
    p = subprocess.run([sys.executable, '-W', 'ignore', '-c', 'from pv.nat import mon_c04 as m; m._hash_child()'],
                       input=json.dumps({'wb': wb, 'histories': histories}), capture_output=True, text=True, env=env, timeout=900)
    if p.returncode != 0 or '@@TRACE@@' not in p.stdout:
        return {'seed': seed, 'error': (p.stderr or p.stdout)[-600:]}
    r = json.loads(p.stdout[p.stdout.rfind('@@TRACE@@') + len('@@TRACE@@'):])
    r['seed'] = seed
    return r


# ----------------------------------------------------------------------------------------------- arithmetic reference
def _num(ev):
    return codec.dec(ev)


def _arith_job(triples):
    from excel2pycl import Cell
    wb = core_workbook()
    fails, evals = [], 0
    with lib.scratch() as d:
        env = Env(wb, None, d)
        for a1v, a2v, d1v in triples:
            ex = env.executor()
            # two writes each, the first one a decoy
            ex.set_cells([Cell('S', 'A', '1', 99), Cell(0, 0, 1, 'decoy'), Cell('Data', 0, 0, False)])
            lib.call_catch(ex.get_cell, Cell(0, 3, 1))
            ex.set_cells([Cell('S', 'A', '1', _num(a1v)), Cell(0, 0, 1, _num(a2v)), Cell('Data', 0, 0, _num(d1v))])
            a, b, c = _num(a1v), _num(a2v), _num(d1v)
            want = {'S!D2': a + b, 'S!D12': (a + b) * 2, 'S!D7': c + a, 'Data!D2': c + 20, 'Data!B1': a * 2, 'Data!C2': (c + 20) * 2,
                    'S!D1': a + b + 1.5, 'S!D24': a + b + 1.5 + c + 20}
            for addr, w in want.items():
                pr = env.book.parse(addr)
                got = observe(ex, env.book.titles, pr, 'num')
                evals += 1
                ok = not isinstance(got, (codec.Raised, bool)) and isinstance(got, (int, float)) and got == w
                if addr not in ('S!D1', 'S!D24'):
                    ok = ok and type(got) is type(w)
                if not ok and not fails:
                    fails.append({'key': f'C04.arith.{addr}', 'what': f'A1={show(a1v)}, A2={show(a2v)}, Data!A1={show(d1v)} (each after '
                                  f'a decoy write): {addr} {env.book.cells[pr]} reports {got!r}, arithmetic gives {w!r}',
                                  'replay': {'kind': 'arith', 'a1': a1v, 'a2': a2v, 'd1': d1v}})
    return {'fails': fails, 'evals': evals}


# ----------------------------------------------------------------------------------------------- history builders
def H(steps, qstyle='num', via='get_cell', probes=()):
    return {'steps': steps, 'qstyle': qstyle, 'via': via, 'probes': [list(p) for p in probes]}


def SET(titles, style, *pairs):
    return {'op': 'set', 'cells': [spell(titles, cell, style) + [ev] for cell, ev in pairs]}


GET = {'op': 'get'}


def single_histories(book, target, vals, k=0):
    """every value on one target, A1 and numeric spelling alternating with the value index"""
    out = []
    for i, ev in enumerate(vals):
        style = STYLES[(i + k) % 4]
        out.append(H([SET(book.titles, style, (target, ev)), GET], qstyle=('num', 'a1')[(i + k) % 2]))
    return out


def rewrite_histories(book, target, vals, rng, dense):
    """same cell written repeatedly: across batches with and without a query in between, inside one batch, with a re-used
    Cell object, in different spellings"""
    out = []
    T = book.titles
    pairs = [(a, b) for a in vals for b in vals if not (a == b and type(a) is type(b))]
    if not dense:
        pairs = rng.sample(pairs, min(len(pairs), 40))
    for n, (a, b) in enumerate(pairs):
        s1, s2 = STYLES[n % 4], STYLES[(n // 4 + 1) % 4]
        shape = n % 6
        if shape == 0:      # override -> read dependants -> override the same cell again -> read
            out.append(H([SET(T, s1, (target, a)), GET, SET(T, s2, (target, b)), GET]))
        elif shape == 1:    # two batches, no query in between
            out.append(H([SET(T, s1, (target, a)), SET(T, s2, (target, b)), GET]))
        elif shape == 2:    # the same cell twice in one batch
            st = SET(T, s1, (target, a))
            st['cells'] += SET(T, s2, (target, b))['cells']
            out.append(H([st, GET]))
        elif shape == 3:    # the caller's Cell object re-used with a new value
            x = SET(T, s1, (target, a))
            x['cells'][0].append('o1')
            y = SET(T, s1, (target, b))
            y['cells'][0].append('o1')
            out.append(H([x, GET, y, GET]))
        elif shape == 4:    # query first, then two writes separated by an empty batch
            out.append(H([GET, SET(T, s1, (target, a)), GET, {'op': 'set', 'cells': []}, GET, SET(T, s2, (target, b)), GET]))
        else:               # three writes, back to the first value in the middle
            out.append(H([SET(T, s1, (target, b)), SET(T, s2, (target, a)), GET, SET(T, s1, (target, b)), GET], qstyle='a1'))
    return out


def random_history(book, rng, vals, targets, max_batches=4, max_cells=3):
    T = book.titles
    steps, used = [], []
    if rng.random() < 0.3:
        steps.append(GET)                                     # a query before the first override
    for b in range(rng.randint(1, max_batches)):
        if rng.random() < 0.08:
            steps.append({'op': 'set', 'cells': []})          # an empty batch is a set-cells call too
        pairs = []
        for _ in range(rng.randint(1, max_cells)):
            t = rng.choice(used) if used and rng.random() < 0.45 else rng.choice(targets)
            used.append(t)
            pairs.append((t, rng.choice(vals)))
        st = {'op': 'set', 'cells': []}
        for t, ev in pairs:
            st['cells'].append(spell(T, t, rng.choice(STYLES[:5])) + [ev])
        steps.append(st)
        if rng.random() < 0.6:
            steps.append(GET)
    if steps[-1] is not GET:
        steps.append(GET)
    return H(steps, qstyle=rng.choice(['num', 'a1', 'namenum']), via=rng.choice(['get_cell', 'get_cell', 'get_cells', 'get_sheet']))


def targets_of(book, rng=None):
    """override targets of a generated workbook: every stored cell, blanks inside the data block, the first row/column beyond
    the used range, far cells"""
    t = list(book.cells)
    for s, (rows, cols) in enumerate(book.dims):
        for c in range(3):
            for r in range(7):
                if (s, c, r) not in book.cells:
                    t.append((s, c, r))
        t += [(s, 0, rows), (s, cols, 0), (s, 0, 149), (s, 7, 199), (s, 27, 2), (s, 2, 8), (s, 0, 1200)]
    return t


# ----------------------------------------------------------------------------------------------- the sweep
CHECKS = {
    'constant_cells': 'single override of a constant cell',
    'formula_cells': 'single override of a formula cell (plain and raising): its formula and its errors vanish for every dependant',
    'falsy_values': '0, 0.0, False and the empty text on non-blank constant and formula cells',
    'blank_cells_in_areas': 'single override of a blank cell inside SUM / VLOOKUP / SUMIF / COUNTBLANK areas or below them',
    'beyond_used_range': 'single override of a cell beyond the stored rows/columns (first row/column past the end, row 150, 200, '
                         '1500, column AAA), read directly, through SUM(A:A), or by nothing',
    'last_write_wins': 'the same cell written repeatedly (two batches with/without a query between, twice in one batch, re-used '
                       'Cell object, query first + empty batch between, three writes)',
    'addressing': 'one history spelled in six ways (index/title x numbers/letters, mixed, lower-case letters) and queried in two',
    'random_histories': 'random histories on the core workbook',
    'random_workbooks': 'random histories on workbooks of the generator, whole-file translation',
    'entry_point': 'entry-point translation: core workbook with every formula cell as entry, generated workbooks with a random entry',
    'abstract_runtime': 'the cell methods of the translation on top of the importable AbstractExcelInPython',
    'views': 'the same values through get_cells and get_sheet',
    'executor_reuse': 'one Executor object given an executed class again (same class / the twin class on the other runtime copy) '
                      'between batches: the new executed instance starts without overrides, later batches count from there',
}


def build_jobs(tier, seed):
    rng = random.Random(seed)
    thorough = tier == 'thorough'
    wb = core_workbook()
    book = Book(wb)
    vals = VALS_QUICK + (VALS_MORE if thorough else [])
    jobs = []
    klass_check = {'const': 'constant_cells', 'formula': 'formula_cells', 'formula_raising': 'formula_cells',
                   'blank_in_area': 'blank_cells_in_areas', 'blank_in_used': 'blank_cells_in_areas', 'beyond_used': 'beyond_used_range'}
    for n, (addr, kl) in enumerate(CORE_TARGETS):
        t = book.parse(addr)
        hs = single_histories(book, t, vals, n)
        if kl in ('const', 'formula', 'formula_raising'):
            fal = [h for h in hs if is_falsy(h['steps'][0]['cells'][0][3])]
            hs = [h for h in hs if not is_falsy(h['steps'][0]['cells'][0][3])]
            jobs.append({'check': 'falsy_values', 'wb': wb, 'histories': fal, 'group': addr})
        jobs.append({'check': klass_check[kl], 'wb': wb, 'histories': hs, 'group': addr})
        rv = vals if thorough else vals[:12]
        jobs.append({'check': 'last_write_wins', 'wb': wb, 'group': addr,
                     'histories': rewrite_histories(book, t, rv, rng, dense=thorough or kl in ('const', 'formula_raising'))})
    # addressing: the same 3-batch history in every spelling
    T = book.titles
    addr_h = []
    base_sets = [[(book.parse('S!A1'), 5), (book.parse('S!A3'), F(2.5))], [(book.parse('Data!A1'), 'x'), (book.parse('S!AAA1'), 4)],
                 [(book.parse('S!A1'), 0), (book.parse('S!D3'), 7), (book.parse('S!A150'), True), (book.parse('S!AB2'), 'q')]]
    for style in STYLES:
        for q in ('num', 'a1', 'a1idx', 'lower'):
            steps = []
            for bs in base_sets:
                steps += [SET(T, style, *bs), GET]
            addr_h.append(H(steps, qstyle=q))
    jobs.append({'check': 'addressing', 'wb': wb, 'histories': addr_h, 'group': 'spellings'})
    # views
    vh = []
    for via in ('get_cells', 'get_sheet'):
        for addr, kl in CORE_TARGETS:
            if addr in ('S!AAA1',):
                continue
            t = book.parse(addr)
            vh.append(H([SET(T, 'a1', (t, 5)), GET, SET(T, 'num', (t, ''), (book.parse('S!A2'), 8)), GET], via=via))
    jobs.append({'check': 'views', 'wb': wb, 'histories': vh[:len(vh) // 2], 'group': 'get_cells'})
    jobs.append({'check': 'views', 'wb': wb, 'histories': vh[len(vh) // 2:], 'group': 'get_sheet'})
    # executor re-use
    rh = []
    for n, (addr, kl) in enumerate(CORE_TARGETS):
        t = book.parse(addr)
        for twin in (False, True):
            rs = {'op': 'reset', 'twin': twin}
            rh.append(H([SET(T, 'a1', (t, 5)), GET, rs, GET, SET(T, 'num', (book.parse('S!A2'), 8)), GET]))
            rh.append(H([SET(T, 'num', (t, 'x')), rs, SET(T, 'a1', (t, 0)), GET, rs, GET]))
            rh.append(H([SET(T, 'a1', (t, 5), (book.parse('S!A1'), 9)), rs, GET, SET(T, 'a1', (book.parse('S!D3'), 1)), GET]))
    jobs.append({'check': 'executor_reuse', 'wb': wb, 'histories': rh[:len(rh) // 2], 'group': 'a'})
    jobs.append({'check': 'executor_reuse', 'wb': wb, 'histories': rh[len(rh) // 2:], 'group': 'b'})
    # random histories on the core workbook
    core_targets = [book.parse(a) for a, _ in CORE_TARGETS] + list(book.cells)
    n_rand = 2000 if thorough else 160
    per = 25 if thorough else 10
    for i in range(0, n_rand, per):
        jobs.append({'check': 'random_histories', 'wb': wb, 'group': f'r{i}',
                     'histories': [random_history(book, rng, vals, core_targets, 6 if thorough else 4, 4 if thorough else 3)
                                   for _ in range(per)]})
    # abstract runtime
    ah = []
    for addr, kl in CORE_TARGETS:
        t = book.parse(addr)
        ah.append(H([SET(T, 'a1', (t, 5)), GET, SET(T, 'num', (t, 0)), GET, SET(T, 'a1', (t, 'x'), (t, '')), GET]))
    ah += [random_history(book, rng, vals, core_targets) for _ in range(120 if thorough else 20)]
    half = len(ah) // 2
    jobs.append({'check': 'abstract_runtime', 'wb': wb, 'histories': ah[:half], 'runtime': 'abstract', 'group': 'a'})
    jobs.append({'check': 'abstract_runtime', 'wb': wb, 'histories': ah[half:], 'runtime': 'abstract', 'group': 'b'})
    # entry point: every formula cell of the core workbook as entry
    ev_small = [0, '', 5, 'x', F(2.5), BLANK] + ([True, -3, {'$dt': [2020, 1, 1, 0, 0, 0, 0]}] if thorough else [])
    for cell, v in book.cells.items():
        if not Book.is_formula(v):
            continue
        deps = [t for t in core_targets if book.depends(cell, t)]
        deps = list(dict.fromkeys(deps))[: (12 if thorough else 5)]
        hs = []
        for i, t in enumerate(deps + [cell]):
            for j, ev in enumerate(ev_small):
                if (i + j) % 2 and not thorough:
                    continue
                hs.append(H([SET(T, STYLES[(i + j) % 4], (t, ev)), GET, SET(T, 'num', (t, 1)), GET]))
        far = (cell[0], 16383, 0)
        hs.append(H([SET(T, 'a1', (far, 3)), GET, SET(T, 'num', (far, 0), (cell, 'c')), GET]))
        jobs.append({'check': 'entry_point', 'wb': wb, 'entry': [T[cell[0]], col_letters(cell[1]), str(cell[2] + 1)],
                     'histories': hs, 'group': a1(T, cell)})
    # generated workbooks
    n_wb = 480 if thorough else 44
    for i in range(n_wb):
        g = gen_workbook(rng)
        gb = Book(g)
        tg = targets_of(gb)
        hs = [random_history(gb, rng, vals, tg, 6 if thorough else 4, 4 if thorough else 3) for _ in range(6 if thorough else 4)]
        if i % 4 == 3:
            fcells = [c for c, v in gb.cells.items() if Book.is_formula(v)]
            e = rng.choice(fcells)
            near = [t for t in tg if gb.depends(e, t)] or tg
            hs = [random_history(gb, rng, vals, near + [e], 4, 3) for _ in range(6 if thorough else 4)]
            for h in hs:
                h['via'] = 'get_cell'
            jobs.append({'check': 'entry_point', 'wb': g, 'entry': [gb.titles[e[0]], col_letters(e[1]), str(e[2] + 1)],
                         'histories': hs, 'group': f'g{i}'})
        else:
            jobs.append({'check': 'random_workbooks', 'wb': g, 'histories': hs, 'group': f'g{i}'})
    return jobs, book, wb, vals, rng


def hashseed_histories(book, vals, rng, n):
    T = book.titles
    out = []
    hv = [v for v in vals if not is_integral_float(v)]
    cells = [book.parse(a) for a in ('S!A1', 'S!D3', 'S!A3', 'S!H200', 'Data!A1', 'S!D2', 'S!C1')]
    for i in range(n):
        steps = []
        for b in range(3):
            st = {'op': 'set', 'cells': []}
            for _ in range(rng.randint(2, 6)):
                st['cells'].append(spell(T, rng.choice(cells[:3 + i % 5]), rng.choice(STYLES[:4])) + [rng.choice(hv)])
            steps.append(st)
            if b != 1 or i % 2:
                steps.append(GET)
        out.append(H(steps))
    return out


def run(tier='quick', seed=0):
    t_all = time.time()
    thorough = tier == 'thorough'
    jobs, book, wb, vals, rng = build_jobs(tier, seed)
    hs_hist = hashseed_histories(book, vals, rng, 24 if thorough else 8)
    seeds = list(range(32)) if thorough else [0, 1, 2, 3, 7, 11, 42, 1234]
    nums = NUMS_EXACT
    triples = [(a, b, c) for a in nums for b in nums for c in nums]
    if not thorough:
        triples = [t for i, t in enumerate(triples) if i % 7 == 0]
    chunks = [triples[i::16] for i in range(16)]
    per_check = {name: {'evals': 0, 'nontrivial': 0, 'fails': [], 'samples': [], 'seconds': 0.0, 'histories': 0, 'skipped': 0,
                        'fresh': 0, 'jobs': 0} for name in CHECKS}
    order = sorted(range(len(jobs)), key=lambda i: -len(jobs[i]['histories']))
    with multiprocessing.Pool(16) as pool:
        t0 = time.time()
        hs_async = pool.apply_async(_hashseed_compare_entry, ((wb, hs_hist, seeds),))
        ar_async = pool.map_async(_arith_job, chunks)
        results = pool.map(_job, [jobs[i] for i in order], chunksize=1)
        results = [r for _, r in sorted(zip(order, results), key=lambda x: x[0])]
        for r in results:
            pc = per_check[r['check']]
            for k in ('evals', 'nontrivial', 'histories', 'skipped', 'fresh'):
                pc[k] += r[k]
            pc['seconds'] += r.get('seconds', 0.0)
            pc['jobs'] += 1
            pc['fails'] += r['fails']
            if len(pc['samples']) < 3:
                pc['samples'] += r['samples'][:1]
        hs_res = hs_async.get()
        ar_res = ar_async.get()
        t_main = time.time() - t0
        # one failure per key and check, minimised
        for name, pc in per_check.items():
            seen, uniq = set(), []
            for f in pc['fails']:
                if f['key'] not in seen:
                    seen.add(f['key'])
                    uniq.append(f)
            pc['fails'] = uniq[:25]
        todo = [(name, f) for name, pc in per_check.items() for f in pc['fails']]
        limit = 120 if thorough else 60
        shrunk = pool.map(_shrink, [f for _, f in todo[:limit]], chunksize=1)
        for (name, f), s in zip(todo[:limit], shrunk):
            f.update(s)
        for name, pc in per_check.items():
            seen, uniq = set(), []
            for f in pc['fails']:
                if f['key'] not in seen:
                    seen.add(f['key'])
                    uniq.append(f)
            pc['fails'] = uniq
    checks = []
    nvals = len(vals)
    bounds = {
        'constant_cells': f'core workbook (2 sheets, {len(book.cells)} cells, {len(book.areas)} of them formulas); 6 constant targets x '
                          f'{nvals} values',
        'formula_cells': f'6 formula targets (=A1+A2 read by =D2*2, =1/0 read by =D3+1 and IFERROR, =D3+1, SUM, the same text =A1+A2 on '
                         f'sheet Data, =S!A1*2) x {nvals} values',
        'falsy_values': '12 non-blank targets (6 constants, 6 formulas of which 2 raise) x {0, 0.0, False, ""}',
        'blank_cells_in_areas': f'5 blank targets (A3, A5, B3 inside A1:A5 / A1:B5, A7 and A25 below) x {nvals} values',
        'beyond_used_range': f'8 targets beyond the used range (A26 = first row past, E1 = first column past, H200, A150, AAA1, A1500, '
                             f'Data!A3, Data!E7) x {nvals} values',
        'last_write_wins': f'25 targets x ordered pairs of distinct values out of {nvals if thorough else 12} '
                           f'({"all pairs" if thorough else "all pairs for constants and raising formulas, 40 sampled pairs otherwise"}), '
                           '6 history shapes in rotation',
        'addressing': '6 spellings of set_cells x 4 spellings of get_cell x one 3-batch history (9 overrides, 2 sheets, column AAA/AB, '
                      'row 150)',
        'random_histories': f'{per_check["random_histories"]["histories"]} seeded histories, <= {6 if thorough else 4} batches x <= '
                            f'{4 if thorough else 3} cells, 45% re-use of an earlier target, queries after 60% of the batches, via '
                            'get_cell/get_cells/get_sheet',
        'random_workbooks': f'{per_check["random_workbooks"]["jobs"]} generated workbooks x {6 if thorough else 4} histories (same shape)',
        'entry_point': f'core workbook: each of the {len(book.areas)} formula cells as entry x (<= {12 if thorough else 5} cells it reads + itself) x '
                       f'{6 + (3 if thorough else 0)} values{"" if thorough else " (every second)"} + XFD1; '
                       f'{per_check["entry_point"]["jobs"] - len(book.areas)} generated workbooks with a random entry',
        'abstract_runtime': f'{per_check["abstract_runtime"]["histories"]} histories (25 targets x 3 rewrites + random) on the abstract twin',
        'views': '24 targets x 2 batches, read through get_cells and through get_sheet (by index and by title)',
        'executor_reuse': '25 targets x {same class, twin class} x 3 history shapes (override / set_executed_class / query, with and '
                          'without a query before it, overrides after it)',
    }
    for name in CHECKS:
        pc = per_check[name]
        checks.append({
            'name': f'C04.monitor.{name}',
            'bound': bounds[name] + f'; {pc["histories"]} histories, {pc["fresh"]} fresh translations of edited workbooks'
                     + (f', {pc["skipped"]} histories skipped because the unedited workbook does not translate' if pc['skipped'] else ''),
            'rule': CHECKS[name] + '. One evaluation = one cell read after one query step, compared (exact type and value, exceptions by '
                    'class) with a fresh translation of the edited workbook; overridden cells also with the supplied constant, cells that '
                    'do not read an overridden cell also with their value without overrides. Non-trivial = the expected value differs from '
                    'the value without overrides or the cell is overridden. Under entry-point translation cells outside the slice of the '
                    'edited workbook are skipped.',
            'exhaustive': name in ('constant_cells', 'formula_cells', 'falsy_values', 'blank_cells_in_areas', 'beyond_used_range',
                                   'addressing', 'views', 'executor_reuse'),
            'evaluations': pc['evals'], 'distinct_nontrivial': pc['nontrivial'], 'failures': pc['fails'][:25],
            'samples': pc['samples'][:3], 'seconds': round(pc['seconds'] / 16.0, 2)})
    ar_f, ar_e = [], 0
    for r in ar_res:
        ar_e += r['evals']
        for f in r['fails']:
            if f['key'] not in [x['key'] for x in ar_f]:
                ar_f.append(f)
    checks.append({'name': 'C04.monitor.arithmetic_reference',
                   'bound': f'{len(triples)} of {len(nums) ** 3} triples of exactly representable numbers for S!A1, S!A2, Data!A1 (each '
                            'written after a decoy write and a query), 8 dependants on 2 sheets',
                   'rule': 'one evaluation = one dependant (=A1+A2 on both sheets, =D2*2 on both sheets, =Data!A1+A1, =S!A1*2, SUM over one '
                           'and two areas) compared with ordinary arithmetic on the last written numbers (exact value; exact type except SUM)',
                   'exhaustive': thorough, 'evaluations': ar_e, 'distinct_nontrivial': ar_e, 'failures': ar_f[:25],
                   'samples': [{'A1': 2, 'A2': 0.5, 'Data!A1': -3, 'S!D12': 5.0}], 'seconds': 0.0})
    checks.append({'name': 'C04.monitor.hashseed',
                   'bound': f'{len(hs_hist)} histories (3 batches x 2-6 writes to 3-7 cells, so every cell is written several times per '
                            f'batch) x PYTHONHASHSEED in {seeds if not thorough else "0..31"} (one sub-process each)',
                   'rule': 'one evaluation = one cell read in the sub-process compared with the fresh translation of the edited workbook '
                           'computed in the parent',
                   'exhaustive': True, 'evaluations': hs_res['evals'], 'distinct_nontrivial': hs_res['evals'],
                   'failures': hs_res['fails'][:25], 'samples': [], 'seconds': round(hs_res.get('seconds', 0.0), 2)})
    return {'checks': checks}


def _hashseed_compare_entry(args):
    return _hashseed_compare(*args)


def _hashseed_compare(wb, hist, seeds):
    t0 = time.time()
    # one sub-process per seed, started from threads (not a nested pool)
    from concurrent.futures import ThreadPoolExecutor
    book = Book(wb)
    exp = _expected_traces(wb, hist)
    with ThreadPoolExecutor(8) as tp:
        results = list(tp.map(_spawn_seed, [(wb, hist, s) for s in seeds]))
    fails, evals, seen = [], 0, set()
    for r in results:
        if 'error' in r:
            if 'C04.hashseed.child_crashed' not in seen:
                seen.add('C04.hashseed.child_crashed')
                fails.append({'key': 'C04.hashseed.child_crashed', 'what': f'PYTHONHASHSEED={r["seed"]}: {r["error"]}',
                              'replay': {'kind': 'hashseed', 'wb': wb, 'histories': hist, 'seed': r['seed']}})
            continue
        if str(r.get('hashseed')) != str(r['seed']):
            fails.append({'key': 'C04.hashseed.not_applied', 'what': f'child saw PYTHONHASHSEED={r.get("hashseed")}', 'replay': None})
        for hi, (tr, ex) in enumerate(zip(r['traces'], exp)):
            if len(tr) != len(ex):
                fails.append({'key': 'C04.hashseed.trace_length', 'what': f'{len(tr)} vs {len(ex)} observations', 'replay': None})
                continue
            for (si, pr, got), (_, _, want) in zip(tr, ex):
                evals += 1
                if differ(got, want):
                    key = 'C04.hashseed.trace_differs_from_fresh_translation'
                    if key in seen:
                        continue
                    seen.add(key)
                    mm = {'step': si, 'probe': pr, 'kind': f'PYTHONHASHSEED={r["seed"]}', 'got': got, 'exp': want}
                    fails.append({'key': key, 'what': describe(book, hist[hi], mm),
                                  'replay': {'kind': 'hashseed', 'wb': wb, 'histories': [hist[hi]], 'seed': r['seed']}})
    return {'fails': fails, 'evals': evals, 'seconds': time.time() - t0}
