"""K4 bounded monitor for C19 (the safety gate reports exactly the Python-like cells).  Runs under /venv/bin/python on the
real code, through the public pipeline (Parser.get_translation / write_translation) and, for the short-text sweep, also on
Excel._get_suspicious_constructions directly.

Executable contract (from the property statement, never from the code) -- see analyse():
  * call syntax          = an identifier [A-Za-z_][A-Za-z0-9_]* immediately followed by '(' with a ')' somewhere behind it;
  * upper-case call      = call whose name consists of upper-case letters only (SUM, IF, TODAY); the Excel functions whose
                           upper-case name holds digits (LOG10, ATAN2, DAYS360, HEX2DEC, ...) are upper-case Excel calls too
                           (own root-cause key); other names of capitals and digits (E1, A1) have no clause;
  * offending call       = call whose name contains a lower-case letter (eval, Exec, subprocess.Popen, evalX, sUM) or no
                           letter at all (_, __, _1);
  * cell class  S        = at least one offending call and no upper-case call      -> workbook rejected, cell listed under
                           its true title + A1 address with fragments taken from its own text that cover every offending call;
    cell class  I_upper  = only upper-case calls;  I_none = no call syntax at all  -> never listed; a workbook of such cells
                           only is translated; with the check off E2PyclSafetyException is never raised;
    everything else (offending and upper-case calls in one cell, unclosed '(', names like E_V / 1e / non-ASCII names, a dotted
    call whose last name is upper-case) has NO clause: such texts are skipped and not counted.
"""
import itertools
import multiprocessing
import os
import random
import re
import time

from pv import codec
from pv.nat import lib

_LOW = frozenset('abcdefghijklmnopqrstuvwxyz')
_UP = frozenset('ABCDEFGHIJKLMNOPQRSTUVWXYZ')
_DIG = frozenset('0123456789')
# Excel functions whose upper-case name holds digits (the only names with digits that count as upper-case Excel calls)
EXCEL_DIGIT_NAMES = frozenset(['LOG10', 'ATAN2', 'DAYS360', 'HEX2DEC', 'HEX2BIN', 'HEX2OCT', 'DEC2BIN', 'DEC2HEX', 'DEC2OCT', 'BIN2DEC',
                               'BIN2HEX', 'BIN2OCT', 'OCT2BIN', 'OCT2DEC', 'OCT2HEX', 'SUMX2MY2', 'SUMX2PY2', 'SUMXMY2', 'IMLOG10', 'IMLOG2'])
SPECIAL_TAGS = ('newline_in_args', 'array_formula', 'upper_digit_name', 'digits_before_paren', 'long_text')
NPROC = 16


# ------------------------------------------------------------------------------------------------ reference classifier
def _isword(ch):
    return ch == '_' or ch.isalnum()


def analyse(text):
    """Independent reference: returns {'cls': 'S'|'I_upper'|'I_none'|'mixed'|'skip', 'offs': [(name, start, open, close)],
    'tag': <root-cause tag>, 'simple': [expected fragments] or None}."""
    offs, uppers, updig, amb, digits = [], [], [], [], []
    n, i = len(text), 0
    while i < n:
        if _isword(text[i]):
            j = i + 1
            while j < n and _isword(text[j]):
                j += 1
            if j < n and text[j] == '(':
                run = text[i:j]
                close = text.find(')', j + 1)
                before = text[i - 1] if i else ''
                if not run.isascii():
                    amb.append(run)
                elif close < 0:
                    amb.append(run)
                elif all(c in _DIG for c in run):
                    digits.append(run)
                elif run[0] in _DIG:
                    amb.append(run)
                else:
                    haslow = any(c in _LOW for c in run)
                    hasup = any(c in _UP for c in run)
                    if haslow or not hasup:
                        offs.append((run, i, j, close, before == '.'))
                    elif before == '.':
                        amb.append(run)
                    elif all(c in _UP for c in run):
                        uppers.append(run)
                    elif run in EXCEL_DIGIT_NAMES:
                        updig.append(run)
                    else:
                        amb.append(run)
            i = j
        else:
            i += 1
    if amb:
        cls = 'skip'
    elif offs and not uppers and not updig:
        cls = 'S'
    elif offs:
        cls = 'mixed'
    elif uppers or updig:
        cls = 'I_upper'
    else:
        cls = 'I_none'
    tag, simple = None, None
    if cls == 'S':
        name, s, o, c, dotted = offs[0]
        args = text[o + 1:c]
        if any('\n' in text[o2 + 1:c2] for (_, _, o2, c2, _) in offs):
            tag = 'newline_in_args'
        elif len(text) > 255:
            tag = 'long_text'
        elif dotted:
            tag = 'dotted'
        elif any(ch in _UP for ch in name):
            tag = 'capitalised' if name[0] in _UP else 'mixed_case'
        elif '_' in name or any(ch in _DIG for ch in name):
            tag = 'underscore_digit_name'
        elif args == '':
            tag = 'empty_args'
        elif '(' in args:
            tag = 'nested'
        else:
            tag = 'lower_call'
        if all('(' not in text[o2 + 1:c2] for (_, _, o2, c2, _) in offs):
            simple = [text[s2:c2 + 1] for (_, s2, _, c2, _) in offs]
    elif cls == 'I_upper':
        tag = 'upper_digit_name' if updig else 'upper_call'
    elif cls == 'I_none':
        if digits:
            tag = 'digits_before_paren'
        elif re.search(r'\w\s+\(', text):
            tag = 'blank_before_paren'
        elif '(' in text:
            tag = 'paren_without_name'
        else:
            tag = 'no_paren'
    return {'cls': cls, 'offs': [(a, b, c, d) for (a, b, c, d, _) in offs], 'tag': tag, 'simple': simple}


def frag_key(info, pr):
    if pr[0] == 'digits_before_paren':
        return 'C19.listed.digits_before_paren'
    if pr[0] == 'fragments_incomplete' and info['tag'] == 'newline_in_args':
        return 'C19.missed.newline_in_args'     # the call whose argument list holds the line break is the one left out
    return f'C19.{pr[0]}'


def listed_key(info, frags):
    if isinstance(frags, (list, tuple)) and frags and all(isinstance(f, str) and re.match(r'\d+\(', f) for f in frags):
        return 'C19.listed.digits_before_paren'
    return f"C19.listed.{info['tag']}"


_PREFIX = re.compile(r'(?:[A-Za-z_][A-Za-z0-9_]*\.)*\Z')


def fragments_problem(text, info, frags):
    """None if the reported fragments are acceptable for an S cell; else (key_suffix, description)."""
    if not isinstance(frags, (list, tuple)) or not frags or not all(isinstance(f, str) for f in frags):
        return 'fragments', f'fragments {frags!r} are not a non-empty list of strings'
    for f in frags:
        if f not in text:
            return 'fragments_foreign', f'fragment {f!r} is not part of the cell text'
    for (name, s, o, c) in info['offs']:
        if not any((name + '(') in f for f in frags):
            return 'fragments_incomplete', f'offending call {name}( is in no reported fragment {list(frags)!r}'
    if info['simple'] is not None and '\n' not in text:
        exp = list(info['simple'])
        hit = set()
        for g in frags:
            ok = False
            for k, e in enumerate(exp):
                if g.endswith(e) and _PREFIX.match(g[:len(g) - len(e)]):
                    ok = True
                    hit.add(k)
            if not ok:
                if re.match(r'\d+\(', g):
                    return 'digits_before_paren', f'fragment {g!r} is not call syntax (digits before the parenthesis)'
                return 'fragments_extent', f'fragment {g!r} is none of the offending calls {exp!r}'
        if len(hit) != len(exp):
            return 'fragments_incomplete', f'reported {list(frags)!r}, offending calls {exp!r}'
    return None


# ------------------------------------------------------------------------------------------------ workbooks
def col_letters(c):
    s = ''
    while c:
        c, r = divmod(c - 1, 26)
        s = chr(65 + r) + s
    return s


def write_wb(spec, path):
    """spec = {'sheets': [{'title', 'state'?, 'cells': [[col, row, kind, payload]]}]}; kind: const|formula|array|value."""
    from openpyxl import Workbook
    from openpyxl.worksheet.formula import ArrayFormula
    wb = Workbook()
    first = True
    for sh in spec['sheets']:
        if first:
            ws = wb.active
            ws.title = sh['title']
            first = False
        else:
            ws = wb.create_sheet(sh['title'])
        assert ws.title == sh['title'], (ws.title, sh['title'])
        if sh.get('state'):
            ws.sheet_state = sh['state']
        for col, row, kind, payload in sh['cells']:
            if kind == 'array':
                a1 = f'{col_letters(col)}{row}'
                ws.cell(row=row, column=col).value = ArrayFormula(f'{a1}:{a1}', payload)
            elif kind == 'value':
                ws.cell(row=row, column=col, value=codec.dec(payload))
            else:
                ws.cell(row=row, column=col, value=payload)
    wb.save(path)
    wb.close()


def flat_cells(spec):
    out = []
    for si, sh in enumerate(spec['sheets']):
        for col, row, kind, payload in sh['cells']:
            text = payload if kind != 'value' else None
            if text is None:
                info = {'cls': 'I_none', 'offs': [], 'tag': 'non_text', 'simple': None}
            else:
                info = analyse(text)
                if kind == 'array' and info['cls'] == 'S':
                    info['tag'] = 'array_formula'
            out.append({'sheet': si, 'title': sh['title'], 'col': col, 'row': row, 'a1': f'{col_letters(col)}{row}',
                        'kind': kind, 'text': text, 'info': info})
    return out


def accepted_keys(title, a1):
    return (f"'{title}'{a1}", f"{title}!{a1}", f"'{title}'!{a1}")


def attempt(fn):
    try:
        return ('ok', fn())
    except BaseException as e:  # noqa
        names = [c.__name__ for c in type(e).__mro__]
        if 'E2PyclSafetyException' in names:
            sc = getattr(e, 'suspicious_cells', None)
            try:
                sc = {k: (list(v) if isinstance(v, (list, tuple)) else v) for k, v in dict(sc).items()}
            except Exception:  # noqa
                sc = repr(sc)
            return ('safety', sc)
        return ('other', f'{type(e).__name__}: {str(e)[:160]}')


def gate(path, enabled=True, entry=None, via='get', tmpdir=None):
    from excel2pycl import Parser, Cell
    p = Parser()
    if not enabled:
        p.disable_safety_check()
    p.set_excel_file_path(path)
    if entry is not None:
        p.set_entrypoint_cell(Cell(*entry))
    if via == 'write':
        out = os.path.join(tmpdir, 'out.py')

        def fn():
            p.write_translation(out)
            with open(out, encoding='utf-8') as f:
                return f.read()
        return attempt(fn)
    return attempt(p.get_translation)


def _pos_suffix(c, tag):
    if tag in SPECIAL_TAGS:
        return ''
    s = ''
    if c['row'] > 100 or c['col'] > 26:
        s += '.far'
    if c['sheet'] > 0:
        s += '.later_sheet'
    return s


def _short(spec, keep=None):
    """minimal replayable spec: only the cells in keep (list of (sheet, col, row)); other sheets stay (empty) so that titles
    and sheet order are unchanged"""
    sheets = []
    for si, sh in enumerate(spec['sheets']):
        cells = [c for c in sh['cells'] if keep is None or (si, c[0], c[1]) in keep]
        d = {'title': sh['title'], 'cells': cells}
        if sh.get('state'):
            d['state'] = sh['state']
        sheets.append(d)
    return {'sheets': sheets}


def judge(spec, cells, outcome, mode, translatable):
    """-> (failures, verdict counters).  mode = {'enabled': bool, 'entry': ..., 'via': ...}"""
    fails = []
    cnt = {'listed': 0, 'clean': 0, 'rejected': 0, 'accepted': 0, 'disabled': 0}
    enabled = mode['enabled']

    per_key = {}

    def fail(key, what, keep=None, check=None):
        per_key[key] = per_key.get(key, 0) + 1
        if per_key[key] > 3:
            return
        fails.append({'key': key, 'what': what, 'check': check,
                      'replay': {'kind': 'wb', 'spec': _short(spec, keep), 'mode': mode, 'translatable': False}})
    desc = f"check {'on' if enabled else 'off'}" + (f", entry {mode['entry']}" if mode.get('entry') else '') + \
           (', write_translation' if mode.get('via') == 'write' else '')
    if not enabled:
        cnt['disabled'] += 1
        if outcome[0] == 'safety':
            fail('C19.disabled.raised', f'{desc}: E2PyclSafetyException {outcome[1]!r} raised although the check is disabled',
                 check='disabled')
        return fails, cnt
    S = [c for c in cells if c['info']['cls'] == 'S']
    noclause = [c for c in cells if c['info']['cls'] in ('mixed', 'skip')]
    if S:
        cnt['rejected'] += 1
        if outcome[0] != 'safety':
            c = min(S, key=lambda c: len(c['text']))
            tag = c['info']['tag']
            fail(f"C19.missed.{tag}{_pos_suffix(c, tag)}",
                 f"{desc}: '{c['title']}'!{c['a1']} = {c['text'][:80]!r} ({c['kind']}) has call syntax and no upper-case call, but the "
                 f"workbook was not rejected with E2PyclSafetyException (outcome {outcome[0]}: {str(outcome[1])[:80]!r})",
                 keep=[(c['sheet'], c['col'], c['row'])], check='rejected')
    elif not noclause:
        cnt['accepted'] += 1
        if outcome[0] == 'other' and translatable:
            fail('C19.innocent.other_exception', f'{desc}: workbook of innocent cells only was rejected: {outcome[1]}', check='accepted')
        elif outcome[0] == 'ok' and not isinstance(outcome[1], str):
            fail('C19.innocent.no_translation', f'{desc}: workbook of innocent cells only: translation is {outcome[1]!r}', check='accepted')
    if outcome[0] != 'safety':
        return fails, cnt
    sc = outcome[1]
    if not isinstance(sc, dict) or not all(isinstance(k, str) for k in sc):
        fail('C19.report.shape', f'{desc}: suspicious_cells is {sc!r}, expected a mapping cell -> fragments', check='rejected')
        return fails, cnt
    index = {}
    for c in cells:
        for k in accepted_keys(c['title'], c['a1']):
            index.setdefault(k, []).append(c)
    reported = {}
    unknown = [k for k in sc if k not in index]
    for k, frags in sc.items():
        cs = index.get(k)
        if not cs:
            wit = min(S, key=lambda c: len(c['text'])) if S else None
            fail('C19.address', f"{desc}: reported key {k!r} (fragments {frags!r}) names no filled cell of the workbook; planted: "
                 + ', '.join(f"'{c['title']}'!{c['a1']}" for c in (S or cells)[:4]),
                 keep=[(c['sheet'], c['col'], c['row']) for c in S[:3]] if S else None, check='listed')
            continue
        c = cs[0]
        reported[(c['sheet'], c['col'], c['row'])] = (k, frags)
    for c in cells:
        pos = (c['sheet'], c['col'], c['row'])
        cls, tag = c['info']['cls'], c['info']['tag']
        if cls == 'S':
            cnt['listed'] += 1
            if pos not in reported:
                # a report that names cells which do not exist has mis-addressed this cell rather than missed it
                fail('C19.address' if unknown else f"C19.missed.{tag}{_pos_suffix(c, tag)}",
                     f"{desc}: '{c['title']}'!{c['a1']} = {c['text'][:80]!r} ({c['kind']}) is not listed; reported keys {sorted(sc)[:6]!r}",
                     keep=[pos], check='listed')
            else:
                pr = fragments_problem(c['text'], c['info'], reported[pos][1])
                if pr is not None:
                    fail(frag_key(c['info'], pr), f"{desc}: '{c['title']}'!{c['a1']} = {c['text'][:80]!r}: {pr[1]}", keep=[pos], check='fragments')
        elif cls in ('I_upper', 'I_none'):
            cnt['clean'] += 1
            if pos in reported:
                keep = [pos] + ([(S[0]['sheet'], S[0]['col'], S[0]['row'])] if S else [])
                fail(listed_key(c['info'], reported[pos][1]), f"{desc}: '{c['title']}'!{c['a1']} = {(c['text'] if c['text'] is not None else '<non-text value>')!r:.90} "
                     f"({'only upper-case calls' if cls == 'I_upper' else 'no call syntax'}) is listed with {reported[pos][1]!r}",
                     keep=keep, check='clean')
    return fails, cnt


def run_spec(spec, modes, translatable, d, name='wb.xlsx'):
    path = os.path.join(d, name)
    write_wb(spec, path)
    cells = flat_cells(spec)
    fails, total = [], {}
    outs = []
    for mode in modes:
        outcome = gate(path, mode['enabled'], mode.get('entry'), mode.get('via', 'get'), d)
        f, cnt = judge(spec, cells, outcome, mode, translatable)
        for x in f:
            x['replay']['translatable'] = translatable
        fails += f
        for k, v in cnt.items():
            total[k] = total.get(k, 0) + v
        outs.append(outcome[0])
    return fails, total, outs


def _work_specs(jobs):
    """jobs: list of (spec, modes, translatable)"""
    fails, total, samples = [], {}, []
    with lib.scratch() as d:
        for i, (spec, modes, translatable) in enumerate(jobs):
            f, cnt, outs = run_spec(spec, modes, translatable, d, name=f'w{i}.xlsx')
            try:
                os.remove(os.path.join(d, f'w{i}.xlsx'))
            except OSError:
                pass
            fails += f
            for k, v in cnt.items():
                total[k] = total.get(k, 0) + v
            if len(samples) < 1:
                samples.append({'cells': [[sh['title'], c[0], c[1], c[2], c[3] if isinstance(c[3], str) else '<value>']
                                          for sh in spec['sheets'] for c in sh['cells'] if c[0] != 25][:6],
                                'modes': modes, 'outcomes': outs})
    return fails, total, samples


def pool_map(fn, chunks):
    chunks = [c for c in chunks if c]
    if not chunks:
        return []
    if len(chunks) == 1:
        return [fn(chunks[0])]
    with multiprocessing.Pool(min(NPROC, len(chunks))) as pool:
        return pool.map(fn, chunks, chunksize=1)


def chunked(xs, n):
    k = max(1, (len(xs) + n - 1) // n)
    return [xs[i:i + k] for i in range(0, len(xs), k)]


def dedupe(fails, limit=25):
    """one failure per key, shortest witness first"""
    best = {}
    for f in fails:
        k = f['key']
        if k not in best or len(f['what']) < len(best[k]['what']):
            best[k] = f
    return [{'key': f['key'], 'what': f['what'], 'replay': f['replay']} for f in sorted(best.values(), key=lambda f: f['key'])][:limit]


# ------------------------------------------------------------------------------------------------ templates
S_CONST = ['eval(1)', 'exec("x")', "os.system('rm -rf /')", '__import__("os")', 'Exec(x)', 'subprocess.Popen(x)', 'f()',
           'eval(compile("1","","eval"))', 'a(b(1), c(2))', 'getattr(x,"y")(1)', 'eval(1)+exec(2)', 'open(1);print(2);f()',
           'evalX(1)', 'Sum(1)', 'sUM(1)', 'x1(2)', '_f(1)', '_(1)', 'lambda: f(1)', 'see eval(1) here', 'x' * 60 + ' eval(1)',
           'a ' * 150 + 'eval(1)', 'print()', 'Eval(1)', 'os.path.join(a)', 'eval(1) eval(1)', 'e(1)']
S_FORM = ['=eval(1)', '=Y50+eval(1)', '="eval(1)"', '=1+exec(2)*3', '=os.system("x")', '=Exec(Y50)', '=f()', '=a(b(1))',
          '=Sum(Y50:Y52)', '=sum(Y50:Y52)', '=subprocess.Popen(x)', '=Y50&"f()"']
I_CONST = ['hello', 'eval', 'eval x', 'f (x)', 'eval (1)', '(x)', 'price (USD)', 'a)(b', 'os.system', 'SUM(A1)', 'see MAX(1,2) and MIN(3)',
           'Exec', 'SUM (1)', 'x', '1+2', 'TODAY()', 'a.b.c', 'f[x]', '( eval )']
I_FORM = ['=SUM(Y50:Y52)', '=IF(Y50>1,MAX(Y50,2),0)', '=TODAY()', '=ROUND(Y50/3,2)', '=LEFT("abc",2)', '=Y50+Y51', '=(Y50+1)*2',
          '=Y50*(2)', '="text"', '=SUM(Y50,\nY51)', '=CONCATENATE("a","b")', '=IF(AND(Y50>0,OR(Y51>1,Y52>2)),SUM(Y50:Y52),MIN(Y50,Y51))',
          '="f (x)"', '=TRUE()', '=Y50&" (x)"']
I_VALUES = [5, 0, -1, True, False, {'$f': '2.5'}, {'$dt': [2020, 1, 1, 0, 0, 0, 0]}, {'$f': '1e+20'}]
MIXED = ['=SUM(eval(1))', '=IF(Y50>0,eval(1),2)', 'SUM(1)+eval(2)', 'eval(SUM(1))']
TITLES = ['Data', 'Sh 2', "It's", 'Лист3', 'A1', 'S', 'S1', 'eval(1)', 'X' * 31, 'Sheet 10', 'AB12', 's2']
SAFE_TITLES = ['Data', 'Sh 2', 'Sheet3', 'S', 'S1', 'X' * 31]
B_COLS = [1, 2, 24, 26, 27, 28, 52, 53, 256, 257, 701, 702, 703, 704, 16383, 16384]
B_ROWS = [1, 2, 9, 10, 11, 99, 100, 101, 102, 999, 1000, 1001, 1002, 65536, 65537, 1048575, 1048576]
N_MULTI = {'quick': 60, 'thorough': 700}
N_INNOCENT = {'quick': 30, 'thorough': 500}
DATA = [[25, 50, 'value', 1], [25, 51, 'value', 2], [25, 52, 'value', 3]]


def _selfcheck():
    for t in S_CONST + S_FORM + ['eval(\n1)', '=eval(1,\n2)']:
        assert analyse(t)['cls'] == 'S', t
    for t in I_CONST + I_FORM + ['LOG10(100)', '8(495)123-45-67']:
        assert analyse(t)['cls'] in ('I_upper', 'I_none'), t
    for t in MIXED:
        assert analyse(t)['cls'] == 'mixed', t
    for t in ['évál(1)', 'e(', 'E_V(1)', '1e(1)', 'e.V(1)', '_xlfn.XMATCH(1,A:A)']:
        assert analyse(t)['cls'] == 'skip', t


def innocent_cell(rng, allow_values=True):
    r = rng.random()
    if r < 0.35:
        return 'formula', rng.choice(I_FORM)
    if r < 0.8 or not allow_values:
        return 'const', rng.choice(I_CONST)
    return 'value', rng.choice(I_VALUES)


def suspicious_cell(rng):
    if rng.random() < 0.6:
        return 'const', rng.choice(S_CONST)
    return 'formula', rng.choice(S_FORM)


def modes_for(rng, spec, full):
    modes = [{'enabled': True}, {'enabled': False}]
    if full:
        # entry point = an innocent formula cell when there is one, else the data cell Y50 of sheet 0
        entry = None
        for si, sh in enumerate(spec['sheets']):
            for c in sh['cells']:
                if c[2] == 'formula' and analyse(c[3])['cls'] != 'S' and c[1] < 1000 and c[0] < 700:
                    entry = [si, c[0] - 1, c[1] - 1]
                    break
            if entry:
                break
        entry = entry or [0, 24, 49]
        modes.append({'enabled': True, 'entry': entry})
        modes.append({'enabled': True, 'via': 'write'})
        if rng.random() < 0.5:
            modes.append({'enabled': False, 'entry': entry})
    return modes


def make_sheets(rng, n, titles, hidden=True):
    ts = rng.sample(titles, n)
    sheets = []
    for i, t in enumerate(ts):
        sh = {'title': t, 'cells': [list(c) for c in DATA]}
        if hidden and i > 0 and rng.random() < 0.2:
            sh['state'] = rng.choice(['hidden', 'veryHidden'])
        sheets.append(sh)
    return sheets


def put(sheets, used, si, col, row, kind, payload):
    if col == 25 or (si, col, row) in used:
        return False
    used.add((si, col, row))
    sheets[si]['cells'].append([col, row, kind, payload])
    return True


def placement_jobs(tier, seed):
    rng = random.Random(seed * 1000003 + 19)
    jobs = []
    # (a) every single placement on the 6 x 6 x 2 grid, constant and formula, innocents around it
    k = 0
    for si in range(2):
        for col in range(1, 7):
            for row in range(1, 7):
                for kind, text in (('const', S_CONST[k % len(S_CONST)]), ('formula', S_FORM[k % len(S_FORM)])):
                    k += 1
                    sheets = make_sheets(rng, 2, SAFE_TITLES, hidden=False)
                    used = set()
                    put(sheets, used, si, col, row, kind, text)
                    for _ in range(6):
                        ik, it = innocent_cell(rng)
                        put(sheets, used, rng.randrange(2), rng.randint(1, 6), rng.randint(1, 6), ik, it)
                    # the same innocent text also exactly where the other sheet has the suspicious one
                    put(sheets, used, 1 - si, col, row, 'const', 'SUM(A1)')
                    spec = {'sheets': sheets}
                    if k % 6 == 0:
                        modes = modes_for(rng, spec, full=True)
                    else:
                        modes = [{'enabled': True}] + ([{'enabled': False}] if k % 3 == 0 else [])
                    jobs.append((spec, modes, False))
    # (b) several suspicious and innocent cells, boundary rows / columns, 1..6 sheets, tricky titles, hidden sheets
    n_multi = N_MULTI[tier]
    for w in range(n_multi):
        ns = rng.randint(1, 6)
        sheets = make_sheets(rng, ns, TITLES)
        used = set()
        far = rng.random() < 0.5
        nS = rng.randint(1, 5)
        for _ in range(nS):
            kind, text = suspicious_cell(rng)
            if far:
                col, row = rng.choice(B_COLS), rng.choice(B_ROWS if rng.random() < 0.25 else B_ROWS[:13])
            else:
                col, row = rng.randint(1, 8), rng.randint(1, 8)
            put(sheets, used, rng.randrange(ns), col, row, kind, text)
        if rng.random() < 0.3 and ns > 1:
            # the same text at the same address on two sheets
            kind, text = suspicious_cell(rng)
            col, row = rng.randint(1, 30), rng.randint(1, 120)
            a, b = rng.sample(range(ns), 2)
            put(sheets, used, a, col, row, kind, text)
            put(sheets, used, b, col, row, kind, text)
        for _ in range(rng.randint(0, 8)):
            ik, it = innocent_cell(rng)
            if far and rng.random() < 0.5:
                col, row = rng.choice(B_COLS), rng.choice(B_ROWS[:13])
            else:
                col, row = rng.randint(1, 8), rng.randint(1, 8)
            put(sheets, used, rng.randrange(ns), col, row, ik, it)
        if rng.random() < 0.15:
            m = rng.choice(MIXED)
            put(sheets, used, rng.randrange(ns), rng.randint(1, 8), rng.randint(1, 8), 'formula' if m.startswith('=') else 'const', m)
        spec = {'sheets': sheets}
        jobs.append((spec, modes_for(rng, spec, full=(w % 3 == 0)), False))
    # (c) every boundary column x boundary row once (single suspicious constant, sheet index cycling)
    if tier == 'thorough':
        pairs = list(itertools.product(B_COLS, B_ROWS))
    else:
        pairs = [(c, B_ROWS[(i * 5 + 3) % len(B_ROWS)]) for i, c in enumerate(B_COLS)] + \
                [(B_COLS[(i * 7 + 2) % len(B_COLS)], r) for i, r in enumerate(B_ROWS)]
    for i, (col, row) in enumerate(pairs):
        ns = 1 + i % 4
        sheets = make_sheets(rng, ns, TITLES)
        used = set()
        put(sheets, used, i % ns, col, row, 'const', S_CONST[i % len(S_CONST)])
        put(sheets, used, (i + 1) % ns, max(1, col - 1) if col - 1 != 25 else 1, row, 'const', 'SUM(A1)')
        spec = {'sheets': sheets}
        jobs.append((spec, [{'enabled': True}] + ([{'enabled': False}] if i % 5 == 0 else []), False))
    return jobs


def innocent_jobs(tier, seed):
    rng = random.Random(seed * 1000003 + 1919)
    jobs = []
    # each innocent template alone, then random mixtures; all of them are translatable formulas / constants
    singles = [('const', t) for t in I_CONST] + [('formula', t) for t in I_FORM] + [('value', v) for v in I_VALUES]
    for kind, payload in singles:
        sheets = make_sheets(rng, 2, SAFE_TITLES, hidden=False)
        put(sheets, set(), 1, 2, 3, kind, payload)
        jobs.append(({'sheets': sheets}, [{'enabled': True}, {'enabled': False}, {'enabled': True, 'via': 'write'}], True))
    n = N_INNOCENT[tier]
    for w in range(n):
        ns = rng.randint(1, 5)
        tricky = rng.random() < 0.5
        sheets = make_sheets(rng, ns, TITLES if tricky else SAFE_TITLES)
        used = set()
        for _ in range(rng.randint(1, 12)):
            ik, it = innocent_cell(rng)
            if rng.random() < 0.3:
                col, row = rng.choice(B_COLS[:14]), rng.choice(B_ROWS[:13])
            else:
                col, row = rng.randint(1, 8), rng.randint(1, 8)
            put(sheets, used, rng.randrange(ns), col, row, ik, it)
        spec = {'sheets': sheets}
        jobs.append((spec, modes_for(rng, spec, full=(w % 2 == 0)), True))
    return jobs


def special_jobs():
    """texts a realistic gate gets wrong: line breaks inside the argument list, array formulas, upper-case names with digits,
    digits before a parenthesis, very long texts; each alone in a two-sheet workbook and next to a plain suspicious cell"""
    jobs = []

    def wb(cells, extra=None):
        sheets = [{'title': 'Data', 'cells': [list(c) for c in DATA]}, {'title': 'Sh 2', 'cells': [list(c) for c in DATA]}]
        for si, col, row, kind, payload in cells:
            sheets[si]['cells'].append([col, row, kind, payload])
        return {'sheets': sheets}
    S_special = [('const', 'eval(\n1)'), ('const', 'x = f(a,\n b)'), ('formula', '=eval(1,\n2)'), ('formula', '=exec(\n"x"\n)'),
                 ('const', 'note\neval(1)'), ('const', 'eval(1)\n'), ('const', 'a\tb(1)'), ('formula', '=Y50+\nf()'),
                 ('array', '=eval(1)'), ('array', '=os.system("x")'), ('array', '=Y50+f()'),
                 ('const', 'a ' * 16000 + 'eval(1)'), ('const', 'eval(1)' + ' b' * 16000), ('const', '(' * 300 + 'eval(1)'),
                 ('const', 'eval(' + 'x' * 30000 + ')')]
    I_special = [('const', 'LOG10(100)'), ('formula', '=LOG10(100)'), ('const', 'ATAN2(1,2)'), ('const', 'see DAYS360(A1,B1)'),
                 ('const', 'HEX2DEC("FF")'), ('formula', '=SUMX2MY2(Y50:Y51,Y51:Y52)'),
                 ('const', '8(495)123-45-67'), ('const', 'Total 5(3)'), ('const', '2(3)'), ('const', '1.5(2)'),
                 ('array', '=SUM(Y50:Y52)'), ('array', '=Y50+1'), ('const', 'SUM(A1,\nB1)'), ('const', 'a ' * 16000 + 'SUM(1)'),
                 ('const', 'f\n(x)'), ('const', 'f\t(x)')]
    for kind, payload in S_special:
        jobs.append((wb([(1, 3, 4, kind, payload)]), [{'enabled': True}, {'enabled': False}], False))
        jobs.append((wb([(1, 3, 4, kind, payload), (0, 2, 2, 'const', 'eval(1)')]), [{'enabled': True}], False))
    for kind, payload in I_special:
        translatable = kind == 'const'
        jobs.append((wb([(1, 3, 4, kind, payload)]), [{'enabled': True}, {'enabled': False}], translatable))
        jobs.append((wb([(1, 3, 4, kind, payload), (0, 2, 2, 'const', 'eval(1)')]), [{'enabled': True}], False))
    return jobs


# ------------------------------------------------------------------------------------------------ short texts
ALPHA_A = 'evEV_1(). '
ALPHA_B = 'aZ0()\n ,"'


def _helper_chunk(arg):
    alpha, maxlen, firsts = arg
    from excel2pycl.src.excel import Excel
    f = Excel._get_suspicious_constructions
    fails, n, nontriv = {}, 0, 0
    for first in firsts:
        for L in range(0, maxlen):
            for rest in itertools.product(alpha, repeat=L):
                text = first + ''.join(rest)
                info = analyse(text)
                cls = info['cls']
                if cls in ('skip', 'mixed'):
                    continue
                n += 1
                if '(' in text:
                    nontriv += 1
                got = f(text)
                key = what = None
                if cls == 'S':
                    if not got:
                        key, what = f"C19.missed.{info['tag']}", f'_get_suspicious_constructions({text!r}) -> {got!r}, expected the offending call(s)'
                    else:
                        pr = fragments_problem(text, info, got)
                        if pr:
                            key = frag_key(info, pr)
                            what = f'_get_suspicious_constructions({text!r}) -> {got!r}: {pr[1]}'
                elif got:
                    key, what = listed_key(info, got), f'_get_suspicious_constructions({text!r}) -> {got!r}, expected [] ' \
                        f"({'only upper-case calls' if cls == 'I_upper' else 'no call syntax'})"
                if key and (key not in fails or len(text) < len(fails[key]['replay']['text'])):
                    fails[key] = {'key': key, 'what': what, 'replay': {'kind': 'helper', 'text': text}}
    return list(fails.values()), n, nontriv


def helper_sweep(tier):
    t0 = time.time()
    from excel2pycl.src.excel import Excel
    if not hasattr(Excel, '_get_suspicious_constructions'):
        return {'name': 'C19.monitor.fragment_rule', 'bound': 'Excel._get_suspicious_constructions is absent', 'rule': '-',
                'exhaustive': False, 'evaluations': 0, 'distinct_nontrivial': 0, 'failures': [], 'samples': [], 'seconds': 0.0}
    la, lb = (5, 5) if tier == 'quick' else (7, 6)
    tasks = []
    for alpha, L in ((ALPHA_A, la), (ALPHA_B, lb)):
        firsts = [a + b for a in alpha for b in alpha]
        tasks.append((alpha, 1, list(alpha)))           # length 1
        for fs in chunked(firsts, 24):
            tasks.append((alpha, L - 1, fs))            # lengths 2..L
    res = pool_map(_helper_chunk, tasks)
    fails = [f for r in res for f in r[0]]
    n = sum(r[1] for r in res)
    nt = sum(r[2] for r in res)
    return {'name': 'C19.monitor.fragment_rule',
            'bound': f'every text of length 1..{la} over {ALPHA_A!r} and of length 1..{lb} over {ALPHA_B!r} (line break, comma, quote), '
                     'evaluated on Excel._get_suspicious_constructions directly',
            'rule': 'one evaluation = one text with a clause: texts with an offending call and no upper-case call must yield fragments '
                    '(non-empty, parts of the text, covering every offending call, equal to the calls when arguments hold no parenthesis); '
                    'texts with only upper-case calls or no call syntax must yield []; texts without a clause (unclosed parenthesis, '
                    'names like E_V, E1, 1e, .V, offending and upper-case calls together) are skipped; non-trivial = contains "("',
            'exhaustive': True, 'evaluations': n, 'distinct_nontrivial': nt, 'failures': dedupe(fails),
            'samples': [{'text': 'e(1)', 'expected': 'listed'}, {'text': 'E(1)', 'expected': '[]'}, {'text': 'e (1)', 'expected': '[]'}],
            'seconds': time.time() - t0}


GRID_COLS = [1, 2, 3, 26, 27, 28, 52, 53, 702, 703, 704, 705]


def _short_pipeline_chunk(arg):
    """one workbook holding many short texts, one per cell, on several sheets"""
    texts, as_formula, start_row = arg
    titles = ['Data', 'Sh 2', "It's"]
    sheets = [{'title': t, 'cells': []} for t in titles]
    for i, t in enumerate(texts):
        si = i % 3
        col = GRID_COLS[(i // 3) % len(GRID_COLS)]
        row = start_row + i // (3 * len(GRID_COLS))
        sheets[si]['cells'].append([col, row, 'formula' if as_formula else 'const', ('=' + t) if as_formula else t])
    spec = {'sheets': sheets}
    with lib.scratch() as d:
        path = os.path.join(d, 'short.xlsx')
        write_wb(spec, path)
        cells = flat_cells(spec)
        outcome = gate(path, True)
        fails, cnt = judge(spec, cells, outcome, {'enabled': True}, False)
        f2 = []
    best = {}
    for f in fails + f2:
        if f['key'] not in best or len(f['what']) < len(best[f['key']]['what']):
            best[f['key']] = f
    nt = sum(1 for c in cells if c['info']['cls'] not in ('skip', 'mixed') and '(' in c['text'])
    return list(best.values()), cnt['listed'] + cnt['clean'] + cnt['rejected'] + 1, nt


def short_pipeline_sweep(tier):
    t0 = time.time()
    L = 4 if tier == 'quick' else 5
    texts = [''.join(p) for n in range(1, L + 1) for p in itertools.product(ALPHA_A, repeat=n)]
    texts_b = [''.join(p) for n in range(1, 4 if tier == 'quick' else 5) for p in itertools.product(ALPHA_B, repeat=n)]
    forms = [t for t in texts if len(t) <= (3 if tier == 'quick' else 4)]
    tasks = []
    for i, ch in enumerate(chunked(texts, 12)):
        tasks.append((ch, False, 1 + (i % 3) * 990))
    for i, ch in enumerate(chunked(texts_b, 4)):
        tasks.append((ch, False, 98 + i))
    for i, ch in enumerate(chunked(forms, 4)):
        tasks.append((ch, True, 1 + i * 1000))
    res = pool_map(_short_pipeline_chunk, tasks)
    fails = [f for r in res for f in r[0]]
    return {'name': 'C19.monitor.short_texts_in_cells',
            'bound': f'every text of length 1..{L} over {ALPHA_A!r} and of length 1..{3 if tier == "quick" else 4} over {ALPHA_B!r} as a '
                     f'constant, and every text of length 1..{3 if tier == "quick" else 4} over the first alphabet behind "=" as a formula; one '
                     f'text per cell, {len(tasks)} workbooks of 3 sheets, columns {GRID_COLS}, rows 1..~3000; through Parser with the check on',
            'rule': 'one evaluation = one cell with a clause (listed under its own title/address with acceptable fragments, or absent from '
                    'the report) plus one workbook verdict per workbook; cells whose text has no clause are skipped; non-trivial = text contains "("',
            'exhaustive': True, 'evaluations': sum(r[1] for r in res), 'distinct_nontrivial': sum(r[2] for r in res),
            'failures': dedupe(fails), 'samples': [{'text': 'e(1)', 'cell': "'Data'A1", 'expected': 'listed'}],
            'seconds': time.time() - t0}


# ------------------------------------------------------------------------------------------------ one Parser, many calls
SEQ_WB = {
    'G': {'sheets': [{'title': 'Data', 'cells': DATA + [[26, 1, 'formula', '=SUM(Y50:Y52)'], [1, 1, 'const', 'SUM(A1)'], [2, 2, 'const', 'eval']]},
                     {'title': 'Sh 2', 'cells': [[3, 3, 'const', 'f (x)'], [1, 1, 'formula', '=IF(Data!Y50>0,MAX(1,2),3)']]}]},
    'B': {'sheets': [{'title': 'Data', 'cells': DATA + [[26, 1, 'formula', '=SUM(Y50:Y52)'], [1, 1, 'const', 'SUM(A1)'], [2, 2, 'const', 'eval']]},
                     {'title': 'Sh 2', 'cells': [[3, 3, 'const', 'eval(1)'], [1, 1, 'formula', '=IF(Data!Y50>0,MAX(1,2),3)']]}]},
    'C': {'sheets': [{'title': 'Data', 'cells': DATA + [[26, 1, 'formula', '=SUM(Y50:Y52)'], [2, 2, 'const', "os.system('x')"],
                                                       [28, 101, 'const', 'Exec(x)']]},
                     {'title': 'Sh 2', 'cells': [[3, 3, 'const', 'SUM(1)']]}]},
}


def run_sequence(ops, paths, d):
    """ops over E D T W B C G X; returns list of problems [(key, text)] and the number of translate verdicts"""
    from excel2pycl import Parser, Cell
    p = Parser()
    on, cur = True, None
    problems, verdicts, trace = [], 0, []
    for i, op in enumerate(ops):
        if op == 'E':
            p.enable_safety_check()
            on = True
        elif op == 'D':
            p.disable_safety_check()
            on = False
        elif op in 'BCG':
            p.set_excel_file_path(paths[op])
            cur = op
        elif op == 'X':
            p.set_entrypoint_cell(Cell(0, 25, 0))
        elif op in 'TW':
            if op == 'T':
                outcome = attempt(p.get_translation)
            else:
                outcome = attempt(lambda: p.write_translation(os.path.join(d, 'seq_out.py')) and 'written')
            trace.append(outcome[0])
            verdicts += 1
            where = f'{ops[:i + 1]} (E/D = enable/disable, B/C = workbooks with suspicious constants, G = innocent workbook, ' \
                    f'T = get_translation, W = write_translation, X = set entry cell)'
            if cur is None:
                if outcome[0] == 'safety':
                    problems.append(('C19.gate.spurious', f'{where}: safety exception without a workbook'))
                continue
            cells = flat_cells(SEQ_WB[cur])
            has_S = any(c['info']['cls'] == 'S' for c in cells)
            if on and has_S:
                if outcome[0] != 'safety':
                    problems.append(('C19.gate.missed', f'{where}: check is on, workbook {cur} has suspicious cells, outcome '
                                     f'{outcome[0]} {str(outcome[1])[:60]!r} instead of E2PyclSafetyException'))
                else:
                    f, _ = judge(SEQ_WB[cur], cells, outcome, {'enabled': True}, False)
                    if f:
                        problems.append(('C19.gate.wrong_report', f'{where}: report {outcome[1]!r} is not that of workbook {cur}: {f[0]["what"][:150]}'))
            else:
                if outcome[0] == 'safety':
                    problems.append(('C19.gate.spurious' if not on else 'C19.gate.innocent_rejected',
                                     f'{where}: E2PyclSafetyException {outcome[1]!r} although ' +
                                     ('the check is off' if not on else 'the workbook has innocent cells only')))
                elif outcome[0] == 'other' and cur == 'G':
                    problems.append(('C19.gate.other_exception', f'{where}: innocent workbook rejected: {outcome[1]}'))
                elif outcome[0] == 'ok' and not outcome[1]:
                    problems.append(('C19.gate.no_translation', f'{where}: no translation returned ({outcome[1]!r})'))
    return problems, verdicts, trace


def _seq_chunk(seqs):
    fails, verdicts, nontriv = {}, 0, 0
    sample = None
    with lib.scratch() as d:
        paths = {}
        for k, spec in SEQ_WB.items():
            paths[k] = os.path.join(d, k + '.xlsx')
            write_wb(spec, paths[k])
        for ops in seqs:
            problems, v, trace = run_sequence(ops, paths, d)
            verdicts += v
            nontriv += 1
            if sample is None:
                sample = {'ops': ops, 'outcomes': trace}
            for key, text in problems:
                if key not in fails or len(text) < len(fails[key]['what']):
                    fails[key] = {'key': key, 'what': text, 'replay': {'kind': 'seq', 'ops': ops}}
    return list(fails.values()), verdicts, nontriv, sample


def sequence_sweep(tier, seed):
    t0 = time.time()
    rng = random.Random(seed * 1000003 + 77)
    L = 5 if tier == 'quick' else 6
    seqs = [''.join(p) + 'T' for p in itertools.product('EDTBG', repeat=L - 1)]
    # sequences that never select a workbook decide nothing
    seqs = [s for s in seqs if 'B' in s or 'G' in s]
    n_rand = 300 if tier == 'quick' else 6000
    extra = ['BDTEET', 'BDTETET', 'BDTEEW', 'DBTEET', 'BDTXEET', 'GTBT', 'GTDBTET', 'BTDTET', 'CTBTGT', 'DCTBTEET', 'BDWEEW', 'XBDTEET',
             'BDTGTBEET', 'DEBT', 'BDTEDET', 'BDTDEET', 'DBTECT', 'DBTEDTECT']
    for _ in range(n_rand):
        n = rng.randint(3, 12)
        s = ''.join(rng.choice('EEDDTTWBCGX') for _ in range(n - 1)) + rng.choice('TW')
        extra.append(s)
    allseqs = seqs + extra
    rng.shuffle(allseqs)
    res = pool_map(_seq_chunk, chunked(allseqs, NPROC * 4))
    fails = [f for r in res for f in r[0]]
    return {'name': 'C19.monitor.enable_disable_orders',
            'bound': f'one Parser object: every operation sequence of length <= {L} over enable, disable, get_translation, select bad '
                     f'workbook B, select innocent workbook G (all {len(seqs)} sequences of length {L} ending in a translation; shorter ones '
                     f'are their prefixes) plus {len(extra)} seeded sequences of length 3..12 that also use write_translation, a second bad '
                     'workbook C and set_entrypoint_cell (includes disable-translate-enable-enable-translate)',
            'rule': 'one evaluation = one get_translation / write_translation call: check on and current workbook has a suspicious cell -> '
                    'E2PyclSafetyException whose report is exactly that of the CURRENT workbook; otherwise never E2PyclSafetyException, and '
                    'the innocent workbook yields a translation; calls before a workbook is selected only require "no safety exception"',
            'exhaustive': True, 'evaluations': sum(r[1] for r in res), 'distinct_nontrivial': sum(r[2] for r in res),
            'failures': dedupe(fails), 'samples': [r[3] for r in res[:2] if r[3]], 'seconds': time.time() - t0}


# ------------------------------------------------------------------------------------------------ run / replay
def workbook_checks(tier, seed):
    t0 = time.time()
    pj = placement_jobs(tier, seed)
    ij = innocent_jobs(tier, seed)
    sj = special_jobs()
    rng = random.Random(seed + 5)
    tagged = [('P', j) for j in pj] + [('I', j) for j in ij] + [('X', j) for j in sj]
    rng.shuffle(tagged)
    chunks = chunked(tagged, NPROC * 4)
    res = pool_map(_tagged_chunk, chunks)
    secs = time.time() - t0
    fails = {'P': [], 'I': [], 'X': []}
    cnt = {'P': {}, 'I': {}, 'X': {}}
    samples = {'P': [], 'I': [], 'X': []}
    for r in res:
        for g in 'PIX':
            fails[g] += r[g][0]
            for k, v in r[g][1].items():
                cnt[g][k] = cnt[g].get(k, 0) + v
            samples[g] += r[g][2]
    checks = []

    def c(name, bound, rule, fl, ev, samp, exhaustive=False):
        checks.append({'name': name, 'bound': bound, 'rule': rule, 'exhaustive': exhaustive, 'evaluations': ev, 'distinct_nontrivial': ev,
                       'failures': dedupe(fl), 'samples': samp[:2], 'seconds': secs * (ev / max(1, total_ev))})
    P, I, X = cnt['P'], cnt['I'], cnt['X']
    g = lambda d, k: d.get(k, 0)  # noqa
    total_ev = sum(sum(d.values()) for d in (P, I, X))
    pf = fails['P']
    c('C19.monitor.rejected_and_listed',
      f'{len(pj)} workbooks: every single placement of a suspicious constant / formula on a 6 x 6 x 2 grid (144), '
      f'{N_MULTI[tier]} seeded workbooks with 1..6 sheets (titles {TITLES[:8]}..., hidden sheets), 1..7 suspicious cells from '
      f'{len(S_CONST) + len(S_FORM)} templates (eval(1), os.system(..), Exec(x), subprocess.Popen(x), f(), nested, several per cell, inside a '
      f'string literal, call behind position 50 / 300) in the grid or on columns {B_COLS} x rows {B_ROWS}, same text at the same address on two sheets; '
      f'every boundary column and row at least once; whole-file, entry-cell and write_translation runs',
      'one evaluation = one workbook verdict (rejected with E2PyclSafetyException) or one suspicious cell (listed under one of '
      "'<title>'<A1>, <title>!<A1>, '<title>'!<A1> of its own sheet; every reported key must name a filled cell)",
      [f for f in pf if f['check'] in ('rejected', 'listed')], g(P, 'rejected') + g(P, 'listed'), samples['P'])
    c('C19.monitor.fragments',
      'the suspicious cells of the same workbooks',
      'one evaluation = the fragment list of one listed cell: non-empty list of strings, each a part of that cell\'s own text, every '
      'offending call name( inside one of them; if no argument list holds a parenthesis the fragments are exactly the calls (a dotted '
      'prefix may be included); duplicates and order are free',
      [f for f in pf + fails['X'] if f['check'] == 'fragments'], g(P, 'listed') + g(X, 'listed'), samples['P'][1:])
    c('C19.monitor.innocent_never_listed',
      f'the innocent cells ({len(I_CONST)} constants such as "f (x)", "eval (1)", "SUM(A1)", "price (USD)"; {len(I_FORM)} formulas with '
      f'upper-case calls only or no call; numbers, booleans, dates) planted next to suspicious ones in the same workbooks',
      'one evaluation = one innocent cell in a rejected workbook: it must not be a key of the report',
      [f for f in pf if f['check'] == 'clean'], g(P, 'clean'), samples['P'][2:])
    c('C19.monitor.innocent_workbook_accepted',
      f'{len(ij)} workbooks of innocent cells only: each of the {len(I_CONST) + len(I_FORM) + len(I_VALUES)} innocent templates alone and '
      f'{N_INNOCENT[tier]} seeded mixtures of 1..12 cells on 1..5 sheets, near and far cells; whole-file, entry-cell and '
      'write_translation runs with the check on',
      'one evaluation = one run: no exception at all and a translation text is returned',
      [f for f in fails['I'] if f['check'] != 'disabled'], g(I, 'accepted'), samples['I'])
    c('C19.monitor.disabled_never_raises',
      'all workbooks of the other checks (suspicious, innocent, special) translated with disable_safety_check()',
      'one evaluation = one run with the check off: whatever happens, E2PyclSafetyException is not raised',
      [f for gname in 'PIX' for f in fails[gname] if f['check'] == 'disabled'], g(P, 'disabled') + g(I, 'disabled') + g(X, 'disabled'), samples['I'][1:])
    c('C19.monitor.special_texts',
      f'{len(sj)} workbooks: line break / tab inside and around the argument list (constant and formula), array formulas, texts of '
      '32 000 characters with the call at the end / start, 300 open parentheses before the call; innocent counterparts: Excel functions whose '
      'upper-case name holds digits (LOG10, ATAN2, DAYS360, HEX2DEC, SUMX2MY2), digits before a parenthesis (8(495)123-45-67), array formula '
      'with SUM, line break before the parenthesis; each alone and next to a plain eval(1)',
      'one evaluation = one workbook verdict or one cell verdict as above',
      [f for f in fails['X'] if f['check'] not in ('disabled', 'fragments')], g(X, 'rejected') + g(X, 'listed') + g(X, 'clean') + g(X, 'accepted'),
      samples['X'], exhaustive=True)
    return checks


def _tagged_chunk(tagged):
    out = {}
    for g in 'PIX':
        jobs = [j for (t, j) in tagged if t == g]
        out[g] = _work_specs(jobs) if jobs else ([], {}, [])
    return out


_SUFFIXES = ('.far.later_sheet', '.far', '.later_sheet')


def _split(key):
    for sfx in _SUFFIXES:
        if key.endswith(sfx):
            return key[:-len(sfx)], sfx
    return key, ''


def collapse(checks):
    """one failure per root cause: a key with a position suffix is dropped when the same key fails without it (or with a
    weaker suffix); three or more text tags failing only under one position suffix are one position-dependent root cause"""
    weaker = {'.far.later_sheet': ['', '.far', '.later_sheet'], '.far': [''], '.later_sheet': [''], '': []}
    for _ in range(2):
        keys = {f['key'] for c in checks for f in c['failures']}
        for c in checks:
            c['failures'] = [f for f in c['failures']
                             if not any(_split(f['key'])[0] + w in keys for w in weaker[_split(f['key'])[1]])]
        by_sfx = {}
        for c in checks:
            for f in c['failures']:
                base, sfx = _split(f['key'])
                if sfx and base.startswith('C19.missed.'):
                    by_sfx.setdefault(sfx, set()).add(base)
        for c in checks:
            for f in c['failures']:
                base, sfx = _split(f['key'])
                if sfx and base.startswith('C19.missed.') and len(by_sfx.get(sfx, ())) >= 3:
                    f['key'] = 'C19.missed.any_call' + sfx
            c['failures'] = dedupe(c['failures'])
    return checks


def run(tier='quick', seed=0):
    _selfcheck()
    checks = []
    checks += workbook_checks(tier, seed)
    checks.append(short_pipeline_sweep(tier))
    checks.append(helper_sweep(tier))
    checks.append(sequence_sweep(tier, seed))
    return {'checks': collapse(checks)}


def replay(payload):
    k = (payload or {}).get('kind')
    if k == 'wb':
        with lib.scratch() as d:
            fails, cnt, outs = run_spec(payload['spec'], [payload['mode']], payload.get('translatable', False), d)
        cells = [[sh['title'], c[0], c[1], c[2], (c[3] if isinstance(c[3], str) else '<value>')[:60]]
                 for sh in payload['spec']['sheets'] for c in sh['cells'] if c[0] != 25]
        return {'fails': bool(fails), 'text': f"workbook cells {cells!r}, mode {payload['mode']!r} -> outcome {outs[0]}; " +
                ('; '.join(f['key'] + ': ' + f['what'] for f in fails[:3]) if fails else 'contract holds')}
    if k == 'helper':
        from excel2pycl.src.excel import Excel
        text = payload['text']
        info = analyse(text)
        got = Excel._get_suspicious_constructions(text)
        if info['cls'] == 'S':
            bad = (not got) or fragments_problem(text, info, got) is not None
        elif info['cls'] in ('I_upper', 'I_none'):
            bad = bool(got)
        else:
            bad = False
        return {'fails': bool(bad), 'text': f"_get_suspicious_constructions({text!r}) -> {got!r}; text class {info['cls']} ({info['tag']})"}
    if k == 'seq':
        with lib.scratch() as d:
            paths = {}
            for name, spec in SEQ_WB.items():
                paths[name] = os.path.join(d, name + '.xlsx')
                write_wb(spec, paths[name])
            problems, v, trace = run_sequence(payload['ops'], paths, d)
        return {'fails': bool(problems), 'text': f"ops {payload['ops']} -> outcomes {trace}; " +
                ('; '.join(f'{a}: {b}' for a, b in problems[:3]) if problems else 'contract holds')}
    return {'fails': False, 'text': 'nothing to replay'}
