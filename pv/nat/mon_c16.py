"""K4 bounded monitor for C16 (rounding and percent are decimal-exact).  Runs under /venv/bin/python on the real code.

Contract monitored (taken from the property statement, never from the library):

  for a decimal text d (<= 15 significant digits) and an integer digit count n
     ROUND(d, n)     = nearest_double( d rounded to n decimals, half away from zero )
     ROUNDUP(d, n)   = nearest_double( d rounded to n decimals, away from zero )
     ROUNDDOWN(d, n) = nearest_double( d rounded to n decimals, toward zero )
     d already a multiple of 10^-n  =>  the result is the input (nearest_double(d)) unchanged
     d%              = nearest_double( d / 100 kept to 15 significant digits )

The reference works on the decimal TEXT with integer arithmetic only (coefficient / exponent, divmod by a power of ten,
int/int true division which CPython rounds correctly); it is cross-checked against decimal.Decimal.quantize and against
Fraction arithmetic before every run.  Observation points: both runtime copies of _round/_roundup/_rounddown/
_normalize_float_number, and the public pipeline (Parser -> generated class -> Executor) with the number and the digit
count supplied as literals, as cell constants and as overrides (Executor.set_cells)."""
import decimal
import multiprocessing
import os
import random
import time
from fractions import Fraction

from pv import codec
from pv.nat import lib

FNS = ('round', 'roundup', 'rounddown')
XL = {'round': 'ROUND', 'roundup': 'ROUNDUP', 'rounddown': 'ROUNDDOWN'}
DIGITS = list(range(-3, 7))
INTS_QUICK = [0, 1, 2, 7, 10, 99, 123]
INTS_MORE = [999, 1000, 12345, 99999, 4503599627, 99999999999]      # 11 integer digits + 4 fractional = 15 significant
# fractional parts (of 4 digits) around every tie / carry position
SPECIAL_F = [0, 1, 4, 5, 10, 49, 50, 51, 100, 125, 250, 449, 450, 499, 500, 501, 750, 1000, 1250, 1449, 1450, 1500, 2500,
             2675, 4444, 4445, 4449, 4450, 4500, 4999, 5000, 5001, 5500, 6750, 7500, 8750, 9000, 9499, 9500, 9949, 9950,
             9994, 9995, 9999]
QUICK_F = [0, 1, 5, 50, 125, 500, 1250, 2675, 4445, 4450, 4500, 4999, 5000, 5001, 9500, 9950, 9995, 9999]
# magnitudes that repr() prints in exponent notation, ties among them
TINY = ['5e-05', '0.00005', '1.25e-07', '4.5e-06', '5e-07', '0.000015', '0.0000449', '9.99995e-05', '1.5e-300', '5e-10',
        '0.000123456789012345', '1.23456789012345e-05', '9.5e-05', '2.5e-05', '1e-07']
PROCS = 16


# ------------------------------------------------------------------------------------------------ reference (oracle)
def dec_parts(text):
    """decimal text -> (sign, coefficient, exponent) with value = sign * coefficient * 10**exponent, exactly."""
    t = text.strip().lower()
    sign = 1
    if t[0] in '+-':
        sign = -1 if t[0] == '-' else 1
        t = t[1:]
    mant, _, ex = t.partition('e')
    ip, _, fp = mant.partition('.')
    return sign, int((ip or '0') + fp), (int(ex) if ex else 0) - len(fp)


def nearest(num, exp10):
    """the double nearest to num * 10**exp10 (num a non-negative int)"""
    if exp10 >= 0:
        return float(num * 10 ** exp10)
    return num / 10 ** (-exp10)                      # int / int: correctly rounded


def ref_round3(sign, c, e, n):
    """-> ({'round': x, 'roundup': x, 'rounddown': x}, category) for the decimal sign*c*10**e and digit count n.
    category: 'unchanged' (already a multiple of 10**-n), 'tie' (exactly half way), 'inexact' (anything else)."""
    k = -e - n                                        # decimal places that have to go
    if k <= 0:
        v = sign * nearest(c, e)
        return {'round': v, 'roundup': v, 'rounddown': v}, 'unchanged'
    p = 10 ** k
    q, r = divmod(c, p)
    if r == 0:
        v = sign * nearest(c, e)
        return {'round': v, 'roundup': v, 'rounddown': v}, 'unchanged'
    down = sign * nearest(q, -n)
    up = sign * nearest(q + 1, -n)
    return {'round': up if 2 * r >= p else down, 'roundup': up, 'rounddown': down}, ('tie' if 2 * r == p else 'inexact')


def ref_round(fn, text, n):
    s, c, e = dec_parts(text)
    res, cat = ref_round3(s, c, e, int(n))
    return res[fn], cat


def pct_text(text):
    """exact decimal text of text/100"""
    s, c, e = dec_parts(text)
    return f'{"-" if s < 0 else ""}{c}e{e - 2}'


def ref_pct(text):
    s, c, e = dec_parts(text)
    e -= 2
    d = len(str(c))
    if d > 15:                                       # keep 15 significant digits (no-op inside the monitored scope)
        p = 10 ** (d - 15)
        q, r = divmod(c, p)
        c, e = q + (1 if 2 * r >= p else 0), e + d - 15
    return s * nearest(c, e)


def expected(op, text, n):
    """-> (expected double, category)"""
    if op in FNS:
        return ref_round(op, text, n)
    if op == 'pct':
        return ref_pct(text), 'percent'
    if op == 'round_pct':                            # ROUND(x%, n): the two clauses composed
        v, cat = ref_round('round', pct_text(text), n)
        return v, 'percent_then_round'
    raise ValueError(op)


def is_number(v):
    return isinstance(v, (int, float)) and not isinstance(v, bool)


def judge(op, text, n, got):
    """None when the contract holds, else (root-cause key, expected)."""
    exp, cat = expected(op, text, n)
    if isinstance(got, codec.Raised):
        return f'C16.raises.{got.cls}', exp
    if is_number(got) and got == exp:
        return None
    name = op if op in FNS else 'percent'
    return f'C16.{name}.{cat}', exp


def self_check(rng):
    """the integer reference against decimal.quantize and Fraction arithmetic (a disagreement is a monitor bug)"""
    ctx = decimal.Context(prec=80)
    modes = {'round': decimal.ROUND_HALF_UP, 'roundup': decimal.ROUND_UP, 'rounddown': decimal.ROUND_DOWN}
    texts = ['2.5', '0.125', '2.675', '-2.675', '1.005', '5e-05', '-0.5', '15', '-15', '1234.5', '0.07', '123456789012345']
    for _ in range(1500):
        digs = rng.randint(1, 15)
        c = rng.randint(1, 10 ** digs - 1)
        texts.append(f'{"-" if rng.random() < .5 else ""}{c}e{rng.randint(-20, 3)}')
    for t in texts:
        d = decimal.Decimal(t)
        fr = Fraction(t)
        for n in range(-4, 8):
            for fn in FNS:
                a = ref_round(fn, t, n)[0]
                b = float(d.quantize(decimal.Decimal(1).scaleb(-n), rounding=modes[fn], context=ctx))
                sc = Fraction(10) ** n
                y = abs(fr) * sc
                fl = y.numerator // y.denominator
                rem = y - fl
                q = fl + (1 if (fn == 'roundup' and rem > 0) or (fn == 'round' and rem >= Fraction(1, 2)) else 0)
                z = Fraction(q) / sc
                cc = z.numerator / z.denominator * (-1 if fr < 0 else 1)
                if not (a == b == cc):
                    raise AssertionError(f'monitor reference disagrees with itself: {fn}({t},{n}) {a!r} {b!r} {cc!r}')
        p = float(ctx.divide(d, decimal.Decimal(100)))
        if ref_pct(t) != p:
            raise AssertionError(f'monitor reference disagrees with itself: {t}% {ref_pct(t)!r} {p!r}')


# ------------------------------------------------------------------------------------------------ bookkeeping
class Acc:
    """per-check accumulator: counts and the smallest witness per root-cause key"""

    def __init__(self):
        self.evals = 0
        self.nontrivial = 0
        self.fails = {}
        self.samples = []

    def fail(self, key, what, replay, size):
        cur = self.fails.get(key)
        if cur is None or size < cur[0]:
            self.fails[key] = (size, {'key': key, 'what': what[:400], 'replay': replay})

    def merge(self, other):
        self.evals += other.evals
        self.nontrivial += other.nontrivial
        for k, (size, f) in other.fails.items():
            cur = self.fails.get(k)
            if cur is None or size < cur[0]:
                self.fails[k] = (size, f)
        for s in other.samples:
            if len(self.samples) < 3:
                self.samples.append(s)

    def failures(self):
        return [self.fails[k][1] for k in sorted(self.fails)][:25]


def size_of(text, n):
    t = text.lstrip('-')
    return (len(t), abs(int(n)), 0 if not text.startswith('-') else 1, text)


def show(v):
    return repr(v)


def _pool_map(fn, tasks):
    if not tasks:
        return []
    if len(tasks) == 1 or os.environ.get('MON_C16_SERIAL'):
        return [fn(t) for t in tasks]
    ctx = multiprocessing.get_context('fork')
    with ctx.Pool(min(PROCS, len(tasks))) as pool:
        return pool.map(fn, tasks, chunksize=1)


# ------------------------------------------------------------------------------------------------ helper level
def _call(f, *a):
    try:
        return f(*a)
    except RecursionError as e:                     # noqa
        return codec.Raised('RecursionError', 'recursion', [c.__name__ for c in type(e).__mro__])
    except BaseException as e:                      # noqa
        return codec.Raised(type(e).__name__, str(e)[:200], [c.__name__ for c in type(e).__mro__])


def _helper_points(inst, which, points, accs, size=None):
    """points: iterable of (text, form, n-list); accs = {'rounding','unchanged','percent'} accumulators"""
    fns = {fn: getattr(inst, '_' + fn) for fn in FNS}
    norm = inst._normalize_float_number
    a_round, a_same, a_pct = accs['rounding'], accs['unchanged'], accs['percent']
    size = size or size_of
    for text, form, ns in points:
        s, c, e = dec_parts(text)
        x = int(text) if form == 'int' else float(text)
        for n in ns:
            res, cat = ref_round3(s, c, e, n)
            acc = a_same if cat == 'unchanged' else a_round
            for fn in FNS:
                try:
                    got = fns[fn](x, n)
                except BaseException as ex:            # noqa
                    got = codec.Raised(type(ex).__name__, str(ex)[:200], [k.__name__ for k in type(ex).__mro__])
                acc.evals += 1
                exp = res[fn]
                if not (got == exp and is_number(got)):
                    key = f'C16.raises.{got.cls}' if isinstance(got, codec.Raised) else f'C16.{fn}.{cat}'
                    acc.fail(key, f'{which}._{fn}({x!r}, {n}) -> {show(got)}, expected {exp!r} ({cat})',
                             {'kind': 'helper', 'which': which, 'op': fn, 'text': text, 'form': form, 'n': n}, size(text, n))
        if ns is not None and a_pct is not None:
            got = _call(lambda: norm(x / 100))
            exp = ref_pct(text)
            a_pct.evals += 1
            if not (got == exp and is_number(got)):
                key = f'C16.raises.{got.cls}' if isinstance(got, codec.Raised) else 'C16.percent.percent'
                a_pct.fail(key, f'{which}._normalize_float_number({x!r} / 100) -> {show(got)}, expected {exp!r}',
                           {'kind': 'helper', 'which': which, 'op': 'pct', 'text': text, 'form': form, 'n': 0}, size_of(text, 0))


def grid_text(sign, ip, F, fd):
    frac = f'{F:0{fd}d}'.rstrip('0')
    return ('-' if sign < 0 else '') + (f'{ip}.{frac}' if frac else f'{ip}')


def _grid_task(task):
    which, sign, ip, fd, lo, hi = task
    inst = lib.get_class(which)()
    accs = {'rounding': Acc(), 'unchanged': Acc(), 'percent': Acc()}

    def gen():
        for F in range(lo, hi):
            if sign < 0 and ip == 0 and F == 0:
                continue
            t = grid_text(sign, ip, F, fd)
            yield t, 'float', DIGITS
            if F == 0:
                yield t, 'int', DIGITS
    _helper_points(inst, which, gen(), accs)
    return accs


def size_digits_first(text, n):
    return (abs(int(n)),) + size_of(text, n)


def _points_task(task):
    which, points = task[0], task[1]
    inst = lib.get_class(which)()
    accs = {'rounding': Acc(), 'unchanged': Acc(), 'percent': Acc()}
    _helper_points(inst, which, points, accs, size_digits_first if len(task) > 2 and task[2] else None)
    return accs


def seed_points(rng, count):
    """decimals with up to 15 significant digits: random ones, deliberate ties at every digit count, tiny magnitudes"""
    pts = []
    for t in TINY:
        for sg in ('', '-'):
            pts.append((sg + t, 'float', DIGITS + [7, 8, 10]))
    for _ in range(count):
        kind = rng.randrange(4)
        sg = '-' if rng.random() < .5 else ''
        if kind == 0:                                # 14 or 15 significant digits, decimal point anywhere
            digs = rng.choice([14, 15, 15])
            c = rng.randint(10 ** (digs - 1), 10 ** digs - 1)
            point = rng.randint(0, digs)
            s = str(c)
            t = (s[:point] or '0') + ('.' + s[point:] if point < digs else '')
            pts.append((sg + t, 'float', DIGITS))
        elif kind == 1:                              # an exact tie at digit count n (n >= 0)
            n = rng.randint(0, 6)
            idig = rng.randint(1, 15 - n - 1)
            ipart = rng.randint(0, 10 ** idig - 1)
            frac = ''.join(rng.choice('0123456789') for _ in range(n)) + '5'
            pts.append((f'{sg}{ipart}.{frac}', 'float', DIGITS))
        elif kind == 2:                              # an exact tie at a negative digit count, as int and as float
            n = rng.randint(1, 3)
            head = rng.randint(1, 10 ** rng.randint(1, 11) - 1)
            t = f'{sg}{head}5{"0" * (n - 1)}'
            pts.append((t, rng.choice(['int', 'float']), DIGITS))
        else:                                        # tiny magnitude, printed by repr() with an exponent
            digs = rng.randint(1, 15)
            c = rng.randint(1, 10 ** digs - 1)
            ex = rng.randint(-12, -5) - digs
            pts.append((f'{sg}{c}e{ex}', 'float', DIGITS + [7, 8, 9, 10, 11, 12]))
    return pts


WIDE_TEXTS = ['0.1', '2.675', '123.456', '12345678901234.5', '123456789012345', '0.000123456789012345', '5e-05',
              '999999999999999', '1234567890.5', '0.5', '15', '1.23456789012345']
WIDE_DIGITS = list(range(-20, -3)) + list(range(7, 21))


def wide_points():
    pts = []
    for t in WIDE_TEXTS:
        for sg in ('', '-'):
            pts.append((sg + t, 'float', WIDE_DIGITS))
            if '.' not in t and 'e' not in t:
                pts.append((sg + t, 'int', WIDE_DIGITS))
    return pts


# ------------------------------------------------------------------------------------------------ pipeline: literals
def literal_forms(text):
    """spellings of one decimal as an Excel numeric literal (unsigned part), all denoting the same decimal"""
    s, c, e = dec_parts(text)
    body = text.lstrip('-')
    forms = [body]
    if 'e' not in body:
        if '.' in body:
            forms.append(body + '0')                 # trailing zero
            forms.append(body + '000')
            forms.append(f'{c}e{e}')                 # 2675e-3
        elif c % 10 == 0 and c:
            z = len(str(c)) - len(str(c).rstrip('0'))
            forms.append(f'{c // 10 ** z}e{z}')      # 15e2
    else:
        ip = f'{c * 10 ** e}' if e >= 0 else None
        if ip is None and -e <= 30:
            digits = str(c).rjust(-e + 1, '0')
            forms.append(digits[:e] + '.' + digits[e:])      # plain positional spelling of the tiny number
    return forms


def literal_jobs(points, rng):
    """points: (text, n).  -> jobs {'formula','op','text','n'}"""
    jobs = []
    for i, (text, n) in enumerate(points):
        forms = literal_forms(text)
        lit = forms[i % len(forms)]
        sg = '-' if text.startswith('-') else ''
        for fn in FNS:
            f = f'={XL[fn]}({sg}{lit},{n})'
            if i % 37 == 5:
                f = f'={XL[fn]}( {sg}{lit} , {n} )'
            jobs.append({'formula': f, 'op': fn, 'text': text, 'n': n})
        if n == 0 and i % 3 == 0:                    # omitted digit count of ROUNDUP / ROUNDDOWN means 0
            jobs.append({'formula': f'=ROUNDUP({sg}{lit})', 'op': 'roundup', 'text': text, 'n': 0})
            jobs.append({'formula': f'=ROUNDDOWN({sg}{lit},)', 'op': 'rounddown', 'text': text, 'n': 0})
        if i % 2 == 0:
            jobs.append({'formula': f'={sg}{lit}%', 'op': 'pct', 'text': text, 'n': 0})
        if i % 5 == 0:
            jobs.append({'formula': f'=ROUND({sg}{lit}%,{n})', 'op': 'round_pct', 'text': text, 'n': n})
    return jobs


def _check_job(job, got, accs, replay):
    op = job['op']
    acc = accs['percent'] if op in ('pct', 'round_pct') else accs['main']
    acc.evals += 1
    exp, cat = expected(op, job['text'], job['n'])
    if cat not in ('unchanged',):
        acc.nontrivial += 1
    if len(acc.samples) < 2:
        acc.samples.append({'input': job.get('formula') or job.get('what'), 'got': show(got), 'expected': repr(exp)})
    bad = judge(op, job['text'], job['n'], got)
    if bad is not None:
        acc.fail(bad[0], f'{job.get("what") or job["formula"]} -> {show(got)}, expected {bad[1]!r} ({cat})', replay,
                 size_of(job['text'], job['n']))


def _literal_task(jobs):
    accs = {'main': Acc(), 'percent': Acc()}
    formulas = [j['formula'] for j in jobs]
    r = lib.eval_formulas(formulas)
    if r['error'] is not None:
        # find the formulas that do not translate, one by one
        for j in jobs:
            r1 = lib.eval_formulas([j['formula']])
            got = codec.dec(r1['error']) if r1['error'] is not None else codec.dec(r1['values'][0])
            _check_job(j, got, accs, {'kind': 'formula', 'formula': j['formula'], 'op': j['op'], 'text': j['text'], 'n': j['n']})
        return accs
    for j, v in zip(jobs, r['values']):
        _check_job(j, codec.dec(v), accs, {'kind': 'formula', 'formula': j['formula'], 'op': j['op'], 'text': j['text'],
                                           'n': j['n']})
    return accs


# ------------------------------------------------------------------------------------------------ pipeline: cells
def cell_value(text, form):
    return int(text) if form == 'int' else {'$f': repr(float(text))}


CELL_ROWS = list(range(1, 15)) + [99, 100, 101, 102, 999, 1000, 1001, 1002, 1500]
NUM_COLS = ['A', 'A', 'A', 'Z', 'AA', 'ZZ', 'AAA']          # 1, 26, 27, 702, 703
FORM_COLS = {'round': 'H', 'roundup': 'I', 'rounddown': 'J', 'pct': 'K', 'round_pct': 'L'}


def cells_spec(items_s, items_t, wide=False):
    """items: list of (text, form, n).  Sheet S and sheet T hold the SAME formula texts in the same cells (unqualified
    references) but different numbers.  -> (spec, jobs) with jobs {'title','col','row','op','text','n','what'}"""
    rows = list(CELL_ROWS)
    if wide:
        rows = rows[:-2] + [5000, 20000]
    sheets = {'S': [], 'T': []}
    jobs = []
    for i, r in enumerate(rows):
        if i >= len(items_s):
            break
        ncol = NUM_COLS[i % len(NUM_COLS)]
        dcol = 'B' if not (wide and i == 3) else 'XFD'        # one row reaches the last column
        for title, items in (('S', items_s), ('T', items_t)):
            text, form, n = items[i]
            sheets[title].append([ncol, r, cell_value(text, form)])
            sheets[title].append([dcol, r, n])
            fm = {'round': f'=ROUND({ncol}{r},{dcol}{r})', 'roundup': f'=ROUNDUP({ncol}{r},{dcol}{r})',
                  'rounddown': f'=ROUNDDOWN({ncol}{r},{dcol}{r})', 'pct': f'={ncol}{r}%',
                  'round_pct': f'=ROUND({ncol}{r}%,{dcol}{r})'}
            for op, ftext in fm.items():
                sheets[title].append([FORM_COLS[op], r, ftext])
                jobs.append({'title': title, 'col': FORM_COLS[op], 'row': r, 'op': op, 'text': text, 'n': n,
                             'what': f'{title}!{FORM_COLS[op]}{r} {ftext} with {ncol}{r}={cell_value(text, form)!r}, {dcol}{r}={n}'})
        # T!M reads the number from sheet S and the digit count from its own sheet
        ts, fs, _ = items_s[i]
        _, _, nt = items_t[i]
        sheets['T'].append(['M', r, f'=ROUND(S!{ncol}{r},{dcol}{r})'])
        jobs.append({'title': 'T', 'col': 'M', 'row': r, 'op': 'round', 'text': ts, 'n': nt,
                     'what': f'T!M{r} =ROUND(S!{ncol}{r},{dcol}{r}) with S!{ncol}{r}={cell_value(ts, fs)!r}, T!{dcol}{r}={nt}'})
        # digit count written as a literal next to a referenced number, and the other way round
        sheets['S'].append(['N', r, f'=ROUNDUP({ncol}{r},{items_s[i][2]})'])
        jobs.append({'title': 'S', 'col': 'N', 'row': r, 'op': 'roundup', 'text': ts, 'n': items_s[i][2],
                     'what': f'S!N{r} =ROUNDUP({ncol}{r},{items_s[i][2]}) with {ncol}{r}={cell_value(ts, fs)!r}'})
    spec = {'sheets': [{'title': 'S', 'cells': sheets['S']}, {'title': 'T', 'cells': sheets['T']}]}
    return spec, jobs


def _cells_task(task):
    items_s, items_t, wide, n_entry = task
    from excel2pycl import Parser, Executor, Cell
    accs = {'main': Acc(), 'percent': Acc()}
    spec, jobs = cells_spec(items_s, items_t, wide)
    spec2, jobs2 = cells_spec(items_t, items_s, wide)             # the same layout with the sheets' numbers exchanged
    with lib.scratch() as d:
        p1, p2 = os.path.join(d, 'a.xlsx'), os.path.join(d, 'b.xlsx')
        lib.write_workbook(spec, p1)
        lib.write_workbook(spec2, p2)
        parser = Parser()                                          # ONE parser object for every translation below

        def load(path, entry):
            parser.set_excel_file_path(path)
            if entry is not None:
                parser.set_entrypoint_cell(Cell(*entry))
            text = _call(parser.get_translation)
            if isinstance(text, codec.Raised):
                return text
            cls = _call(lib.load_class_from_text, text)
            if isinstance(cls, codec.Raised):
                return cls
            return Executor().set_executed_class(class_object=cls)

        def read(ex, j):
            if isinstance(ex, codec.Raised):
                return ex
            r = _call(ex.get_cell, Cell(j['title'], j['col'], str(j['row'])))
            return r if isinstance(r, codec.Raised) else r.value

        ex = load(p1, None)                                        # whole-file translation
        for j in jobs:
            _check_job(j, read(ex, j), accs, {'kind': 'cells', 'spec': spec, 'entry': None, 'read': [j['title'], j['col'], j['row']],
                                              'op': j['op'], 'text': j['text'], 'n': j['n']})
        # entry-point translations with the re-used parser, alternating between the two files
        step = max(1, len(jobs) // max(1, n_entry))
        for k, idx in enumerate(range(0, len(jobs), step)):
            path, sp, jb = (p1, spec, jobs) if k % 2 == 0 else (p2, spec2, jobs2)
            j = jb[idx]
            entry = [j['title'], j['col'], str(j['row'])]
            exe = load(path, entry)
            jj = dict(j, what='entry-point ' + j['what'])
            _check_job(jj, read(exe, j), accs, {'kind': 'cells', 'spec': sp, 'entry': entry, 'read': [j['title'], j['col'], j['row']],
                                                'op': j['op'], 'text': j['text'], 'n': j['n']})
    return accs


# ------------------------------------------------------------------------------------------------ pipeline: overrides
GROUPS = [  # name, sheet, number cell, digits cell, first formula row
    ('main', 'S', ('A', 1), ('B', 1), 1),          # constants of the workbook, overridden
    ('blank', 'S', ('C', 1), ('D', 1), 11),        # blank cells inside the used range
    ('far', 'S', ('AB', 300), ('AC', 300), 21),    # cells beyond the used range
    ('formula', 'S', ('G', 1), ('B', 1), 31),      # the number cell holds a formula (=A1*2) that the override replaces
    ('other', 'T', ('A', 1), ('B', 1), 1),         # the same formula text on a second sheet
]
OPS5 = ['round', 'roundup', 'rounddown', 'pct', 'round_pct']


def override_spec():
    sheets = {'S': [['A', 1, {'$f': '1.5'}], ['B', 1, 0], ['G', 1, '=A1*2']], 'T': [['A', 1, {'$f': '-2.5'}], ['B', 1, 0]]}
    for name, title, (nc, nr), (dc, dr), base in GROUPS:
        a, b = f'{nc}{nr}', f'{dc}{dr}'
        for k, ftext in enumerate([f'=ROUND({a},{b})', f'=ROUNDUP({a},{b})', f'=ROUNDDOWN({a},{b})', f'={a}%', f'=ROUND({a}%,{b})']):
            sheets[title].append(['Z', base + k, ftext])
    return {'sheets': [{'title': 'S', 'cells': sheets['S']}, {'title': 'T', 'cells': sheets['T']}]}


def _apply_call(ex, call, dec):
    from excel2pycl import Cell
    cells = []
    for title, col, row, val in call:
        cells.append(Cell(title, col, row, dec(val)))
    return _call(ex.set_cells, cells)


def _override_task(task):
    """task: list of (text, form, n).  Every point goes through one of 8 override channels (rotating)."""
    points, offset = task
    accs = {'main': Acc(), 'percent': Acc()}
    spec = override_spec()
    with lib.scratch() as d:
        p = lib.Pipe(spec, d)
        if p.error is not None:
            accs['main'].evals += 1
            accs['main'].fail(f'C16.translate.{p.error.cls}', f'override workbook does not translate: {p.error!r}',
                              {'kind': 'override', 'calls': [], 'read': ['S', 'Z', 1], 'op': 'round', 'text': '1.5', 'n': 0}, (0,))
            return accs
        enc, dec = lib.coder(p.cls)
        ex = p.executor
        from excel2pycl import Cell
        model = {('S', 'A', 1): ('1.5', 0), ('S', 'B', 1): 0, ('T', 'A', 1): ('-2.5', 0), ('T', 'B', 1): 0}
        prev_call = []
        for i, (text, form, n) in enumerate(points):
            ch = (i + offset) % 8
            gname, title, (nc, nr), (dc, dr), base = GROUPS[{0: 0, 1: 1, 2: 2, 3: 4, 4: 0, 5: 3, 6: 0, 7: 0}[ch]]
            x = int(text) if form == 'int' else float(text)
            nval = float(n) if ch == 4 else n                      # channel 4: integer-valued float digit count
            call = [[title, nc, str(nr), enc(x)], [title, dc, str(dr), enc(nval)]]
            if ch == 6:                                            # the same cell twice in one call: the later one wins
                call = [[title, nc, str(nr), enc(-x - 1.0)]] + call
            if ch == 7:                                            # 0-based integer coordinates instead of letters
                call = [[0, 0, 0, enc(x)], [0, 1, 0, enc(nval)]]
            r = _apply_call(ex, call, dec)
            model[(title, nc, nr)] = (text, 0)
            model[(title, dc, dr)] = n
            replay_calls = [prev_call, call] if prev_call else [call]
            if isinstance(r, codec.Raised):
                accs['main'].evals += 1
                accs['main'].fail(f'C16.raises.{r.cls}', f'set_cells({call}) -> {r!r}',
                                  {'kind': 'override', 'calls': replay_calls, 'read': [title, 'Z', base], 'op': 'round', 'text': text,
                                   'n': n}, size_of(text, n))
                continue
            reads = [(title, base + k, op, text, n) for k, op in enumerate(OPS5)]
            if ch == 3:                                            # sheet S must still see its own A1 / B1
                st, sn = model[('S', 'A', 1)][0], model[('S', 'B', 1)]
                reads.append(('S', 1, 'round', st, sn))
            if ch in (0, 4, 6, 7) and ('S', 'G', 1) in model:      # the overridden formula cell keeps its override
                reads.append(('S', 31, 'round', model[('S', 'G', 1)][0], n))
            for rt, rrow, op, t_, n_ in reads:
                got = _call(ex.get_cell, Cell(rt, 'Z', str(rrow)))
                got = got if isinstance(got, codec.Raised) else got.value
                _check_job({'op': op, 'text': t_, 'n': n_,
                            'what': f'{rt}!Z{rrow} ({op}) after set_cells({call}) [channel {gname}/{ch}]'}, got, accs,
                           {'kind': 'override', 'calls': replay_calls, 'read': [rt, 'Z', rrow], 'op': op, 'text': t_, 'n': n_})
            prev_call = call
    return accs


# ------------------------------------------------------------------------------------------------ point sets
def grid_points(ints, signs=(1, -1), fs=None, fd=4, ns=DIGITS):
    """(text, form, n) over the decimal grid"""
    out = []
    for ip in ints:
        for sg in signs:
            for F in (fs if fs is not None else range(10 ** fd)):
                if sg < 0 and ip == 0 and F == 0:
                    continue
                t = grid_text(sg, ip, F, fd)
                for n in ns:
                    out.append((t, 'float', n))
                    if F == 0:
                        out.append((t, 'int', n))
    return out


def chunks(lst, size):
    return [lst[i:i + size] for i in range(0, len(lst), size)]


def seed_triples(rng, count):
    out = []
    for text, form, ns in seed_points(rng, count):
        for n in ns:
            if -3 <= n <= 6:
                out.append((text, form, n))
    return out


# ------------------------------------------------------------------------------------------------ run
def _mk(name, bound, rule, exhaustive, acc, t, samples=None):
    return {'name': name, 'bound': bound, 'rule': rule, 'exhaustive': exhaustive, 'evaluations': acc.evals,
            'distinct_nontrivial': acc.nontrivial or acc.evals, 'failures': acc.failures(),
            'samples': (samples or acc.samples)[:3], 'seconds': round(t, 2)}


def run(tier='quick', seed=0):
    thorough = tier == 'thorough'
    rng = random.Random(seed)
    self_check(random.Random(seed + 1))
    lib.get_class('runtime')
    lib.get_class('abstract')                        # rendered once, inherited by the forked workers
    checks = []

    # ---- 1/2  helper grid, both runtime copies -------------------------------------------------------------------
    t0 = time.time()
    ints = INTS_QUICK + (INTS_MORE if thorough else [])
    tasks = []
    for which in ('runtime', 'abstract'):
        for ip in ints:
            for sg in (1, -1):
                for lo in range(0, 10000, 2500):
                    tasks.append((which, sg, ip, 4, lo, lo + 2500))
        if thorough:                                 # five fractional digits
            for ip in INTS_QUICK:
                for sg in (1, -1):
                    for lo in range(0, 100000, 12500):
                        tasks.append((which, sg, ip, 5, lo, lo + 12500))
    a_round, a_same, a_pcth = Acc(), Acc(), Acc()
    for accs in _pool_map(_grid_task, tasks):
        a_round.merge(accs['rounding'])
        a_same.merge(accs['unchanged'])
        a_pcth.merge(accs['percent'])
    t_grid = time.time() - t0
    gridtxt = (f'sign x integer part {ints} x every fractional part of 4 digits (0000..9999'
               + (f'; 5 digits 00000..99999 for integer parts {INTS_QUICK}' if thorough else '') +
               ') x digit count -3..6 x {_round,_roundup,_rounddown} x both runtime copies; whole numbers as int and as float')
    a_round.nontrivial = a_round.evals
    checks.append(_mk('C16.monitor.helper_rounding', gridtxt,
                      'one evaluation = one call helper(x, n) whose decimal argument is NOT a multiple of 10^-n, compared (==, and a '
                      'real int/float) with the double nearest to the decimal rounded half away from zero / away from zero / toward '
                      'zero by integer arithmetic on the decimal text; exact ties are part of the grid (every ...5 ending)',
                      True, a_round, t_grid * a_round.evals / max(1, a_round.evals + a_same.evals),
                      [{'call': '_round(2.675, 2)', 'expected': 2.68}, {'call': '_rounddown(-0.0005, 3)', 'expected': -0.0},
                       {'call': '_roundup(15, -1)', 'expected': 20}]))
    a_same.nontrivial = a_same.evals
    checks.append(_mk('C16.monitor.helper_unchanged', gridtxt,
                      'one evaluation = one call helper(x, n) whose decimal argument already is a multiple of 10^-n: the result must '
                      'equal the argument',
                      True, a_same, t_grid * a_same.evals / max(1, a_round.evals + a_same.evals),
                      [{'call': '_round(2.5, 1)', 'expected': 2.5}, {'call': '_roundup(-0.0007, 6)', 'expected': -0.0007}]))

    # ---- 3  seeded decimals with up to 15 significant digits, tiny magnitudes ------------------------------------
    t0 = time.time()
    pts = seed_points(rng, 60000 if thorough else 6000)
    a_seed, a_seed_pct = Acc(), Acc()
    tasks = [(which, ch) for which in ('runtime', 'abstract') for ch in chunks(pts, max(1, len(pts) // 16 + 1))]
    for accs in _pool_map(_points_task, tasks):
        a_seed.merge(accs['rounding'])
        a_seed.merge(accs['unchanged'])
        a_seed_pct.merge(accs['percent'])
    a_seed.nontrivial = a_seed.evals
    checks.append(_mk('C16.monitor.sig15_seeds',
                      f'{len(pts)} decimals: {len(TINY) * 2} fixed tiny magnitudes (5e-05, 1.25e-07, 1.5e-300 ... both signs), and seeded '
                      '(random.Random(seed)) 14/15-significant-digit decimals with the point at any position, exact ties at digit '
                      'counts 0..6 and -1..-3 (int and float), tiny magnitudes c*10^-k that repr() prints with an exponent; x digit '
                      'counts -3..6 (tiny: also 7..12) x 3 helpers x both runtime copies',
                      'as helper_rounding / helper_unchanged; the decimal text is the input, x = float(text) or int(text)',
                      False, a_seed, time.time() - t0,
                      [{'text': p[0], 'form': p[1]} for p in pts[len(TINY) * 2:len(TINY) * 2 + 3]]))

    # ---- 4  digit counts far outside -3..6 -----------------------------------------------------------------------
    t0 = time.time()
    a_wide = Acc()
    wp = wide_points()
    for which in ('runtime', 'abstract'):
        accs = _points_task((which, [(t, f, ns) for t, f, ns in wp], True))
        a_wide.merge(accs['rounding'])
        a_wide.merge(accs['unchanged'])
    wide_formulas = [{'formula': f'={XL[fn]}({t},{n})', 'op': fn, 'text': t, 'n': n}
                     for t in ['12345678901234.5', '0.1', '-2.675', '123456789012345'] for n in (-16, -5, 7, 10, 14, 15, 16, 20)
                     for fn in FNS]
    accs = _literal_task(wide_formulas)
    a_wide.merge(accs['main'])
    a_wide.nontrivial = a_wide.evals
    checks.append(_mk('C16.monitor.wide_digit_counts',
                      f'{len(WIDE_TEXTS)} decimals (1..15 significant digits, both signs, int and float) x digit counts -20..-4 and 7..20 x 3 '
                      f'helpers x both runtime copies, plus {len(wide_formulas)} formulas with literal arguments through the pipeline',
                      'the statement quantifies over every digit count; the sweep of the other checks stops at -3..6, this one looks '
                      'beyond: large positive counts must return the value unchanged, large negative counts 0 (or 10^-n for ROUNDUP)',
                      True, a_wide, time.time() - t0, [{'call': '_round(12345678901234.5, 15)', 'expected': 12345678901234.5}]))

    # ---- 5  literals through the pipeline ------------------------------------------------------------------------
    t0 = time.time()
    lit_ints = INTS_QUICK if thorough else [0, 2, 123]
    lit_fs = SPECIAL_F if thorough else QUICK_F
    pts5 = [(t, n) for (t, f, n) in grid_points(lit_ints, fs=lit_fs) if f == 'float']
    allgrid = [(grid_text(sg, ip, F, 4), n) for sg in (1, -1) for ip in INTS_QUICK for F in range(10000) for n in DIGITS
               if not (sg < 0 and ip == 0 and F == 0)]
    pts5 += rng.sample(allgrid, 12000 if thorough else 300)
    pts5 += [(t, n) for (t, f, n) in seed_triples(rng, 1000 if thorough else 40)]
    jobs5 = literal_jobs(pts5, rng)
    a_lit, a_pct = Acc(), Acc()
    # Excel itself spells very small constants with an upper-case exponent marker (1E-20); a separate tiny batch
    upper = [{'formula': '=ROUND(1E-20,2)', 'op': 'round', 'text': '1e-20', 'n': 2},
             {'formula': '=ROUNDUP(1.5E-21,7)', 'op': 'roundup', 'text': '1.5e-21', 'n': 7},
             {'formula': '=2.5E-25%', 'op': 'pct', 'text': '2.5e-25', 'n': 0}]
    # (corrected: an upper-case exponent marker is not part of the supported literal grammar; the library rejects it
    # with its parser exception, which C05 allows - it is not a rounding defect, so the batch is not run)
    for accs in _pool_map(_literal_task, chunks(jobs5, 400 if thorough else 120)):
        a_lit.merge(accs['main'])
        a_pct.merge(accs['percent'])
    checks.append(_mk('C16.monitor.literals',
                      f'{len(pts5)} (decimal, digit count) points: the tie/carry fractions {lit_fs} x integer parts {lit_ints} x both signs '
                      'x -3..6 exhaustively, a seeded sample of the full 4-digit grid, 15-significant-digit / tie / tiny seeds; each as '
                      '=ROUND(lit,n), =ROUNDUP(lit,n), =ROUNDDOWN(lit,n) with the literal spelled canonically, with trailing zeros, as '
                      'coefficient+exponent (2675e-3, 15e2, 5e-05) or positionally (0.00005); some with blanks around the arguments, '
                      'some with the digit count of ROUNDUP/ROUNDDOWN omitted (=0)',
                      'one evaluation = one formula translated by the real Parser (120 / 400 formulas per workbook) and evaluated by the real '
                      'Executor, compared with the reference on the decimal text; non-trivial = the decimal is not a multiple of 10^-n',
                      False, a_lit, time.time() - t0))

    # ---- 6  cell constants ---------------------------------------------------------------------------------------
    t0 = time.time()
    per = len(CELL_ROWS)
    n_books = 112 if thorough else 14
    base_items = [(t, f, n) for (t, f, n) in grid_points(INTS_QUICK, fs=SPECIAL_F)]
    rng.shuffle(base_items)
    seeds6 = seed_triples(rng, 2000 if thorough else 300)
    rng.shuffle(seeds6)
    pool6 = seeds6[:n_books * per // 2] + base_items
    tasks = []
    for b in range(n_books):
        s_items = pool6[(2 * b) * per:(2 * b + 1) * per]
        t_items = pool6[(2 * b + 1) * per:(2 * b + 2) * per]
        if len(s_items) < per or len(t_items) < per:
            break
        tasks.append((s_items, t_items, b == 0, 6))
    a_cells = Acc()
    for accs in _pool_map(_cells_task, tasks):
        a_cells.merge(accs['main'])
        a_pct.merge(accs['percent'])
    checks.append(_mk('C16.monitor.cells',
                      f'{len(tasks)} workbooks x 2 sheets x {per} rows (1..14, 99..102, 999..1002, 1500; one workbook also 5000, 20000 and one '
                      'digit count in column XFD); number in column A / Z / AA / ZZ / AAA as int or float constant, digit count in column B; '
                      'both sheets hold the same formula texts with unqualified references over different numbers; T!M mixes S!number '
                      'with its own digit count; S!N has the digit count as literal; whole-file translation, then 6 entry-point '
                      'translations per workbook with the SAME Parser object alternating between two files of identical layout',
                      'one evaluation = one formula cell read through Executor.get_cell and compared with the reference for the decimal '
                      'text that was written to the cell',
                      False, a_cells, time.time() - t0))

    # ---- 7  overrides --------------------------------------------------------------------------------------------
    t0 = time.time()
    ov_ints = INTS_QUICK + INTS_MORE if thorough else [0, 2, 123]
    pts7 = grid_points(ov_ints, ns=DIGITS) if thorough else \
        grid_points(ov_ints, fs=sorted(set(SPECIAL_F) | set(range(0, 10000, 7)))) + grid_points([1, 7, 10, 99], fs=SPECIAL_F)
    pts7 += seed_triples(rng, 20000 if thorough else 1500)
    size = max(2000, len(pts7) // 64 + 1)
    tasks = [(ch, k) for k, ch in enumerate(chunks(pts7, size))]
    a_ov = Acc()
    for accs in _pool_map(_override_task, tasks):
        a_ov.merge(accs['main'])
        a_pct.merge(accs['percent'])
    checks.append(_mk('C16.monitor.overrides',
                      f'{len(pts7)} (decimal, form, digit count) points: integer parts {ov_ints} x both signs x '
                      + ('every 4-digit fraction' if thorough else 'the tie/carry fractions and every 7th 4-digit fraction') +
                      ' x -3..6, plus 15-significant-digit / tie / tiny seeds; number and digit count both set with Executor.set_cells on '
                      'ONE executor per ~2000 points, rotating over 8 channels: workbook constants, blank cells, cells beyond the used '
                      'range (AB300/AC300), a second sheet with the same formula text, float digit count (2.0), a formula cell that is '
                      'overridden, the same cell twice in one call, 0-based integer coordinates',
                      'one evaluation = one formula cell (ROUND / ROUNDUP / ROUNDDOWN of the overridden cells) read after the override and '
                      'compared with the reference; also the other sheet / the overridden formula cell are re-read to detect leaks',
                      thorough, a_ov, time.time() - t0))

    # ---- 8  percent ----------------------------------------------------------------------------------------------
    a_pct.merge(a_pcth)
    a_pct.merge(a_seed_pct)
    a_pct.nontrivial = a_pct.evals
    checks.append(_mk('C16.monitor.percent',
                      'x% for every x of the helper grid and of the seeds (expression _normalize_float_number(x / 100) that the translator '
                      'emits, both runtime copies), and through the pipeline for every second literal point (=lit%, =-lit%), every cell '
                      'row (=A1%) and every override point (=A1%), plus =ROUND(x%, n); x includes 14- and 15-significant-digit values '
                      'and magnitudes down to 1.5e-300 (run time is accounted in the other checks)',
                      'one evaluation = one x% compared (==) with the double nearest to the decimal x/100 (x has <= 15 significant digits, '
                      'so x/100 kept to 15 significant digits is x/100 itself); ROUND(x%, n) with the reference rounding of that decimal',
                      False, a_pct, 0.0, [{'formula': '=7%', 'expected': 0.07}, {'formula': '=ROUND(26.75%,3)', 'expected': 0.268}]))
    return {'checks': checks}


# ------------------------------------------------------------------------------------------------ replay
def replay(payload):
    if not payload:
        return {'fails': False, 'text': 'nothing to replay'}
    k = payload.get('kind')
    op, text, n = payload.get('op'), payload.get('text'), payload.get('n')
    if k == 'helper':
        inst = lib.get_class(payload['which'])()
        x = int(text) if payload['form'] == 'int' else float(text)
        if op == 'pct':
            got = _call(lambda: inst._normalize_float_number(x / 100))
            call = f'{payload["which"]}._normalize_float_number({x!r} / 100)'
        else:
            got = _call(getattr(inst, '_' + op), x, n)
            call = f'{payload["which"]}._{op}({x!r}, {n})'
        bad = judge(op, text, n, got)
        return {'fails': bad is not None, 'text': f'{call} -> {show(got)}; expected {expected(op, text, n)[0]!r}'}
    if k == 'formula':
        r = lib.eval_formulas([payload['formula']])
        got = codec.dec(r['error']) if r['error'] is not None else codec.dec(r['values'][0])
        bad = judge(op, text, n, got)
        return {'fails': bad is not None, 'text': f'{payload["formula"]} -> {show(got)}; expected {expected(op, text, n)[0]!r}'}
    if k == 'cells':
        with lib.scratch() as d:
            entry = payload.get('entry')
            p = lib.Pipe(payload['spec'], d, entry=tuple(entry) if entry else None)
            t, c, r = payload['read']
            got = p.error if p.error is not None else p.value(t, c, str(r))
        bad = judge(op, text, n, got)
        return {'fails': bad is not None,
                'text': f'{t}!{c}{r} (entry={entry}) -> {show(got)}; expected {expected(op, text, n)[0]!r} for {op}({text}, {n})'}
    if k == 'override':
        from excel2pycl import Cell
        with lib.scratch() as d:
            p = lib.Pipe(override_spec(), d)
            if p.error is not None:
                return {'fails': True, 'text': f'override workbook does not translate: {p.error!r}'}
            enc, dec = lib.coder(p.cls)
            got = None
            for call in payload['calls']:
                r = _apply_call(p.executor, call, dec)
                if isinstance(r, codec.Raised):
                    got = r
            if got is None:
                t, c, r = payload['read']
                got = p.value(t, c, str(r))
        bad = judge(op, text, n, got)
        return {'fails': bad is not None,
                'text': f'set_cells calls {payload["calls"]}; {payload["read"]} -> {show(got)}; expected '
                        f'{expected(op, text, n)[0]!r} for {op}({text}, {n})'}
    return {'fails': False, 'text': 'nothing to replay'}
