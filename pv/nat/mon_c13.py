"""K4 bounded monitor for C13 (IF / IFS / IFERROR choose the right branch and contain errors).

Runs under /venv/bin/python on the real code.  The contract is an independent *lazy* reference evaluator written from
the property statement:

  IF(c,t[,f])      -> value of t when c is true (a non-zero number / TRUE), value of f (FALSE when omitted) otherwise;
                      only the chosen branch is evaluated
  IFS(c1,v1,...)   -> value paired with the first true condition (later pairs are not evaluated), #N/A when none is true
  IFERROR(x,fb)    -> fb exactly when x evaluates to one of the seven Excel error values or its evaluation fails,
                      the value of x otherwise (fb is not evaluated then)

observed where the property says: the value (or the absence of an exception) of generated nests in operand / argument
positions of other operators and functions, through Parser -> generated class -> Executor, under cell constants, literals
and Executor.set_cells overrides; plus the helpers _ifs / _iferror in both runtime copies.

Inputs for which the statement has no clause (text or error value as a condition, an error value as operand of an
operator or of another function, bool/blank in SUM/MAX/MIN, ...) evaluate to UNSPEC in the reference and are skipped."""
import datetime
import itertools
import json
import math
import multiprocessing
import os
import random
import time
from fractions import Fraction

from pv import codec
from pv.nat import lib

ERRS = ('#NULL!', '#DIV/0!', '#VALUE!', '#REF!', '#NAME?', '#NUM!', '#N/A')


class _Blank:
    def __repr__(self):
        return 'BLANK'


BLANK = _Blank()
RAISE = ('raise',)
UNSPEC = ('unspec',)
WILD = ('wild',)      # eager defect models only: an error value produced by the defect reached an operator / function


def V(x):
    return ('v', x)


def ERR(code):
    return ('err', code)


def is_num(x):
    return x is BLANK or isinstance(x, (bool, int, float, Fraction))


def frac(x):
    if x is BLANK:
        return Fraction(0)
    if isinstance(x, bool):
        return Fraction(int(x))
    return Fraction(x)


def is_plain_num(x):
    return isinstance(x, (int, float, Fraction)) and not isinstance(x, bool)


# ------------------------------------------------------------------------------------------------ reference evaluator
def _operand(o, eager=()):
    """outcome of an operand that is not a plain value -> outcome of the whole operator / function application"""
    if o[0] == 'raise':
        return RAISE
    if eager and o[0] in ('err', 'wild'):
        return WILD
    return UNSPEC


def _seq(nodes, env, eager):
    """Operands are evaluated left to right; the first one that is not a plain value decides."""
    vals = []
    for a in nodes:
        o = ev(a, env, eager)
        if o[0] != 'v':
            return _operand(o, eager), None
        vals.append(o[1])
    return None, vals


_CMP = {'=': lambda a, b: a == b, '<>': lambda a, b: a != b, '<': lambda a, b: a < b, '<=': lambda a, b: a <= b,
        '>': lambda a, b: a > b, '>=': lambda a, b: a >= b}


def ev(n, env, eager=()):
    """Lazy reference semantics.  `eager` (used ONLY to group failures under the defects known at design time) may
    contain 'ifs' (all IFS arguments are evaluated first and scanned for an error value) and 'iferror' (the fallback is
    evaluated before the guarded argument)."""
    k = n[0]
    if k == 'lit':
        return V(n[2])
    if k == 'ref':
        o = env[n[1]]
        if o[0] == 'fwd':
            return env[o[1]]
        return o
    if k == 'paren':
        return ev(n[1], env, eager)
    if k == 'neg':
        o = ev(n[1], env, eager)
        if o[0] != 'v':
            return _operand(o, eager)
        return V(-frac(o[1])) if is_num(o[1]) else UNSPEC
    if k == 'bin':
        op = n[1]
        bad, vals = _seq([n[2], n[3]], env, eager)
        if bad:
            return bad
        a, b = vals
        if op in _CMP:
            if not ((is_plain_num(a) or a is BLANK) and (is_plain_num(b) or b is BLANK)):
                return UNSPEC
            return V(_CMP[op](frac(a), frac(b)))
        if not (is_num(a) and is_num(b)):
            return UNSPEC
        x, y = frac(a), frac(b)
        if op == '/' and y == 0:
            return RAISE
        r = x + y if op == '+' else x - y if op == '-' else x * y if op == '*' else x / y
        if r != 0 and not (Fraction(1, 10 ** 300) < abs(r) < 10 ** 300):
            return UNSPEC                      # outside the comfortable range of doubles: no clause
        return V(r)
    if k == 'amp':
        bad, vals = _seq([n[1], n[2]], env, eager)
        if bad:
            return bad
        if not all((type(v) is int) or isinstance(v, str) for v in vals):
            return UNSPEC
        return V(str(vals[0]) + str(vals[1]))
    if k == 'fn':
        name = n[1]
        bad, vals = _seq(n[2], env, eager)
        if bad:
            return bad
        if name in ('AND', 'OR'):
            if not all(is_num(v) for v in vals):
                return UNSPEC
            ts = [frac(v) != 0 for v in vals]
            return V(all(ts) if name == 'AND' else any(ts))
        if name == 'SUM':
            if not all(is_plain_num(v) or v is BLANK for v in vals):
                return UNSPEC
            return V(sum((frac(v) for v in vals), Fraction(0)))
        if name in ('MAX', 'MIN'):
            if not all(is_plain_num(v) for v in vals):
                return UNSPEC
            return V((max if name == 'MAX' else min)(frac(v) for v in vals))
        if name == 'ROUND0':
            if not is_plain_num(vals[0]):
                return UNSPEC
            x = frac(vals[0])
            return V(Fraction(math.floor(x + Fraction(1, 2))) if x >= 0 else -Fraction(math.floor(-x + Fraction(1, 2))))
        raise ValueError(name)
    if k == 'if':
        c = ev(n[1], env, eager)
        if c[0] != 'v':
            return _operand(c, eager)
        if not is_num(c[1]):
            return UNSPEC
        if frac(c[1]) != 0:
            return ev(n[2], env, eager)
        return V(False) if n[3] is None else ev(n[3], env, eager)
    if k == 'ifs':
        args = n[1]
        if 'ifs' in eager:
            outs = []
            for a in args:
                o = ev(a, env, eager)
                if o[0] in ('raise', 'unspec', 'wild'):
                    return o
                outs.append(o)
            for o in outs:
                if o[0] == 'err':
                    return o
            for i in range(0, len(outs), 2):
                if not is_num(outs[i][1]):
                    return UNSPEC
                if frac(outs[i][1]) != 0:
                    return outs[i + 1]
            return ERR('#N/A')
        for i in range(0, len(args), 2):
            c = ev(args[i], env, eager)
            if c[0] != 'v':
                return _operand(c, eager)
            if not is_num(c[1]):
                return UNSPEC
            if frac(c[1]) != 0:
                return ev(args[i + 1], env, eager)
        return ERR('#N/A')
    if k == 'iferror':
        if 'iferror' in eager:
            fb = ev(n[2], env, eager)
            if fb[0] in ('raise', 'unspec', 'wild'):
                return fb
        x = ev(n[1], env, eager)
        if x[0] in ('unspec', 'wild'):
            return x
        if x[0] in ('raise', 'err'):
            return ev(n[2], env, eager)
        return x
    raise ValueError(k)


def agree(got, exp, Empty):
    """Does the observed result `got` (value or codec.Raised) satisfy the reference outcome `exp`?"""
    if exp[0] == 'wild':
        return True
    if exp[0] == 'raise':
        return isinstance(got, codec.Raised) or (type(got) is str and got in ERRS)
    if isinstance(got, codec.Raised):
        return False
    if exp[0] == 'err':
        return type(got) is str and got == exp[1]
    x = exp[1]
    if x is BLANK:
        return isinstance(got, Empty)
    if isinstance(got, Empty):
        return False
    if isinstance(x, bool):
        return type(got) is bool and got == x
    if isinstance(x, str):
        return type(got) is str and got == x
    if isinstance(x, (datetime.datetime, datetime.date)):
        return type(got) is type(x) and got == x
    if isinstance(x, (int, float, Fraction)):
        if isinstance(got, bool) or not isinstance(got, (int, float)):
            return False
        if isinstance(got, float) and not math.isfinite(got):
            return False
        if isinstance(x, (int, float)) and not isinstance(x, Fraction):
            if isinstance(x, float) and not math.isfinite(x):
                return False
            if got == x:
                return True
        fx = Fraction(x)
        return abs(Fraction(got) - fx) <= Fraction(1, 10 ** 9) * max(1, abs(fx))
    return False


def show(o):
    if o[0] == 'v':
        x = o[1]
        return repr(float(x)) if isinstance(x, Fraction) and x.denominator != 1 else repr(int(x)) if isinstance(x, Fraction) else repr(x)
    if o[0] == 'err':
        return o[1]
    return 'an error (exception or Excel error value)' if o[0] == 'raise' else 'unspecified'


# ------------------------------------------------------------------------------------------------ rendering
def _prec(n):
    if n[0] == 'bin':
        return 0 if n[1] in _CMP else 1 if n[1] in '+-' else 2
    return 3 if n[0] == 'neg' else 9


def _operand_text(child, parent_prec, right, sep):
    """User brackets only where Excel and Python precedence / associativity would otherwise regroup the operands (and
    always around an operator expression under a comparison or &: operator precedence is another property's subject)."""
    t = render(child, sep)
    if child[0] in ('bin', 'neg', 'amp'):
        cp = _prec(child)
        if parent_prec in (0, 9) or cp < parent_prec or (right and cp <= parent_prec) or child[0] == 'amp':
            return '(' + t + ')'
    return t


def render(n, sep=','):
    k = n[0]
    if k == 'lit':
        return n[1]
    if k == 'ref':
        return n[1]
    if k == 'paren':
        return '(' + render(n[1], sep) + ')'
    if k == 'neg':
        return '-' + _operand_text(n[1], 3, False, sep)
    if k == 'bin':
        pr = _prec(n)
        return _operand_text(n[2], pr, False, sep) + n[1] + _operand_text(n[3], pr, True, sep)
    if k == 'amp':
        return _operand_text(n[1], 9, False, sep) + '&' + _operand_text(n[2], 9, False, sep)
    if k == 'fn':
        if n[1] == 'ROUND0':
            return 'ROUND(' + render(n[2][0], sep) + sep + '0)'
        return n[1] + '(' + sep.join(render(a, sep) for a in n[2]) + ')'
    if k == 'if':
        parts = [render(n[1], sep), render(n[2], sep)] + ([] if n[3] is None else [render(n[3], sep)])
        return 'IF(' + sep.join(parts) + ')'
    if k == 'ifs':
        return 'IFS(' + sep.join(render(a, sep) for a in n[1]) + ')'
    if k == 'iferror':
        return 'IFERROR(' + render(n[1], sep) + sep + render(n[2], sep) + ')'
    raise ValueError(k)


def constructs(n, acc=None):
    acc = set() if acc is None else acc
    if isinstance(n, (list, tuple)):
        if n and n[0] in ('if', 'ifs', 'iferror'):
            acc.add(n[0])
        for c in n:
            if isinstance(c, (list, tuple)):
                constructs(c, acc)
    return acc


def call_depth(n):
    """nesting depth of calls and brackets; the library's backtracking parser needs ~5-8x more time per level
    (depth 3: 0.07 s, 4: 1 s, 5: 4 s, 6: 30 s per formula), so the generators bound it"""
    if not isinstance(n, tuple) or not n or n[0] in ('lit', 'ref'):
        return 0
    sub = 0
    for c in n[1:]:
        if isinstance(c, tuple):
            if c and isinstance(c[0], tuple):
                sub = max([sub] + [call_depth(x) for x in c])
            else:
                sub = max(sub, call_depth(c))
    return sub + (1 if n[0] in ('if', 'ifs', 'iferror', 'fn', 'paren') else 0)


def to_tuple(j):
    return tuple(to_tuple(x) for x in j) if isinstance(j, list) else j


def lit(v):
    if v is True:
        return ('lit', 'TRUE', True)
    if v is False:
        return ('lit', 'FALSE', False)
    if isinstance(v, str):
        return ('lit', '"' + v + '"', v)
    return ('lit', repr(v), v)


def ref(name):
    return ('ref', name)


DIV0 = ('bin', '/', lit(1), lit(0))


# ------------------------------------------------------------------------------------------------ the workbook model
VARS = ['A1', 'A2', 'A3', 'A4']
INITIAL = {'A1': True, 'A2': False, 'A3': 1, 'A4': BLANK}          # cell constants of the workbook (A4 is never written)
LONGTEXT = 'x' * 60
DATE2051 = datetime.datetime(2051, 1, 1)
# name -> (cell content written with openpyxl or None, reference outcome)
FIXED = {
    'B1': (7, V(7)), 'B2': (2.5, V(2.5)), 'B3': (None, V(BLANK)), 'B4': ('#N/A', ERR('#N/A')), 'B5': ('=1/0', RAISE),
    'B6': ('txt', V('txt')), 'B7': (0, V(0)), 'B8': ('=A1', ('fwd', 'A1')), 'B9': ('=A2', ('fwd', 'A2')),
    'B10': ('=A3', ('fwd', 'A3')), 'B11': ('=A4', ('fwd', 'A4')), 'B12': ('#DIV/0!', ERR('#DIV/0!')), 'B13': (-3, V(-3)),
    'B14': ('#VALUE!', ERR('#VALUE!')), 'B15': ('=B4', ERR('#N/A')), 'B17': (DATE2051, V(DATE2051)),
    'B18': (LONGTEXT, V(LONGTEXT)), 'ZZ500': (None, V(BLANK)),
}
FWD = {'A1': 'B8', 'A2': 'B9', 'A3': 'B10', 'A4': 'B11'}
TRUE_REPS = [True, 1, 2, -1, 0.5, 1e-9, -0.25, 9007199254740993, 1e308]
FALSE_REPS = [False, 0, 0.0, -0.0, BLANK]


def split_ref(name):
    i = 0
    while name[i].isalpha():
        i += 1
    return name[:i], int(name[i:])


def base_cells():
    cells = []
    for name, v in INITIAL.items():
        if v is not BLANK:
            col, row = split_ref(name)
            cells.append([col, row, codec.enc(v)])
    for name, (content, _) in FIXED.items():
        if content is not None:
            col, row = split_ref(name)
            cells.append([col, row, codec.enc(content)])
    return cells


def make_env(assign):
    env = {name: out for name, (_, out) in FIXED.items()}
    for name in VARS:
        env[name] = V(assign.get(name, INITIAL[name]) if assign is not None else INITIAL[name])
    return env


def enc_rep(v):
    return {'$e': 1} if v is BLANK else codec.enc(v)


def dec_rep(j, Empty):
    if isinstance(j, dict) and '$e' in j:
        return Empty()
    return codec.dec(j)


def oracle_rep(j):
    if isinstance(j, dict) and '$e' in j:
        return BLANK
    return codec.dec(j)


def classify(ast, env, got, Empty, where):
    """Root-cause key of a mismatch: one of the defects known at design time if the matching eager model explains the
    observation, otherwise a key made of the constructs involved and the kind of disagreement."""
    for mode in (('ifs',), ('iferror',), ('ifs', 'iferror')):
        o = ev(ast, env, eager=mode)
        # the lazy reference is specified here, so an unspecified / wild outcome of the eager model can only come from a
        # sub-expression that the statement says is not evaluated at all: the eager defect explains the observation
        if o[0] in ('unspec', 'wild') or agree(got, o, Empty):
            if mode == ('ifs',):
                return 'C13.ifs.eager_args_raise' if isinstance(got, codec.Raised) and o[0] != 'wild' else 'C13.ifs.eager_error_scan'
            if mode == ('iferror',):
                return 'C13.iferror.eager_fallback'
            return 'C13.ifs+iferror.eager'
    exp = ev(ast, env)
    if isinstance(got, codec.Raised):
        kind = 'spurious_failure'
    elif exp[0] == 'raise':
        kind = 'error_swallowed'
    else:
        kind = 'wrong_value'
    cs = '+'.join(sorted(constructs(ast))) or 'none'
    return f'C13.{where}.{cs}.{kind}'


def _sheet_spec(formulas, extra_cells=()):
    cells = base_cells() + [list(c) for c in extra_cells]
    for i, f in enumerate(formulas):
        cells.append(['Z', i + 1, '=' + f])
    return {'sheets': [{'title': 'S', 'cells': cells}]}


def _apply(p, assign_enc):
    from excel2pycl import Cell
    Empty = p.cls.EmptyCell
    cells = []
    for name, j in assign_enc.items():
        col, row = split_ref(name)
        cells.append(Cell(0, col, str(row), dec_rep(j, Empty)))
    p.executor.set_cells(cells)


def eval_batch(job):
    """Top-level pool worker.  job = {'where', 'formulas': [(text, ast)], 'assigns': [None | {var: enc}], 'entry': bool}
    One evaluation = one (formula, assignment) pair whose reference outcome is specified."""
    where = job['where']
    formulas = job['formulas']
    out = {'evaluations': 0, 'skipped': 0, 'failures': [], 'samples': [], 'translated': len(formulas)}
    with lib.scratch() as d:
        p = lib.Pipe(_sheet_spec([t for t, _ in formulas]), d, safety=False)
        if p.error is not None:
            # find the formula(s) that do not translate (each alone)
            for t, a in formulas:
                with lib.scratch() as d2:
                    q = lib.Pipe(_sheet_spec([t]), d2, safety=False)
                    if q.error is not None:
                        out['failures'].append({'key': f'C13.{where}.translate.{q.error.cls}',
                                                'what': f'={t} does not translate: {q.error!r}',
                                                'replay': {'kind': 'nest', 'formula': t, 'ast': a, 'assign': None}})
                        break
            else:
                out['failures'].append({'key': f'C13.{where}.translate.batch', 'what': f'batch does not translate: {p.error!r}',
                                        'replay': None})
            return out
        Empty = p.cls.EmptyCell
        asts = [to_tuple(a) for _, a in formulas]
        for assign in job['assigns']:
            if assign is not None:
                _apply(p, assign)
                env = make_env({k: oracle_rep(j) for k, j in assign.items()})
            else:
                env = make_env(None)
            for i, (t, _) in enumerate(formulas):
                exp = ev(asts[i], env)
                if exp[0] == 'unspec':
                    out['skipped'] += 1
                    continue
                got = p.value(0, 25, i)
                out['evaluations'] += 1
                if len(out['samples']) < 2 and i == len(formulas) // 2:
                    out['samples'].append({'formula': '=' + t, 'assign': assign, 'expected': show(exp), 'observed': repr(got)[:80]})
                if not agree(got, exp, Empty):
                    out['failures'].append({
                        'key': classify(asts[i], env, got, Empty, where),
                        'what': f'={_one_line(t)} with {_fmt_assign(assign)} -> {got!r}, expected {show(exp)}',
                        'size': len(t),
                        'replay': {'kind': 'nest', 'formula': t, 'ast': formulas[i][1], 'assign': assign}})
    # keep the smallest witness per key inside the batch
    best = {}
    for f in out['failures']:
        if f['key'] not in best or f.get('size', 0) < best[f['key']].get('size', 0):
            best[f['key']] = f
    out['failures'] = list(best.values())
    return out


def _one_line(t):
    return t.replace('\n', '\\n')


def _fmt_assign(assign):
    if assign is None:
        return 'cell constants A1=TRUE, A2=FALSE, A3=1, A4 blank'
    return 'overrides ' + ', '.join(f'{k}={"blank" if isinstance(j, dict) and "$e" in j else codec.dec(j)!r}' for k, j in sorted(assign.items()))


def replay_nest(payload):
    t, ast, assign = payload['formula'], to_tuple(payload['ast']), payload.get('assign')
    with lib.scratch() as d:
        p = lib.Pipe(_sheet_spec([t]), d, safety=False)
        if p.error is not None:
            return {'fails': True, 'text': f'={t} does not translate: {p.error!r}'}
        Empty = p.cls.EmptyCell
        if assign is not None:
            _apply(p, assign)
            env = make_env({k: oracle_rep(j) for k, j in assign.items()})
        else:
            env = make_env(None)
        exp = ev(ast, env)
        got = p.value(0, 25, 0)
        return {'fails': exp[0] != 'unspec' and not agree(got, exp, Empty),
                'text': f'={t} with {_fmt_assign(assign)} -> {got!r}; the lazy reference gives {show(exp)}'}


# ------------------------------------------------------------------------------------------------ nest generator
# slot kinds: c = condition, v = value / branch, x = guarded argument of IFERROR, T = literal TRUE (IFS default idiom)
SHAPES = {
    'IF3': ('if', ['c', 'v', 'v']),
    'IF2': ('if', ['c', 'v']),
    'IFS1': ('ifs', ['c', 'v']),
    'IFS2': ('ifs', ['c', 'v', 'c', 'v']),
    'IFS3T': ('ifs', ['c', 'v', 'c', 'v', 'T', 'v']),
    'IFERR': ('iferror', ['x', 'v']),
}
SHAPE_NAMES = list(SHAPES)
NESTABLE = {s: [i for i, k in enumerate(SHAPES[s][1]) if k != 'T'] for s in SHAPES}


def mk(shape, fills):
    kind = SHAPES[shape][0]
    if kind == 'if':
        return ('if', fills[0], fills[1], fills[2] if len(fills) > 2 else None)
    if kind == 'ifs':
        return ('ifs', tuple(fills))
    return ('iferror', fills[0], fills[1])


class Gen:
    """Deterministic leaf supply: fresh condition variables (A1..A4 cyclically, every third one read through a
    forwarding formula cell), distinct branch values, failing leaves by fail mode."""

    def __init__(self, fm, start=0):
        self.fm, self.nc, self.nv, self.nf = fm, start, 10, 0

    def var(self):
        name = VARS[self.nc % 4]
        self.nc += 1
        return name

    def cond(self):
        name = self.var()
        return ref(FWD[name]) if self.nc % 3 == 0 else ref(name)

    def value(self):
        self.nv += 1
        return lit(self.nv)

    def failing(self):
        self.nf += 1
        if self.fm == 1:
            return DIV0 if self.nf % 2 else ref('B5')
        if self.fm == 2:
            return ref('B4') if self.nf % 2 else ref('B12')
        return ('bin', '/', lit(1), ref('B7'))

    def leaf(self, kind, role, first_v):
        if kind == 'T':
            return lit(True)
        if kind == 'c':
            return self.cond()
        if kind == 'x':
            if self.fm == 0:
                return self.cond() if role == 'c' else self.value()
            if self.fm == 1:
                return DIV0
            if self.fm == 2:
                return ref('B4')
            return ('bin', '/', lit(1), ref(self.var()))
        # a value / branch slot
        if role == 'c':
            if self.fm in (1, 3) and not first_v:
                return self.failing()
            self.nv += 1
            return [lit(True), lit(False), lit(1), lit(0), lit(2), lit(0.5)][(self.nv // 2) % 6] if self.nv % 2 else ref(self.var())
        if self.fm == 0 or (self.fm == 3 and first_v):
            self.nv += 1
            special = {15: ref('B3'), 17: lit('yes'), 19: lit(0), 21: lit(False), 23: ref('B2'), 25: ref('B17'), 27: ref('B18'),
                       29: ref('ZZ500')}
            return special.get(self.nv, lit(self.nv))
        return self.failing()


V_MID = [None, lambda e: ('bin', '+', e, lit(1)), lambda e: ('bin', '*', lit(2), e), lambda e: ('neg', e), lambda e: ('paren', e),
         lambda e: ('fn', 'SUM', (e, lit(100))), lambda e: ('bin', '-', lit(10), e), lambda e: ('bin', '/', e, lit(2))]
C_MID = [None, lambda e: ('fn', 'AND', (e, lit(True))), lambda e: ('fn', 'OR', (lit(False), e)), lambda e: ('paren', e)]
# the library's backtracking parser needs ~5x more time per function level, so deeper nests are wrapped by operators only
V_MID_LIGHT = [w for i, w in enumerate(V_MID) if i != 5]
C_MID_LIGHT = [None, lambda e: ('paren', e), None]


def build(path, role, g, mid=0, light=False):
    """path = [(shape, slot), ..., (shape, None)]: the construct at path[i+1] sits in slot `slot` of path[i]."""
    shape, slot = path[0]
    kinds = SHAPES[shape][1]
    fills, first_v = [], True
    for i, kind in enumerate(kinds):
        if i == slot and len(path) > 1:
            sub_role = 'c' if (kind == 'c' or role == 'c') else 'v'
            sub = build(path[1:], sub_role, g, mid, light)
            mids = (C_MID_LIGHT if light else C_MID) if sub_role == 'c' else (V_MID_LIGHT if light else V_MID)
            wrap = mids[mid % len(mids)]
            fills.append(wrap(sub) if wrap else sub)
        else:
            fills.append(g.leaf(kind, role, first_v))
        if kind in ('v', 'x'):
            first_v = False
    return mk(shape, fills)


def _if_small(g):
    return ('if', ref(g.var()), lit(1000), lit(2000))


# positions of a nest E inside a larger expression (IF/IFS/IFERROR as operand without user brackets, as argument)
CONTEXTS = [
    ('bare', lambda e, g: e),
    ('E+3', lambda e, g: ('bin', '+', e, lit(3))),
    ('3+E', lambda e, g: ('bin', '+', lit(3), e)),
    ('E-3', lambda e, g: ('bin', '-', e, lit(3))),
    ('10-E', lambda e, g: ('bin', '-', lit(10), e)),
    ('E*2', lambda e, g: ('bin', '*', e, lit(2))),
    ('2*E', lambda e, g: ('bin', '*', lit(2), e)),
    ('E/2', lambda e, g: ('bin', '/', e, lit(2))),
    ('12/E', lambda e, g: ('bin', '/', lit(12), e)),
    ('-E', lambda e, g: ('neg', e)),
    ('(E)*2', lambda e, g: ('bin', '*', ('paren', e), lit(2))),
    ('E=11', lambda e, g: ('bin', '=', e, lit(11))),
    ('11=E', lambda e, g: ('bin', '=', lit(11), e)),
    ('E<>11', lambda e, g: ('bin', '<>', e, lit(11))),
    ('E<12', lambda e, g: ('bin', '<', e, lit(12))),
    ('12>=E', lambda e, g: ('bin', '>=', lit(12), e)),
    ('E>B1', lambda e, g: ('bin', '>', e, ref('B1'))),
    ('SUM(E,100)', lambda e, g: ('fn', 'SUM', (e, lit(100)))),
    ('SUM(100,E)', lambda e, g: ('fn', 'SUM', (lit(100), e))),
    ('MAX(E,5)', lambda e, g: ('fn', 'MAX', (e, lit(5)))),
    ('MIN(50,E)', lambda e, g: ('fn', 'MIN', (lit(50), e))),
    ('AND(E,TRUE)', lambda e, g: ('fn', 'AND', (e, lit(True)))),
    ('OR(FALSE,E)', lambda e, g: ('fn', 'OR', (lit(False), e))),
    ('ROUND(E,0)', lambda e, g: ('fn', 'ROUND0', (e,))),
    ('E&"x"', lambda e, g: ('amp', e, lit('x'))),
    ('E+IF', lambda e, g: ('bin', '+', e, _if_small(g))),
    ('IF*E', lambda e, g: ('bin', '*', _if_small(g), e)),
    ('E<IF', lambda e, g: ('bin', '<', e, _if_small(g))),
    ('1+E*2', lambda e, g: ('bin', '+', lit(1), ('bin', '*', e, lit(2)))),
    ('IFERROR(12/E,-1)', lambda e, g: ('iferror', ('bin', '/', lit(12), e), lit(-1))),
]
SEPS = [',', ';', ', ', ' ;\n ']
HEAVY_CTX = [i for i, (name, _) in enumerate(CONTEXTS) if '(' in name and not name.startswith('(E)')]
LIGHT_CTX = [i for i in range(len(CONTEXTS)) if i not in HEAVY_CTX]


def chains(depth):
    """every chain of `depth` constructs: each construct sits in one nestable slot of its parent"""
    if depth == 1:
        for s in SHAPE_NAMES:
            yield [(s, None)]
        return
    for s in SHAPE_NAMES:
        for slot in NESTABLE[s]:
            for rest in chains(depth - 1):
                yield [(s, slot)] + rest


def chain_name(path):
    return '>'.join(s if slot is None else f'{s}[{slot}]' for s, slot in path)


def gen_chain_formulas(depth, fms, ctx_ids, start=0, cap=4):
    """[(text, ast)] for every chain of the depth x fail mode x context index (deterministic).  The wrapper between the
    levels is advanced until the call depth of the formula is <= cap (parser cost)."""
    out = []
    n = start
    for path in chains(depth):
        for fm in fms:
            for ci in ctx_ids(n):
                if depth >= 3:
                    ci = HEAVY_CTX[ci % len(HEAVY_CTX)] if n % 12 == 5 else LIGHT_CTX[ci % len(LIGHT_CTX)]
                ci %= len(CONTEXTS)
                for k in range(9):
                    g = Gen(fm, start=n)
                    if k < 8:
                        e = build(path, 'v', g, mid=n + k, light=depth >= 3 or (depth == 2 and ci in HEAVY_CTX))
                        ast = CONTEXTS[ci][1](e, g)
                    else:
                        ast = build(path, 'v', g, mid=0, light=True)        # no wrapper, bare position
                    if call_depth(ast) <= cap:
                        break
                out.append((render(ast, SEPS[n % len(SEPS)]), ast))
                n += 1
    return out


def gen_random_tree(rng, depth, role, g):
    """a full random tree: every nestable slot holds a nested construct with probability 1/2 (depth permitting)"""
    shape = rng.choice(SHAPE_NAMES)
    kinds = SHAPES[shape][1]
    fills, first_v = [], True
    for kind in kinds:
        if kind != 'T' and depth > 1 and rng.random() < 0.5:
            sub_role = 'c' if (kind == 'c' or role == 'c') else 'v'
            g.fm = rng.choice([0, 0, 1, 2, 3])
            sub = gen_random_tree(rng, depth - 1, sub_role, g)
            mids = (C_MID if depth == 2 else C_MID_LIGHT) if sub_role == 'c' else (V_MID if depth == 2 else V_MID_LIGHT)
            wrap = rng.choice(mids)
            fills.append(wrap(sub) if wrap else sub)
        else:
            g.fm = rng.choice([0, 0, 1, 2, 3])
            fills.append(g.leaf(kind, role, first_v))
        if kind in ('v', 'x'):
            first_v = False
    return mk(shape, fills)


def gen_random_formulas(rng, count, cap=4):
    """rejection sampling of random trees whose call depth is <= cap"""
    out = []
    while len(out) < count:
        g = Gen(0, start=rng.randrange(4))
        e = gen_random_tree(rng, 3, 'v', g)
        ast = CONTEXTS[rng.choice(HEAVY_CTX) if rng.random() < 0.2 else rng.choice(LIGHT_CTX)][1](e, g)
        if call_depth(ast) <= cap and constructs(ast):
            out.append((render(ast, rng.choice(SEPS)), ast))
    return out


def truth_assignments(rng, draws):
    """None (the cell constants) + every truth vector over A1..A4, `draws` times with representations drawn by rng"""
    res = [None]
    for _ in range(draws):
        for bits in itertools.product([True, False], repeat=4):
            res.append({v: enc_rep(rng.choice(TRUE_REPS if b else FALSE_REPS)) for v, b in zip(VARS, bits)})
    return res


def dedupe(formulas):
    seen, out = set(), []
    for t, a in formulas:
        if t not in seen:
            seen.add(t)
            out.append((t, a))
    return out


def run_jobs(where, formulas, assigns, chunk=120, procs=16):
    jobs = [{'where': where, 'formulas': formulas[i:i + chunk], 'assigns': assigns} for i in range(0, len(formulas), chunk)]
    if not jobs:
        return {'evaluations': 0, 'skipped': 0, 'failures': [], 'samples': [], 'translated': 0}
    if len(jobs) == 1 or procs <= 1:
        results = [eval_batch(j) for j in jobs]
    else:
        with multiprocessing.Pool(min(procs, len(jobs))) as pool:
            results = pool.map(eval_batch, jobs, chunksize=1)
    tot = {'evaluations': 0, 'skipped': 0, 'failures': [], 'samples': [], 'translated': 0}
    best = {}
    for r in results:
        tot['evaluations'] += r['evaluations']
        tot['skipped'] += r['skipped']
        tot['translated'] += r['translated']
        tot['samples'] += r['samples']
        for f in r['failures']:
            if f['key'] not in best or f.get('size', 0) < best[f['key']].get('size', 0):
                best[f['key']] = f
    tot['failures'] = [best[k] for k in sorted(best)]
    tot['samples'] = tot['samples'][:3]
    return tot


# ------------------------------------------------------------------------------------------------ check: single constructs
def basic_formulas():
    """Depth-1 forms of the three constructs: every condition source x branch form."""
    conds = [ref('A1'), ref('B8'), ('paren', ref('A1')), ('fn', 'AND', (ref('A1'), lit(True))), ('fn', 'OR', (ref('A1'), lit(False))),
             ('if', ref('A1'), lit(True), lit(False)), ('bin', '>', ref('B1'), lit(5)), ('bin', '>', ref('B13'), lit(0)),
             ('bin', '>=', ref('B2'), lit(2.5)), ('bin', '=', ref('B7'), lit(0)), ('bin', '<>', ref('B1'), lit(7)),
             ('bin', '<', ref('B1'), lit(7.5)), ref('B1'), ref('B2'), ref('B3'), ref('B7'), ref('B13'), ref('ZZ500'),
             lit(True), lit(False), ('lit', 'TRUE()', True), ('lit', 'FALSE()', False), lit(0), lit(1), lit(2), lit(0.5),
             ('lit', '0.0', 0.0), ('lit', '1e-3', 0.001), ('lit', '0e5', 0), ('neg', lit(1)), ('bin', '-', lit(1), lit(1)),
             ('bin', '*', ref('A1'), lit(1)), DIV0, ref('B5')]
    branches = [(lit(11), lit(12)), (lit(11), None), (lit(11), DIV0), (DIV0, lit(12)), (ref('B5'), lit(12)), (lit(11), ref('B5')),
                (lit('yes'), lit('no')), (ref('B3'), lit(12)), (lit(11), ref('B3')), (lit(0), lit(False)), (lit(False), lit(0)),
                (ref('B4'), lit(12)), (lit(11), ref('B12')), (ref('B17'), ref('B18')), (lit(2.5), ref('B13')), (lit(''), lit(11)),
                (ref('B6'), ref('ZZ500')), (('bin', '/', lit(1), ref('A2')), ('bin', '/', lit(1), ref('A1')))]
    out = []
    for c in conds:
        for t, f in branches:
            out.append(('if', c, t, f))
        # IFS: the same condition as first / second / no true pair
        out.append(('ifs', (c, lit(11))))
        out.append(('ifs', (c, lit(11), lit(True), lit(12))))
        out.append(('ifs', (lit(False), lit(11), c, lit(12))))
        out.append(('ifs', (c, lit(0), lit(True), lit(12))))
        out.append(('ifs', (c, ref('B3'), lit(True), lit(12))))
        out.append(('ifs', (c, lit(False), lit(1), lit(12))))
        out.append(('ifs', (c, ref('B4'), lit(True), lit(12))))
        out.append(('ifs', (c, lit(11), lit(True), ref('B4'))))
        out.append(('ifs', (c, lit(11), lit(True), DIV0)))
        out.append(('ifs', (c, lit(11), DIV0, lit(12))))
        out.append(('ifs', (c, lit(11), ref('B4'), lit(12))))
        out.append(('ifs', (c, lit(11), lit(False), ref('B5'), lit(2), lit(13))))
        out.append(('iferror', ('bin', '/', lit(1), c), lit(-1)))
        out.append(('iferror', ('if', c, lit(11), DIV0), lit(-1)))
        out.append(('iferror', ('if', c, ref('B14'), lit(12)), lit(-1)))
        out.append(('iferror', ('ifs', (c, lit(11))), lit(-1)))
        out.append(('iferror', ('if', c, lit(11), lit(12)), DIV0))
        out.append(('iferror', ('if', c, lit(11), lit(12)), ref('B4')))
        out.append(('iferror', ('if', c, DIV0, ref('B4')), ('if', c, lit(21), lit(22))))
    # every truth assignment of 1..4 IFS conditions (A1..A4) with distinct values, incl. falsy values
    for k in range(1, 5):
        args = []
        for i in range(k):
            args += [ref(VARS[i]), [lit(11), lit(0), ref('B3'), lit('d')][i]]
        out.append(('ifs', tuple(args)))
        out.append(('ifs', tuple(args) + (lit(True), lit(99))))
        out.append(('iferror', ('ifs', tuple(args)), lit('none')))
    # IFERROR over every fixed cell, IF over every pair of variables
    for name in FIXED:
        out.append(('iferror', ref(name), lit(-1)))
        out.append(('iferror', ref(name), ref('B6')))
        out.append(('iferror', lit(5), ref(name)))
        out.append(('if', ref('A1'), ref(name), lit(12)))
        out.append(('ifs', (ref('A1'), ref(name), lit(True), lit(12))))
    for a, b in itertools.permutations(VARS, 2):
        out.append(('if', ref(a), ref(b), ref(a)))
        out.append(('iferror', ('bin', '/', ref(a), ref(b)), ref(a)))
    # duplicates: the same condition in two pairs, the same cell as condition and both branches
    out.append(('ifs', (ref('A1'), lit(1), ref('A1'), lit(2))))
    out.append(('ifs', (ref('A1'), lit(1), ref('A2'), lit(2), ref('A1'), lit(3), ref('A2'), lit(4))))
    out.append(('if', ref('A1'), ref('A1'), ref('A1')))
    out.append(('iferror', ref('A4'), ref('A4')))
    # the same IFS sub-expression twice in one cell (sub-expressions are cached by their text per cell)
    e = ('ifs', (ref('A1'), lit(1), lit(True), lit(2)))
    out.append(('bin', '+', e, e))
    out.append(('bin', '+', e, ('ifs', (ref('A2'), lit(1), lit(True), lit(2)))))
    return [(render(a, SEPS[i % 2]), a) for i, a in enumerate(out)]


def rep_assignments():
    """every representation of true / false for A1 (A2 its negation partner, A3/A4 fixed), as overrides"""
    res = [None]
    for r in TRUE_REPS:
        res.append({'A1': enc_rep(r), 'A2': enc_rep(False), 'A3': enc_rep(1), 'A4': enc_rep(BLANK)})
    for r in FALSE_REPS:
        res.append({'A1': enc_rep(r), 'A2': enc_rep(True), 'A3': enc_rep(0.0), 'A4': enc_rep(2)})
    for bits in itertools.product([True, False], repeat=4):
        res.append({v: enc_rep(b) for v, b in zip(VARS, bits)})
    return res


def long_ifs_formulas(tier):
    """IFS with many pairs: the true pair at the first / an inner / the last position or absent"""
    out = []
    for k in ([2, 7, 60] if tier == 'quick' else [2, 7, 60, 150, 300]):
        for pos in sorted({0, 1, k // 2, k - 2, k - 1, None}, key=lambda x: -1 if x is None else x):
            args = []
            for i in range(k):
                args += [ref('A1') if i == pos else lit(False) if i % 2 else lit(0), lit(1000 + i)]
            a = ('ifs', tuple(args))
            out.append((render(a), a))
            b = ('iferror', ('bin', '+', a, lit(1)), lit(-1))
            out.append((render(b), b))
    return out


# ------------------------------------------------------------------------------------------------ check: helpers
NEAR_MISS = ['#n/a', ' #NULL!', '#NULL! ', '#N/A ', 'N/A', '#DIV/0', '#DIV/0!!', 'x#REF!', '#REF', '#NAME', '#VALUE', '#NUM', '#',
             '', '0', 'error', '#N/A#N/A', 'a' * 60]


def _raiser(exc):
    def f():
        raise exc
    return f


def helper_cases(cls):
    """[(name, kind, builder)] for _iferror: builder() -> (condition_function, expected: 'fb' | ('is', value))"""
    Empty = cls.EmptyCell
    from excel2pycl.src.exceptions import E2PyclException, E2PyclParserException, E2PyclCellException, E2PyclExecutorException
    excs = [IndexError('i'), AttributeError('a'), KeyError('k'), ZeroDivisionError('z'), TypeError('t'), ValueError('v'),
            cls.ExcelInPythonException('lib'), E2PyclException('e'), E2PyclParserException('p'), E2PyclCellException('c'),
            E2PyclExecutorException('x'), RecursionError('r'), OverflowError('o'), AssertionError('s'), StopIteration(),
            ArithmeticError('m'), LookupError('l'), RuntimeError('u'), NotImplementedError('n'), OSError('os'),
            UnicodeDecodeError('utf-8', b'x', 0, 1, 'u'), MemoryError(), NameError('nm'), Exception('plain'),
            BufferError('b'), FloatingPointError('f')]
    cases = []
    for e in excs:
        cases.append((f'raise:{type(e).__name__}', _raiser(e), 'fb'))
    cases.append(('raise:real_index', lambda: [][1], 'fb'))
    cases.append(('raise:real_key', lambda: {}['k'], 'fb'))
    cases.append(('raise:real_attr', lambda: (5).day, 'fb'))
    cases.append(('raise:real_div', lambda: 1 / 0, 'fb'))
    cases.append(('raise:real_div_blank', lambda: 1 / Empty(), 'fb'))
    cases.append(('raise:real_type', lambda: 'a' + 1, 'fb'))
    cases.append(('raise:real_value', lambda: max([]), 'fb'))
    cases.append(('raise:real_recursion', lambda: (lambda f: f(f))(lambda f: f(f)), 'fb'))
    for code in ERRS:
        cases.append((f'error:{code}', (lambda c=code: c), 'fb'))
    vals = NEAR_MISS + [0, 1, -1, 0.0, 2.5, True, False, None, Empty(), datetime.datetime(2051, 1, 1), datetime.date(2020, 2, 29),
                        [1, 2], ['#N/A'], [], ('#N/A',), 10 ** 30, float('inf'), '#ERR']
    for i, v in enumerate(vals):
        cases.append((f'value:{i}:{v!r}'[:60], (lambda x=v: x), ('is', v)))
    return cases


def ifs_cases(cls, tier):
    """[(name, flat list, expected ('is', value) | '#N/A')] for _ifs: truth kinds x positions x lengths (also > 1000 elements)"""
    Empty = cls.EmptyCell
    truthy = [True, 1, 2, -1, 0.5, 1e-9, 10 ** 20]
    falsy = [False, 0, 0.0, -0.0, Empty()]
    values = [0, False, '', Empty(), 'v', 11, 2.5, None, datetime.datetime(2051, 1, 1), 'x' * 60]
    cases = []
    n = 0
    for k in [1, 2, 3, 4, 5, 500, 501, 1000]:
        positions = sorted({0, 1, k // 2, k - 2, k - 1} & set(range(k))) + [None]
        for pos in positions:
            for second in ([None] if k == 1 else [None, 'after']):
                for t in (truthy if k <= 4 else truthy[:2]):
                    flat, exp = [], '#N/A'
                    for i in range(k):
                        val = values[(n + i) % len(values)] if k <= 5 else (1000 + i if i % 7 else values[i % len(values)])
                        if i == pos:
                            c = t
                            exp = ('is', val)
                        elif second == 'after' and pos is not None and i > pos and i % 2:
                            c = truthy[(n + i) % len(truthy)]        # later true pairs must not win
                        else:
                            c = falsy[(n + i) % len(falsy)]
                        flat += [c, val]
                    if second == 'after' and pos is None:
                        continue
                    cases.append((f'k={k},pos={pos},true={t!r},later_true={second == "after"}', flat, exp))
                    n += 1
    return cases


def check_helpers(tier):
    t0 = time.time()
    fails, evals = [], 0
    for which in ('runtime', 'abstract'):
        cls = lib.get_class(which)
        inst = cls()
        for name, fn, exp in helper_cases(cls):
            for fbi, fb in enumerate([object(), 7, '#N/A', None]):
                got = lib.call_catch(inst._iferror, fn, fb)
                evals += 1
                ok = (got is fb) if exp == 'fb' else (got is exp[1])
                if not ok:
                    kind = name.split(':')[0]
                    key = f'C13.helper.iferror.{kind}' + ('' if kind == 'value' else '.' + name.split(':')[1])
                    fails.append({'key': key, 'what': f'{which}._iferror({name}, fallback#{fbi}) -> {got!r}, expected '
                                  + ('the fallback' if exp == 'fb' else 'the value itself'),
                                  'replay': {'kind': 'helper_iferror', 'which': which, 'case': name, 'fb': fbi}})
        for name, flat, exp in ifs_cases(cls, tier):
            got = lib.call_catch(inst._ifs, list(flat))
            evals += 1
            ok = (type(got) is str and got == '#N/A') if exp == '#N/A' else (got is exp[1])
            if not ok:
                fails.append({'key': 'C13.helper.ifs.' + ('none_true' if exp == '#N/A' else 'first_true'),
                              'what': f'{which}._ifs({name}) -> {got!r}, expected {"#N/A" if exp == "#N/A" else repr(exp[1])}',
                              'replay': {'kind': 'helper_ifs', 'which': which, 'case': name}})
    return _mk_check('C13.monitor.helpers',
                     bound='_iferror and _ifs of both runtime copies (rendered template, AbstractExcelInPython): guarded callable raising '
                           '26 exception classes (IndexError, AttributeError, KeyError, ZeroDivisionError, TypeError, ValueError, the '
                           'library exceptions, RecursionError, ...) + 8 organically failing expressions, returning each of the 7 Excel '
                           'error values, 18 near-miss texts and 18 other values, x 4 fallbacks; _ifs on flat lists of 1..5, 500, 501, '
                           '1000 pairs (up to 2000 elements), the true pair first / second / middle / last / absent, 7 kinds of true, '
                           '5 kinds of false, falsy paired values, a later true pair present or not',
                     rule='one evaluation = one helper call compared with the statement (fallback by identity, value by identity, '
                          'first true pair by identity, #N/A); lists holding an error value are not generated here (no clause)',
                     exhaustive=True, evaluations=evals, fails=fails, t0=t0,
                     samples=[{'call': '_iferror(lambda: {}["k"], fb)', 'expected': 'fb'}, {'call': '_ifs([0, 11, 0.5, 0])', 'expected': 0}])


def _mk_check(name, bound, rule, exhaustive, evaluations, fails, t0, samples, distinct=None):
    seen, uniq = set(), []
    for f in fails:
        if f['key'] not in seen:
            seen.add(f['key'])
            uniq.append({k: v for k, v in f.items() if k != 'size'})
    return {'name': name, 'bound': bound, 'rule': rule, 'exhaustive': exhaustive, 'evaluations': evaluations,
            'distinct_nontrivial': evaluations if distinct is None else distinct, 'failures': uniq[:25], 'samples': samples[:3],
            'seconds': time.time() - t0}


# ------------------------------------------------------------------------------------------------ check: IFERROR relational
REL_CELLS = [  # sheet S, besides the base cells: D = texts, E/F = numbers table, G = near-miss texts and error values
    ['D', 1, 'x'], ['D', 2, 'y'], ['E', 1, 1], ['E', 2, 2], ['E', 3, 3], ['F', 1, 10], ['F', 2, 20], ['F', 3, 30],
    ['H', 1, {'$dt': [2020, 1, 31, 0, 0, 0, 0]}], ['H', 2, {'$dt': [2019, 1, 31, 0, 0, 0, 0]}],
] + [['G', i + 1, t] for i, t in enumerate(list(ERRS) + [t for t in NEAR_MISS if t])]
REL_X = [
    # (expression, organic failure class it is meant to provoke)
    '1/0', '1/B7', 'B1/B3', '1/ZZ500', 'B5', 'B5+1', '"a"+1', 'B6*2', '-B6', 'B6/2', 'LEFT("")', 'RIGHT("")', 'LEFT(5,1)', 'MID(5,1,1)',
    'DAY(5)', 'MONTH("x")', 'YEAR(B6)', 'DAY(B3)', 'MAX(D1:D2)', 'MIN(D1:D2)', 'AVERAGE(D1:D2)', 'SUMIFS(E1:E3,F1:F2,10)',
    'COUNTIFS(E1:E3,">0",F1:F2,">0")', 'AVERAGEIFS(E1:E3,F1:F2,10)', 'VLOOKUP(99,E1:F3,2,FALSE)', 'VLOOKUP(2,E1:F3,3,FALSE)',
    'VLOOKUP(2,E1:F3,2,FALSE)', 'MATCH(99,E1:E3,0)', 'MATCH(2,E1:E3,0)', 'XMATCH(99,E1:E3)', 'INDEX(E1:F3,9,1)', 'INDEX(E1:F3,2,2)',
    'INDEX(E1:F3,1,1,3)', 'MID("abc",0,1)', 'MID("abc",1,-1)', 'MID("abc",2,1)', 'SEARCH("z","abc")', 'SEARCH("b","abc")',
    'SEARCH("b","abc",9)', 'VALUE("abc")', 'VALUE("12")', 'VALUE(5)', 'DATE(10000,1,1)', 'DATE(2051,1,1)', 'DATE("x",1,1)',
    'DATEDIF(H2,H1,"D")', 'DATEDIF(H1,H2,"D")', 'DATEDIF(5,H1,"D")', 'DATEDIF(H2,H1,"Q")', 'EOMONTH(5,1)', 'EOMONTH(H1,1)',
    'EDATE("x",1)', 'EDATE(H1,"x")', 'EDATE(H1,1)', 'NETWORKDAYS(1,2)', 'ROUND("x",1)', 'ROUND(2.5,0)', 'ROUNDUP(B6,0)', 'ROUNDDOWN(B3,"a")',
    'SUM(E1:E3)/COUNT(D1:D2)', 'SUM(E1:E3)', 'COUNTBLANK(G1:G3)', 'MAX(G1:G3,1)', 'MIN(E1:E3,B4)', 'CONCATENATE("a","b")', 'TEXT(5,5)',
    'IF(A1,1/0,2)', 'IF(A2,1/0,2)', 'IFS(A2,1)', 'IFS(A1,B12)', 'IFS(A2,1,A1,1/0)', 'IFERROR(1/0,B4)', 'IFERROR(1/0,1/0)', 'IFERROR(B4,5)',
    'AND(1/0,TRUE)', 'OR(B5,TRUE)', '5', '0', '"txt"', '""', 'TRUE', 'FALSE', '2.5', 'A1', 'A2', 'A4', 'B1', 'B2', 'B3', 'B6', 'B7', 'B13',
    'B17', 'B18', 'ZZ500', 'B1%', 'B1&B6', '1=1', 'B1>B13', 'LEFT("abc",-1)', 'ADDRESS(1,1)', 'COLUMN(B1)', 'E1:E3',
] + [f'G{i + 1}' for i in range(len(ERRS) + len([t for t in NEAR_MISS if t]))]
REL_FB = ['-1', '"fb"', 'B3', 'B4', 'A1', 'FALSE', '0']


def _same_obs(a, b, Empty):
    if isinstance(a, Empty) or isinstance(b, Empty):
        return isinstance(a, Empty) and isinstance(b, Empty)
    return codec.same(a, b)


def rel_eval(xs, fbs):
    """one workbook: column Z row i = X_i, then per fallback F_j a column with IFERROR(X_i,F_j), one with
    IF(TRUE,IFERROR(X_i,F_j),"no") and one with IFERROR(IFERROR(X_i,1/0... no: IFERROR(IFERROR(X_i,F_j),"outer")"""
    cells = base_cells() + [list(c) for c in REL_CELLS]
    cols = ['Z']
    for i, x in enumerate(xs):
        cells.append(['Z', i + 1, '=' + x])
    forms = []
    for j, fb in enumerate(fbs):
        for kind, tpl in (('direct', 'IFERROR({x},{f})'), ('in_if', 'IF(TRUE,IFERROR({x},{f}),"no")'),
                          ('double', 'IFERROR(IFERROR({x},{f}),"outer")')):
            col = 'A' + chr(ord('A') + len(forms))
            forms.append((col, kind, tpl, fb))
            for i, x in enumerate(xs):
                cells.append([col, i + 1, '=' + tpl.format(x=x, f=fb)])
    cells.append(['Y', 1, '=1'])
    for j, fb in enumerate(fbs):
        cells.append(['X', j + 1, '=' + fb])
    return {'sheets': [{'title': 'S', 'cells': cells}]}, forms


def _is_failure(v):
    return isinstance(v, codec.Raised) or (type(v) is str and v in ERRS)


def rel_batch(job):
    """pool worker: the relational check on a slice of the guarded expressions"""
    xs, fbs = job['xs'], job['fbs']
    fails, evals, skipped, samples, untranslatable = [], 0, 0, [], []
    with lib.scratch() as d:
        spec, forms = rel_eval(xs, fbs)
        p = lib.Pipe(spec, d, safety=False)
        if p.error is not None:
            # find the offending X alone so that the others are still checked
            bad = []
            for x in xs:
                with lib.scratch() as d2:
                    q = lib.Pipe({'sheets': [{'title': 'S', 'cells': base_cells() + [list(c) for c in REL_CELLS] + [['Z', 1, '=' + x]]}]},
                                 d2, safety=False)
                    if q.error is not None:
                        bad.append(x)
            xs = [x for x in xs if x not in bad]
            untranslatable = bad
            spec, forms = rel_eval(xs, fbs)
            p = lib.Pipe(spec, d, safety=False, name='wb2.xlsx')
            if p.error is not None:
                fails.append({'key': 'C13.relational.translate', 'what': f'does not translate: {p.error!r} (skipped alone: {bad})',
                              'replay': None})
                xs = []
        if xs:
            Empty = p.cls.EmptyCell
            from openpyxl.utils import column_index_from_string
            for assign in [None, {'A1': False, 'A2': True, 'A3': 0, 'A4': 3}]:
                if assign:
                    _apply(p, {k: enc_rep(v) for k, v in assign.items()})
                fbv = {fb: p.value(0, column_index_from_string('X') - 1, j) for j, fb in enumerate(fbs)}
                for i, x in enumerate(xs):
                    ox = p.value(0, 25, i)
                    if type(ox) is str and ox.startswith('#') and ox not in ERRS and ox.endswith(('!', '?')) and ox == ox.upper():
                        skipped += 1          # '#ERROR!' / '#DIV0!': not one of the Excel error values, no clause
                        continue
                    for col, kind, tpl, fb in forms:
                        got = p.value(0, column_index_from_string(col) - 1, i)
                        evals += 1
                        if _is_failure(ox):
                            exp = fbv[fb]
                            if kind == 'double' and _is_failure(exp):
                                exp = 'outer'
                        else:
                            exp = ox
                        if kind == 'direct' and _is_failure(ox) is False and isinstance(fbv[fb], codec.Raised):
                            pass
                        if isinstance(exp, codec.Raised):
                            ok = isinstance(got, codec.Raised)     # the fallback itself fails: IFERROR(X,F) fails like F
                        else:
                            ok = _same_obs(got, exp, Empty)
                        if len(samples) < 1 and i == 3 and kind == 'direct':
                            samples.append({'X': x, 'alone': repr(ox)[:60], 'formula': '=' + tpl.format(x=x, f=fb), 'observed': repr(got)[:60]})
                        if not ok:
                            if _is_failure(ox):
                                key = 'C13.relational.' + (f'not_contained.{ox.cls}' if isinstance(ox, codec.Raised) else f'error_value_passed.{ox}')
                            elif isinstance(got, codec.Raised):
                                key = 'C13.iferror.eager_fallback' if isinstance(fbv[fb], codec.Raised) else 'C13.relational.value_lost.raise'
                            else:
                                key = 'C13.relational.value_lost'
                            fails.append({'key': key, 'what': f'={x} alone -> {ox!r}; ={tpl.format(x=x, f=fb)} -> {got!r}, expected '
                                          f'{exp!r} ({_fmt_assign(None if assign is None else {k: enc_rep(v) for k, v in assign.items()})})',
                                          'replay': {'kind': 'relational', 'x': x, 'fb': fb, 'tpl': tpl,
                                                     'assign': None if assign is None else {k: enc_rep(v) for k, v in assign.items()}}})
    return {'evaluations': evals, 'skipped': skipped, 'failures': fails, 'samples': samples, 'untranslatable': untranslatable}


def check_relational(tier):
    t0 = time.time()
    fbs = REL_FB if tier == 'thorough' else REL_FB[:4]
    jobs = [{'xs': REL_X[i:i + 8], 'fbs': fbs} for i in range(0, len(REL_X), 8)]
    with multiprocessing.Pool(min(16, len(jobs))) as pool:
        results = pool.map(rel_batch, jobs, chunksize=1)
    fails, evals, samples, bad = [], 0, [], []
    for r in results:
        evals += r['evaluations']
        fails += r['failures']
        samples += r['samples']
        bad += r['untranslatable']
    for x in bad:
        fails.append({'key': 'C13.relational.untranslatable', 'what': f'={x} alone does not translate (monitor input problem)', 'replay': None})
    return _rel_check(fbs, evals, fails, t0, samples)


def _rel_check(fbs, evals, fails, t0, samples):
    return _mk_check('C13.monitor.iferror_relational',
                     bound=f'{len(REL_X)} guarded expressions X over 38 library functions and the operators (organic IndexError, AttributeError, '
                           'TypeError, ValueError, ZeroDivisionError, ExcelInPythonException; results #N/A #REF! #NUM! #VALUE!; cells holding '
                           f'each of the 7 error values and 17 near-miss texts; plain values of every type) x {len(fbs)} fallbacks x '
                           '{IFERROR(X,F), IF(TRUE,IFERROR(X,F),"no"), IFERROR(IFERROR(X,F),"outer")} x {cell constants, overrides}',
                     rule='one evaluation = IFERROR(X,F) compared with what the statement derives from X observed alone in its own cell: '
                          'F when X alone raised or gave one of the 7 Excel error values, the very value of X (same type) otherwise; X '
                          'giving the non-Excel markers #ERROR! / #DIV0! is skipped',
                     exhaustive=True, evaluations=evals, fails=fails, t0=t0, samples=samples)


# ------------------------------------------------------------------------------------------------ check: sheets / overrides / API order
def _cmp(fails, key, what, got, exp, Empty, replay, ast=None, env=None):
    if not agree(got, exp, Empty):
        if ast is not None:
            k2 = classify(ast, env, got, Empty, 'x')
            if '.eager' in k2:
                key = k2
        fails.append({'key': key, 'what': f'{what} -> {got!r}, expected {show(exp)}', 'replay': replay})
    return 1


def sc_two_sheets(tier, rng):
    """two sheets holding the same formula texts with unqualified references; constants and overrides differ per sheet"""
    from excel2pycl import Cell
    forms = [('if', ref('A1'), lit(11), lit(12)), ('ifs', (ref('A1'), lit(1), ref('A2'), lit(2), lit(True), lit(3))),
             ('iferror', ('bin', '/', lit(1), ref('A1')), lit('e')), ('ifs', (ref('A1'), lit(1), ref('A2'), lit(2))),
             ('bin', '+', ('if', ref('A1'), ('ifs', (ref('A2'), lit(1), lit(True), lit(2))), ('iferror', ('bin', '/', lit(1), ref('A2')), lit(9))), lit(1)),
             ('if', ref('S!A1'), lit(21), lit(22)), ('if', ref("'T'!A1"), lit(31), lit(32)),
             ('ifs', (ref('T!A2'), ref('S!A2'), lit(True), lit(0))), ('iferror', ('bin', '/', ref('S!A1'), ref('T!A1')), ref('A2'))]
    texts = [render(a) for a in forms]
    const = {'S': {'A1': True, 'A2': False}, 'T': {'A1': 0, 'A2': 1}}
    spec = {'sheets': [{'title': t, 'cells': [['A', 1, const[t]['A1']], ['A', 2, const[t]['A2']]] +
                        [['Z', i + 1, '=' + f] for i, f in enumerate(texts)]} for t in ('S', 'T')]}
    fails, n = [], 0
    with lib.scratch() as d:
        p = lib.Pipe(spec, d, safety=False)
        if p.error is not None:
            return 0, [{'key': 'C13.api.two_sheets.translate', 'what': repr(p.error), 'replay': {'kind': 'api', 'scenario': 'two_sheets'}}]
        Empty = p.cls.EmptyCell
        cur = {t: dict(const[t]) for t in const}

        def check(tag):
            nonlocal n
            for si, t in enumerate(('S', 'T')):
                env = {}
                for s2 in ('S', 'T'):
                    for a in ('A1', 'A2'):
                        env[f'{s2}!{a}'] = V(cur[s2][a])
                        env[f"'{s2}'!{a}"] = V(cur[s2][a])
                env['A1'], env['A2'] = V(cur[t]['A1']), V(cur[t]['A2'])
                for i, a in enumerate(forms):
                    exp = ev(a, env)
                    if exp[0] == 'unspec':
                        continue
                    got = p.value(si, 25, i)
                    n += _cmp(fails, f'C13.api.two_sheets.{sorted(constructs(a))[0]}', f'sheet {t}!Z{i + 1} ={texts[i]} ({tag}; S: {cur["S"]}, T: {cur["T"]})',
                              got, exp, Empty, {'kind': 'api', 'scenario': 'two_sheets'}, a, env)
        check('cell constants')
        reps = [True, False, 0, 2, BLANK, 0.5]
        combos = list(itertools.product(reps, repeat=2))
        steps = [(t, a, v) for t in ('S', 'T') for a in ('A1', 'A2') for v in reps]
        rng.shuffle(steps)
        for t, a, v in steps[: (len(steps) if tier == 'thorough' else 16)]:
            cur[t][a] = v
            p.executor.set_cells([Cell(t, a[0], a[1:], Empty() if v is BLANK else v)])     # ONE sheet's cell only
            check(f'after override {t}!{a}={v!r}')
    return n, fails


def sc_far_cells(tier, rng):
    """conditions / branches in column AAA, row 1001, the last column XFD and beyond the used range, constants and overrides"""
    from excel2pycl import Cell
    names = ['AAA101', 'B1001', 'XFD5', 'ZZ500', 'AB2000']
    written = {'AAA101': True, 'B1001': 0, 'XFD5': 4}
    forms = [('if', ref('AAA101'), lit(11), lit(12)), ('ifs', (ref('ZZ500'), lit(1), ref('B1001'), lit(2), lit(True), lit(3))),
             ('iferror', ('bin', '/', lit(1), ref('ZZ500')), lit('e')), ('if', ref('XFD5'), ref('AB2000'), ref('AAA101')),
             ('ifs', (ref('AB2000'), lit(1))), ('iferror', ('bin', '/', ref('XFD5'), ref('B1001')), ref('AAA101')),
             ('bin', '+', ('if', ref('AB2000'), lit(1), lit(2)), ('if', ref('XFD5'), lit(10), lit(20)))]
    texts = [render(a) for a in forms]
    spec = {'sheets': [{'title': 'S', 'cells': [[*split_ref(k), v] for k, v in written.items()] +
                        [['C', 101 + i, '=' + f] for i, f in enumerate(texts)]}]}
    fails, n = [], 0
    with lib.scratch() as d:
        p = lib.Pipe(spec, d, safety=False)
        if p.error is not None:
            return 0, [{'key': 'C13.api.far_cells.translate', 'what': repr(p.error), 'replay': {'kind': 'api', 'scenario': 'far_cells'}}]
        Empty = p.cls.EmptyCell
        cur = {k: written.get(k, BLANK) for k in names}

        def check(tag):
            nonlocal n
            env = {k: V(v) for k, v in cur.items()}
            for i, a in enumerate(forms):
                exp = ev(a, env)
                if exp[0] == 'unspec':
                    continue
                got = p.value(0, 'C', str(101 + i))
                n += _cmp(fails, 'C13.api.far_cells', f'C{101 + i} ={texts[i]} ({tag}; {cur})', got, exp, Empty,
                          {'kind': 'api', 'scenario': 'far_cells'}, a, env)
        check('cell constants')
        reps = [True, False, 0, 3, BLANK, -0.5]
        steps = [(k, v) for k in names for v in reps]
        rng.shuffle(steps)
        for k, v in steps[: (len(steps) if tier == 'thorough' else 14)]:
            cur[k] = v
            col, row = split_ref(k)
            p.executor.set_cells([Cell(0, col, str(row), Empty() if v is BLANK else v)])
            check(f'after override {k}={v!r}')
    return n, fails


def sc_fixed_overrides(tier, rng):
    """overrides of the cells the branches / guarded arguments read: a failing formula cell, an error constant, a blank"""
    from excel2pycl import Cell
    forms = [('if', ref('A1'), ref('B5'), lit(12)), ('if', ref('A1'), lit(11), ref('B5')), ('iferror', ref('B5'), lit(9)),
             ('iferror', ref('B4'), lit(9)), ('iferror', ref('B3'), lit(9)), ('ifs', (ref('A1'), ref('B4'), lit(True), ref('B5'))),
             ('iferror', ('if', ref('A1'), ref('B5'), ref('B4')), ref('B3')), ('iferror', ref('B15'), ref('B1')),
             ('if', ref('B3'), ref('B4'), ref('B1')), ('iferror', ('bin', '+', ref('B5'), lit(1)), lit(-1))]
    texts = [render(a) for a in forms]
    fails, n = [], 0
    with lib.scratch() as d:
        p = lib.Pipe(_sheet_spec(texts), d, safety=False)
        if p.error is not None:
            return 0, [{'key': 'C13.api.fixed_overrides.translate', 'what': repr(p.error), 'replay': {'kind': 'api', 'scenario': 'fixed_overrides'}}]
        Empty = p.cls.EmptyCell
        over = {}

        def check(tag):
            nonlocal n
            env = make_env({k: v for k, v in over.items() if k in VARS})
            for k, v in over.items():
                if k not in VARS:
                    env[k] = ERR(v) if (isinstance(v, str) and v in ERRS) else V(v)
            if 'B4' in over:
                env['B15'] = env['B4']          # B15 is the formula =B4
            for i, a in enumerate(forms):
                exp = ev(a, env)
                if exp[0] == 'unspec':
                    continue
                got = p.value(0, 25, i)
                n += _cmp(fails, f'C13.api.fixed_overrides.{sorted(constructs(a))[0]}', f'={texts[i]} ({tag}; overrides so far {over})', got, exp,
                          Empty, {'kind': 'api', 'scenario': 'fixed_overrides'}, a, env)
        check('no override')
        steps = [('B5', 5), ('A1', False), ('B4', 3), ('B3', '#REF!'), ('A1', 2), ('B5', '#NUM!'), ('B4', '#NULL!'), ('B3', BLANK),
                 ('B5', 0), ('B1', '#NAME?'), ('B4', '#N/A'), ('B5', BLANK), ('A1', BLANK), ('B4', ' #NULL!'), ('B5', '#VALUE!'),
                 ('B3', '#DIV/0!'), ('A1', 0.5), ('B5', 2.5), ('B4', '#n/a')]
        for k, v in steps:
            over[k] = v
            col, row = split_ref(k)
            p.executor.set_cells([Cell(0, col, str(row), Empty() if v is BLANK else v)])
            check(f'after override {k}={v!r}')
    return n, fails


def sc_entry_and_reuse(tier, rng):
    """the same formulas translated from an entry cell (one Parser re-used for every entry cell and for a second workbook
    whose formulas have the branches swapped) instead of the whole file"""
    from excel2pycl import Parser, Executor, Cell
    pool = gen_chain_formulas(2, [0, 1, 3], lambda n: [n]) + gen_chain_formulas(3, [0], lambda n: [n])
    rng.shuffle(pool)
    pick = pool[: (40 if tier == 'thorough' else 10)]
    swapped = [(render(('if', ref('A1'), lit(12), lit(11))), ('if', ref('A1'), lit(12), lit(11))),
               (render(('ifs', (ref('A2'), lit(2), ref('A1'), lit(1)))), ('ifs', (ref('A2'), lit(2), ref('A1'), lit(1)))),
               (render(('iferror', lit(5), lit(7))), ('iferror', lit(5), lit(7)))]
    first = [(render(('if', ref('A1'), lit(11), lit(12))), ('if', ref('A1'), lit(11), lit(12))),
             (render(('ifs', (ref('A1'), lit(1), ref('A2'), lit(2)))), ('ifs', (ref('A1'), lit(1), ref('A2'), lit(2)))),
             (render(('iferror', DIV0, lit(7))), ('iferror', DIV0, lit(7)))]
    fails, n = [], 0
    assigns = [None] + truth_assignments(rng, 1)[1::3]
    with lib.scratch() as d:
        path1, path2 = os.path.join(d, 'one.xlsx'), os.path.join(d, 'two.xlsx')
        lib.write_workbook(_sheet_spec([t for t, _ in first + pick]), path1)
        lib.write_workbook(_sheet_spec([t for t, _ in swapped]), path2)
        parser = Parser().disable_safety_check()

        def run_one(path, row, ast, text, tag, entry=True):
            nonlocal n
            parser.set_excel_file_path(path)
            if entry:
                parser.set_entrypoint_cell(Cell('S', 'Z', str(row + 1)))
            code = lib.call_catch(parser.get_translation)
            if isinstance(code, codec.Raised):
                fails.append({'key': 'C13.api.entry.translate', 'what': f'={_one_line(text)} ({tag}) does not translate: {code!r}',
                              'replay': {'kind': 'api', 'scenario': 'entry_and_reuse'}})
                return
            cls = lib.load_class_from_text(code)
            ex = Executor().set_executed_class(class_object=cls)
            for assign in assigns:
                if assign is not None:
                    ex.set_cells([Cell(0, *[split_ref(k)[0], str(split_ref(k)[1])], dec_rep(j, cls.EmptyCell)) for k, j in assign.items()])
                    env = make_env({k: oracle_rep(j) for k, j in assign.items()})
                else:
                    env = make_env(None)
                exp = ev(ast, env)
                if exp[0] == 'unspec':
                    continue
                r = lib.call_catch(ex.get_cell, Cell(0, 25, row))
                got = r if isinstance(r, codec.Raised) else r.value
                n += 1
                if not agree(got, exp, cls.EmptyCell):
                    key = classify(ast, env, got, cls.EmptyCell, 'api.entry')
                    fails.append({'key': key, 'what': f'={_one_line(text)} ({tag}, {_fmt_assign(assign)}) -> {got!r}, expected {show(exp)}',
                                  'replay': {'kind': 'api', 'scenario': 'entry_and_reuse'}})
        for i, (t, a) in enumerate(first + pick):
            run_one(path1, i, to_tuple(a), t, 'entry cell, workbook one')
            if i < 3:
                run_one(path2, i, to_tuple(swapped[i][1]), swapped[i][0], 'same Parser and entry cell, workbook two')
        # whole-file translation with the same Parser object after entry-cell translations: entry cell reset is not
        # part of the public API, so a fresh Parser is used for the whole file and then re-pointed to workbook two
        parser = Parser().disable_safety_check()
        for i in range(3):
            run_one(path1, i, to_tuple(first[i][1]), first[i][0], 'whole file, workbook one', entry=False)
        for i in range(3):
            run_one(path2, i, to_tuple(swapped[i][1]), swapped[i][0], 'whole file, same Parser, workbook two', entry=False)
    return n, fails


SCENARIOS = {'two_sheets': sc_two_sheets, 'far_cells': sc_far_cells, 'fixed_overrides': sc_fixed_overrides,
             'entry_and_reuse': sc_entry_and_reuse}


def sc_run(job):
    name, tier, seed = job
    return name, SCENARIOS[name](tier, random.Random(seed))


def check_api(tier, seed, pool=None):
    t0 = time.time()
    jobs = [(name, tier, seed) for name in SCENARIOS]
    results = pool.map(sc_run, jobs, chunksize=1) if pool is not None else [sc_run(j) for j in jobs]
    fails, evals = [], 0
    for name, (n, f) in results:
        evals += n
        fails += f
    return _api_check(evals, fails, t0, [{'scenario': n, 'evaluations': r[0]} for n, r in results])


def _api_check(evals, fails, t0, samples):
    return _mk_check('C13.monitor.sheets_overrides_api',
                     bound='4 scenarios: (1) two sheets S/T with the same 9 formula texts (unqualified, S!/T!/quoted references), different '
                           'constants, overrides of one sheet\'s cell at a time over 6 value kinds; (2) conditions and branches in AAA101, '
                           'B1001, XFD5 and beyond the used range (ZZ500, AB2000), formulas in rows 101..107, constants then overrides; '
                           '(3) 19 successive overrides (numbers, blanks, each error value, near-miss texts) of the failing formula cell, the '
                           'error constant and the blank read by 10 IF/IFS/IFERROR formulas; (4) entry-cell translation of 13 / 43 nests '
                           'with ONE re-used Parser, re-pointed to a second workbook with swapped branches, and whole-file translation '
                           'with a re-used Parser',
                     rule='one evaluation = one formula value under one state of constants / overrides compared with the lazy reference; '
                          'overrides accumulate in one Executor (most recent wins)',
                     exhaustive=False, evaluations=evals, fails=fails, t0=t0,
                     samples=samples)


# ------------------------------------------------------------------------------------------------ run / replay
def _dispatch(job):
    t = job['type']
    if t == 'nest':
        return eval_batch(job)
    if t == 'rel':
        return rel_batch(job)
    if t == 'api':
        return sc_run(job['job'])
    raise ValueError(t)


def _merge(results):
    tot = {'evaluations': 0, 'skipped': 0, 'failures': [], 'samples': [], 'translated': 0}
    best = {}
    for r in results:
        tot['evaluations'] += r['evaluations']
        tot['skipped'] += r['skipped']
        tot['translated'] += r.get('translated', 0)
        tot['samples'] += r['samples'][:1]
        for f in r['failures']:
            if f['key'] not in best or f.get('size', 0) < best[f['key']].get('size', 0):
                best[f['key']] = f
    tot['failures'] = [best[k] for k in sorted(best)]
    return tot


def _drop_supersets(fails):
    """a `new breakage` key over the constructs {a,b} adds nothing once the same kind of disagreement is already
    witnessed for a subset of these constructs (the smaller formula is the witness)"""
    def parts(k):
        p = k.split('.')
        return (p[1], frozenset(p[2].split('+')), p[3]) if len(p) == 4 and p[3] in ('wrong_value', 'spurious_failure', 'error_swallowed') else None
    keep = []
    for f in fails:
        a = parts(f['key'])
        if a and any((b := parts(g['key'])) and b[0] == a[0] and b[2] == a[2] and b[1] < a[1] for g in fails):
            continue
        keep.append(f)
    return keep


def run(tier='quick', seed=0):
    rng = random.Random(seed)
    thorough = tier == 'thorough'
    t_start = time.time()
    # ---- formula sets
    basic = dedupe(basic_formulas())
    basic_assigns = rep_assignments()
    longs = long_ifs_formulas(tier)
    all_ctx = list(range(len(CONTEXTS)))
    d1 = gen_chain_formulas(1, [0, 1, 2, 3], lambda n: all_ctx)
    if thorough:
        d2 = gen_chain_formulas(2, [0, 1, 2, 3], lambda n: [n, n + 7, n + 13, n + 19, n + 23])
        d3all = gen_chain_formulas(3, [0, 1, 2, 3], lambda n: [n + seed])
        # every chain with two of the four fail modes (rotating with the chain index)
        d3 = [d3all[4 * i + (i + seed + k) % 4] for i in range(len(d3all) // 4) for k in (0, 2)]
    else:
        d2 = gen_chain_formulas(2, [0, 1, 2, 3], lambda n: [n + seed])
        d3all = gen_chain_formulas(3, [0, 1, 2, 3], lambda n: [n + seed])
        # every ninth chain (rotating with the seed), the fail mode rotating with the chain index
        d3 = [d3all[4 * i + (i + seed) % 4] for i in range(len(d3all) // 4) if (i + seed) % 9 == 0]
    chain_sets = {1: dedupe(d1), 2: dedupe(d2), 3: dedupe(d3)}
    rnd = dedupe(gen_random_formulas(rng, 500 if thorough else 50) + (gen_random_formulas(rng, 40, cap=5) if thorough else []))
    nest_assigns = truth_assignments(rng, 3 if thorough else 1)
    # ---- jobs for one pool
    jobs = []

    def add(group, where, formulas, assigns, chunk):
        for i in range(0, len(formulas), chunk):
            jobs.append({'type': 'nest', 'group': group, 'where': where, 'formulas': formulas[i:i + chunk], 'assigns': assigns})
    add('d3', 'nest', chain_sets[3], nest_assigns, 14 if not thorough else 40)
    add('rnd', 'nest', rnd, nest_assigns, 5 if not thorough else 20)
    add('d2', 'nest', chain_sets[2], nest_assigns, 27 if not thorough else 60)
    add('d1', 'nest', chain_sets[1], nest_assigns, 60)
    add('basic', 'basic', basic, basic_assigns, 90)
    add('long', 'ifs_long', longs, basic_assigns[:16], 4)
    fbs = REL_FB if thorough else REL_FB[:3]
    for i in range(0, len(REL_X), 8):
        jobs.append({'type': 'rel', 'group': 'rel', 'xs': REL_X[i:i + 8], 'fbs': fbs})
    for name in SCENARIOS:
        jobs.append({'type': 'api', 'group': 'api', 'job': (name, tier, seed)})
    order = sorted(range(len(jobs)), key=lambda i: {'api': 0, 'long': 1, 'd3': 2, 'rnd': 3}.get(jobs[i]['group'], 4))
    t_jobs = time.time()
    with multiprocessing.Pool(16) as pool:
        res_list = pool.map(_dispatch, [jobs[i] for i in order], chunksize=1)
    results = {}
    for i, r in zip(order, res_list):
        results.setdefault(jobs[i]['group'], []).append(r)
    pool_seconds = time.time() - t_jobs
    total_units = sum(len(j.get('formulas', ())) or 20 for j in jobs)

    def secs(group):
        units = sum(len(j.get('formulas', ())) or 20 for j in jobs if j['group'] == group)
        return pool_seconds * units / max(1, total_units)
    checks = []
    # 1. single constructs
    t0 = time.time()
    m = _merge(results['basic'])
    checks.append(_mk_check(
        'C13.monitor.single_constructs',
        bound=f'{len(basic)} formulas: IF with 34 condition sources (cell, forwarding formula cell, brackets, AND/OR, nested IF, 6 comparisons '
              'incl. blank=0, number / blank / beyond-used-range cells, literals TRUE FALSE TRUE() FALSE() 0 1 2 0.5 0.0 1e-3 0e5 -1 1-1, '
              'failing 1/0 and =1/0 cell) x 18 branch pairs (numbers, omitted else, failing untaken/taken branch, texts, "", blank, 0/FALSE, '
              'error cells, date > 2050, 60-char text); IFS with the condition first / second / absent, falsy and error values, 1..4 '
              'variable conditions; IFERROR over every fixed cell and failing IF/IFS; x '
              f'{len(basic_assigns)} states of A1..A4 (constants; overrides with 9 kinds of true, 5 kinds of false incl. blank and -0.0; all 16 '
              'boolean vectors)',
        rule='one evaluation = one (formula, state) value compared with the lazy reference; pairs whose reference is unspecified (text / '
             f'error value as condition or operand) are skipped ({m["skipped"]} skipped)',
        exhaustive=True, evaluations=m['evaluations'], fails=_drop_supersets(m['failures']), t0=t0 - secs('basic'), samples=m['samples']))
    # 2. long IFS
    t0 = time.time()
    m = _merge(results['long'])
    checks.append(_mk_check(
        'C13.monitor.ifs_many_pairs',
        bound=f'IFS with {"2, 7, 60" if not thorough else "2, 7, 60, 150, 300"} pairs (the parser\'s recursion limit is reached near 600 pairs), '
              'the only variable condition at the first / second / middle / last-but-one / last position or absent, false '
              'conditions alternating FALSE and 0, alone and as IFERROR(IFS(..)+1,-1); x 16 states of A1',
        rule='one evaluation = one (formula, state) value compared with the lazy reference (value of the first true pair, #N/A if none)',
        exhaustive=True, evaluations=m['evaluations'], fails=m['failures'], t0=t0 - secs('long'), samples=m['samples']))
    # 3. nests
    t0 = time.time()
    parts = results.get('d1', []) + results.get('d2', []) + results.get('d3', [])
    m = _merge(parts)
    checks.append(_mk_check(
        'C13.monitor.nest_chains',
        bound=f'6 construct shapes (IF/3, IF/2, IFS 1 pair, IFS 2 pairs, IFS 2 pairs + TRUE default, IFERROR); every chain of nesting depth 1 '
              f'(6), 2 (108) and 3 ({"all 1944, two fail modes each" if thorough else "216 of 1944, rotating with the seed, one fail mode each"}): each construct in each condition / '
              'branch / guarded / fallback slot of its parent, optionally wrapped in + * - / unary minus, brackets, SUM, AND, OR between the '
              'levels (call depth incl. brackets kept <= 4: the library parser needs ~5-8x time per level); x fail modes {no failing leaf, untaken/taken branches 1/0 and =1/0 cell, error-value cells #N/A #DIV/0!, 1/variable and '
              f'1/zero-cell}} x {len(CONTEXTS)} outer positions (bare; operand of + - * / unary minus and of = <> < >= > without user brackets, '
              'left and right; argument of SUM MAX MIN AND OR ROUND; &; next to a second IF; inside IFERROR(12/E,-1)) - all positions at '
              f'depth 1, {"5" if thorough else "1"} per formula at depth 2, 1 at depth 3 (function positions for 1 formula in 12 there); separators , ; and line '
              f'breaks; {len(chain_sets[1])}+{len(chain_sets[2])}+{len(chain_sets[3])} formulas x {len(nest_assigns)} states (constants + all 16 '
              f'truth vectors of A1..A4 {"x 3 draws" if thorough else ""} with representations of true/false drawn by seed)',
        rule='one evaluation = one (formula, state) value or exception compared with the lazy reference evaluator; a reference outcome '
             '`error` accepts an exception or an Excel error value; pairs with unspecified reference are skipped '
             f'({m["skipped"]} skipped). Failures explained by the two eager-evaluation defects known at design time are keyed '
             'C13.ifs.eager_* / C13.iferror.eager_fallback, everything else C13.<check>.<constructs>.<kind>',
        exhaustive=thorough, evaluations=m['evaluations'], fails=_drop_supersets(m['failures']),
        t0=t0 - secs('d1') - secs('d2') - secs('d3'), samples=m['samples']))
    t0 = time.time()
    m = _merge(results['rnd'])
    checks.append(_mk_check(
        'C13.monitor.nest_random',
        bound=f'{len(rnd)} random full trees of nesting depth <= 3 and call depth <= 4 (40 of them <= 5 in thorough; every slot nested with probability 1/2, random fail mode per leaf, random wrapper '
              f'between levels, random outer position and separator) x {len(nest_assigns)} states',
        rule='as nest_chains', exhaustive=False, evaluations=m['evaluations'], fails=_drop_supersets(m['failures']),
        t0=t0 - secs('rnd'), samples=m['samples']))
    # 4. relational IFERROR
    t0 = time.time()
    rel = results['rel']
    fails, evals, samples, bad = [], 0, [], []
    for r in rel:
        evals += r['evaluations']
        fails += r['failures']
        samples += r['samples']
        bad += r['untranslatable']
    for x in bad:
        fails.append({'key': 'C13.relational.untranslatable', 'what': f'={x} alone does not translate (monitor input problem)', 'replay': None})
    checks.append(_rel_check(fbs, evals, fails, t0 - secs('rel'), samples))
    # 5. helpers, API
    checks.append(check_helpers(tier))
    t0 = time.time()
    fails, evals, samples = [], 0, []
    for name, (n, f) in results['api']:
        evals += n
        fails += f
        samples.append({'scenario': name, 'evaluations': n})
    checks.append(_api_check(evals, fails, t0 - secs('api'), samples))
    return {'checks': checks}


def replay(payload):
    if not payload:
        return {'fails': False, 'text': 'nothing to replay'}
    k = payload.get('kind')
    if k == 'nest':
        return replay_nest(payload)
    if k == 'helper_iferror':
        cls = lib.get_class(payload['which'])
        inst = cls()
        for name, fn, exp in helper_cases(cls):
            if name == payload['case']:
                fb = [object(), 7, '#N/A', None][payload['fb']]
                got = lib.call_catch(inst._iferror, fn, fb)
                ok = (got is fb) if exp == 'fb' else (got is exp[1])
                return {'fails': not ok, 'text': f'{payload["which"]}._iferror({name}, {fb!r}) -> {got!r}; expected '
                        + ('the fallback' if exp == 'fb' else 'the value itself')}
    if k == 'helper_ifs':
        cls = lib.get_class(payload['which'])
        inst = cls()
        for name, flat, exp in ifs_cases(cls, 'quick'):
            if name == payload['case']:
                got = lib.call_catch(inst._ifs, list(flat))
                ok = (type(got) is str and got == '#N/A') if exp == '#N/A' else (got is exp[1])
                return {'fails': not ok, 'text': f'{payload["which"]}._ifs({name}) -> {got!r}; expected {exp!r}'}
    if k == 'relational':
        r = rel_batch({'xs': [payload['x']], 'fbs': [payload['fb']]})
        hit = [f for f in r['failures'] if payload['tpl'].format(x=payload['x'], f=payload['fb']) in f['what']] or r['failures']
        return {'fails': bool(hit), 'text': hit[0]['what'] if hit else f'IFERROR({payload["x"]},{payload["fb"]}) agrees with {payload["x"]} alone'}
    if k == 'api':
        n, fails = SCENARIOS[payload['scenario']]('quick', random.Random(payload.get('seed', 0)))
        return {'fails': bool(fails), 'text': fails[0]['what'] if fails else f'scenario {payload["scenario"]}: {n} evaluations agree'}
    return {'fails': False, 'text': 'nothing to replay'}
